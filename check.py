#!/usr/bin/env python3
"""Single entry point: check.py <ID> --tier quick|thorough [--replay <path>]
exit 0 = held on everything explored; 1 = violation (VIOLATION line printed); 2 = harness failure / inconclusive."""
import argparse, importlib, os, sys, traceback
sys.path.insert(0, os.path.join(os.path.dirname(os.path.abspath(__file__)), "tools"))
sys.path.insert(0, os.path.join(os.path.dirname(os.path.abspath(__file__)), "checks"))
import vlib


def main():
    ap = argparse.ArgumentParser()
    ap.add_argument("prop")
    ap.add_argument("--tier", default=os.environ.get("VERIF_TIER", "quick"), choices=["quick", "thorough"])
    ap.add_argument("--replay", default=None)
    a = ap.parse_args()
    os.chdir(vlib.VERIF)
    try:
        mod = importlib.import_module(a.prop.lower())
        rc = mod.run(a.tier, a.replay)
    except vlib.HarnessFailure as ex:
        print("HARNESS-FAILURE %s: %s" % (a.prop, ex))
        rc = 2
    except Exception:
        traceback.print_exc()
        print("HARNESS-FAILURE %s: unexpected exception" % a.prop)
        rc = 2
    sys.exit(rc)


if __name__ == "__main__":
    main()
