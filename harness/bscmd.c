/* bscmd: the one deterministic command used by every generated build description / ninja manifest.
 *
 *   bscmd <name> [--salt S] [--in F]... [--out F]... [--reads-file F] [--dep-out F]... [--dep-style makefile|depinfo]
 *         [--env VAR]... [--fail-file F] [--sleep-ms N] [--log F] [--in-rest F...] [--log-end] [--restat]
 *
 *   --in-rest   every remaining word is an input (ninja: $in expands to several words)
 *   --log-end   (C18) also append "<name> <monotonic ts> end <exit code>" to the run log on every exit path that is not a signal
 *   --restat    (C18) an output whose content is already what would be written is left untouched (mtime kept), like a
 *               compiler wrapper that does not rewrite unchanged outputs
 *
 * 1. appends "<name>\n" (and a monotonic start timestamp) to the run log with ONE O_APPEND write
 * 2. H = fnv1a64 over: name, salt, for each --env VAR: VAR=value, for each --in F: F + content (or <missing>),
 *    for each path listed (one per line) in the --reads-file: path + content (or <missing>)
 * 3. obeys the --fail-file (if it exists): first line one of
 *      "exit N"            exit N before writing anything
 *      "signal N"          kill(getpid(), N) before writing anything
 *      "late-exit N"       write outputs, then exit N
 *      "missing-read"      behave as if an undeclared input is missing: exit 3
 * 4. writes every --out F with "<hex H> <name> <basename-index>\n"
 * 5. writes the dependency file for the undeclared reads if requested
 * The Python side recomputes H, so output contents are predicted without running anything. */
#define _GNU_SOURCE
#include <errno.h>
#include <fcntl.h>
#include <signal.h>
#include <stdint.h>
#include <stdio.h>
#include <stdlib.h>
#include <string.h>
#include <sys/stat.h>
#include <time.h>
#include <unistd.h>

static uint64_t H = 1469598103934665603ull;
static void hb(const void* p, size_t n) { const unsigned char* c = p; for (size_t i = 0; i < n; ++i) { H ^= c[i]; H *= 1099511628211ull; } }
static void hs(const char* s) { hb(s, strlen(s)); hb("\0", 1); }
static void hfile(const char* path) {
  hs(path);
  int fd = open(path, O_RDONLY);
  if (fd < 0) { hs("<missing>"); return; }
  struct stat st;
  if (fstat(fd, &st) == 0 && S_ISDIR(st.st_mode)) { hs("<dir>"); close(fd); return; }
  hs("<content>");
  char buf[65536]; ssize_t n;
  while ((n = read(fd, buf, sizeof buf)) > 0) hb(buf, (size_t)n);
  hb("\1", 1);
  close(fd);
}

#define MAXA 256
static const char* g_endlog = NULL; static const char* g_name = "";
static int finish(int code) {
  if (g_endlog) {
    struct timespec ts; clock_gettime(CLOCK_MONOTONIC, &ts);
    char line[1024]; int n = snprintf(line, sizeof line, "%s %lld.%09ld end %d\n", g_name, (long long)ts.tv_sec, ts.tv_nsec, code);
    int fd = open(g_endlog, O_WRONLY | O_CREAT | O_APPEND, 0644);
    if (fd >= 0) { if (write(fd, line, (size_t)n) < 0) {} close(fd); }
  }
  return code;
}
static int same_content(const char* path, const char* want) {
  FILE* f = fopen(path, "r"); if (!f) return 0;
  char buf[2048]; size_t n = fread(buf, 1, sizeof buf - 1, f); int more = fgetc(f) != EOF; fclose(f);
  buf[n] = 0; return !more && n == strlen(want) && !memcmp(buf, want, n);
}
int main(int argc, char** argv) {
  if (argc < 2) return 2;
  const char* name = argv[1];
  const char *salt = "", *readsFile = NULL, *depOuts[8] = {0}, *depStyle = "makefile", *failFile = NULL, *logf = getenv("BSCMD_LOG");
  const char* ins[MAXA]; int nin = 0; const char* outs[MAXA]; int nout = 0; const char* envs[MAXA]; int nenv = 0; long sleepMs = 0; int depCorrupt = 0, ndep = 0, depCorruptIndex = -1, depCorruptMid = 0; int logEnd = 0, restat = 0, linkOuts = 0;
  for (int i = 2; i < argc; ++i) {
    const char* a = argv[i]; const char* v = i + 1 < argc ? argv[i + 1] : "";
    if (!strcmp(a, "--salt")) { salt = v; ++i; }
    else if (!strcmp(a, "--in") && nin < MAXA) { ins[nin++] = v; ++i; }
    else if (!strcmp(a, "--out") && nout < MAXA) { outs[nout++] = v; ++i; }
    else if (!strcmp(a, "--env") && nenv < MAXA) { envs[nenv++] = v; ++i; }
    else if (!strcmp(a, "--reads-file")) { readsFile = v; ++i; }
    else if (!strcmp(a, "--dep-out")) { if (ndep < 8) depOuts[ndep++] = v; ++i; }   /* several files: read i is reported in file i % ndep */
    else if (!strcmp(a, "--dep-corrupt-index")) { depCorruptIndex = atoi(v); ++i; }   /* only that file is malformed */
    else if (!strcmp(a, "--dep-corrupt-mid")) { depCorruptMid = 1; }                  /* malformed after a well-formed prefix */
    else if (!strcmp(a, "--dep-style")) { depStyle = v; ++i; }
    else if (!strcmp(a, "--dep-corrupt")) { depCorrupt = 1; }
    else if (!strcmp(a, "--fail-file")) { failFile = v; ++i; }
    else if (!strcmp(a, "--sleep-ms")) { sleepMs = atol(v); ++i; }
    else if (!strcmp(a, "--log")) { logf = v; ++i; }
    else if (!strcmp(a, "--log-end")) { logEnd = 1; }
    else if (!strcmp(a, "--restat")) { restat = 1; }
    else if (!strcmp(a, "--link-outs")) { linkOuts = 1; }   /* each output is a symbolic link to <output>.real, which holds the content */
    else if (!strcmp(a, "--in-rest")) { for (++i; i < argc && nin < MAXA; ++i) ins[nin++] = argv[i]; }   /* ninja: $in expands to several words */
  }
  if (logf) {
    struct timespec ts; clock_gettime(CLOCK_MONOTONIC, &ts);
    char line[1024]; int n = snprintf(line, sizeof line, "%s %lld.%09ld start\n", name, (long long)ts.tv_sec, ts.tv_nsec);
    int fd = open(logf, O_WRONLY | O_CREAT | O_APPEND, 0644);
    if (fd >= 0) { if (write(fd, line, (size_t)n) < 0) {} close(fd); }
    if (logEnd) { g_endlog = logf; g_name = name; }
  }
  if (sleepMs > 0) { struct timespec ts = {sleepMs / 1000, (sleepMs % 1000) * 1000000L}; nanosleep(&ts, NULL); }
  hs(name); hs(salt);
  for (int i = 0; i < nenv; ++i) { hs(envs[i]); const char* e = getenv(envs[i]); hs(e ? e : "<unset>"); }
  for (int i = 0; i < nin; ++i) hfile(ins[i]);
  /* undeclared reads */
  char* reads[MAXA]; int nreads = 0;
  if (readsFile) {
    FILE* f = fopen(readsFile, "r");
    if (f) { char* line = NULL; size_t cap = 0; ssize_t n; while ((n = getline(&line, &cap, f)) > 0 && nreads < MAXA) { while (n > 0 && (line[n - 1] == '\n')) line[--n] = 0; if (n) reads[nreads++] = strdup(line); } free(line); fclose(f); }
  }
  for (int i = 0; i < nreads; ++i) hfile(reads[i]);
  /* failure directives */
  char fmode[64] = ""; long farg = 0;
  if (failFile) { FILE* f = fopen(failFile, "r"); if (f) { if (fscanf(f, "%63s %ld", fmode, &farg) < 1) fmode[0] = 0; fclose(f); } }
  if (!strcmp(fmode, "exit")) return finish((int)farg);
  if (!strcmp(fmode, "signal")) { kill(getpid(), (int)farg); pause(); }
  if (!strcmp(fmode, "missing-read")) return finish(3);
  for (int i = 0; i < nout; ++i) {
    if (restat) { char want[1200]; snprintf(want, sizeof want, "%016llx %s %d\n", (unsigned long long)H, name, i); if (same_content(outs[i], want)) continue; }
    char real[1300]; const char* target = outs[i];
    if (linkOuts) { snprintf(real, sizeof real, "%s.real", outs[i]); target = real; }
    FILE* f = fopen(target, "w");
    if (!f) { fprintf(stderr, "bscmd %s: cannot write %s: %s\n", name, target, strerror(errno)); return finish(4); }
    fprintf(f, "%016llx %s %d\n", (unsigned long long)H, name, i);
    if (fclose(f) != 0) return finish(4);
    if (linkOuts) {
      const char* base = strrchr(real, '/'); base = base ? base + 1 : real;
      unlink(outs[i]);
      if (symlink(base, outs[i]) != 0) { fprintf(stderr, "bscmd %s: cannot link %s: %s\n", name, outs[i], strerror(errno)); return finish(4); }
    }
  }
  for (int d = 0; d < ndep; ++d) {
    FILE* f = fopen(depOuts[d], "w");
    if (!f) return finish(5);
    int corrupt = depCorrupt && (depCorruptIndex < 0 || depCorruptIndex == d);
    int isInfo = !strcmp(depStyle, "depinfo");
    if (corrupt && !depCorruptMid && isInfo) {
      fputc(0x00, f); fputs("bscmd-1", f); fputc(0, f); fputc(0x10, f); fputs("/unterminated/input/record", f);   /* no NUL terminator */
    } else if (corrupt && !depCorruptMid) {
      fputs("target", f); for (int i = 0; i < nreads; ++i) { fputc(' ', f); fputs("dep", f); } fputc('\n', f);       /* no ':' after the rule name */
    } else if (isInfo) {
      fputc(0x00, f); fputs("bscmd-1", f); fputc(0, f);
      int k = 0;
      for (int i = 0; i < nreads; ++i) { if (i % ndep != d) continue; if (corrupt && k++ == 1) { fputc(0x10, f); fputc(0, f); }   /* record with an empty operand */
        int missing = access(reads[i], F_OK) != 0; fputc(missing ? 0x11 : 0x10, f); fputs(reads[i], f); fputc(0, f); }
      if (corrupt && k <= 1) { fputc(0x10, f); fputs("/unterminated", f); }
      else for (int i = 0; i < nout; ++i) { fputc(0x40, f); fputs(outs[i], f); fputc(0, f); }
    } else {
      fprintf(f, "%s:", nout ? "target" : "x");
      int k = 0;
      for (int i = 0; i < nreads; ++i) {
        if (i % ndep != d) continue;
        if (corrupt && k == 1) fputs(" $", f);   /* a lone '$' is not a Makefile word */
        fputs(k++ % 2 ? " \\\n  " : " ", f);
        for (const char* c = reads[i]; *c; ++c) { if (*c == ' ' || *c == '#' || *c == '\\') fputc('\\', f); if (*c == '$') fputc('$', f); fputc(*c, f); }
      }
      if (corrupt && k <= 1) fputs(" $ x", f);
      fputc('\n', f);
    }
    fclose(f);
  }
  if (!strcmp(fmode, "late-exit")) return finish((int)farg);
  return finish(0);
}
