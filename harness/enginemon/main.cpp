// enginemon: runs generated programs and histories against the real BuildEngine under the monitors of
// em_monitor.h. One process handles a range of case indices for one profile; every case is a pure function
// of (seed, index, profile, variant), so a witness is replayed by re-running exactly that case.
#include "em_front_cpp.h"
#ifdef EM_WITH_CAPI
#include "em_front_c.h"
#endif

#include <chrono>
#include <sys/stat.h>
#include <fcntl.h>
#include <dirent.h>

using namespace em;

struct Op {
  enum K { Set, Tamper, Build, Restart, RemoveOut } kind;
  int key = -1; std::string val; std::vector<int> bump;
  long cancelStep = -1;   // Build only: cancel from inside this step of the build
};

struct CaseSpec {
  uint64_t seed = 1, index = 0;
  std::string profile = "c01";
  bool capi = false;
  // variant: cancellation placement
  int cancelBuild = -1; long cancelStep = -1; int afterCancel = 0;  // 0 reset and reuse engine, 1 restart engine; 2/3 the same, but first the external inputs go back to what they were at the last successful build and the same key is built once more
  // variant: schedule
  int schedMode = -1;  // -1 per profile; 0 all S0; 1 all S1 random; 2 S1 with prefix; 3 S2
  std::vector<unsigned> prefix; uint64_t schedSeed = 0;
  bool restartEveryBuild = false, noRestarts = false;   // C03 differential
  bool verbose = false;
};

struct CaseResult {
  std::vector<Ctx::V> violations;
  std::vector<std::string> traces;      // canonical per-build traces (ordered)
  std::vector<std::string> tracesUnordered, tracesNoPrior;
  std::vector<long> stepsPerBuild;
  std::vector<std::pair<unsigned, unsigned>> choiceLog;
  unsigned long builds = 0, executed = 0, upToDate = 0, provides = 0, priors = 0, restarts = 0, cancelledBuilds = 0, cycleBuilds = 0, dbChecks = 0, interrupted = 0;
  unsigned long hookLoopTop = 0, hookBeforeWait = 0, hookCancelDrain = 0, deliveredAtHook = 0, syncCompletions = 0;
  bool nontrivial = false; uint64_t shapeHash = 0; std::string deliveryOrder;
  unsigned long threadCensus = 0;
  std::string programDesc, historyDesc;
};

static std::string gDbDir;
static std::atomic<bool> gBuildActive{false};
static std::string gCurrentCase;

static std::string specStr(const CaseSpec& s) {
  std::string o = "--profile " + s.profile + " --seed " + std::to_string(s.seed) + " --case " + std::to_string(s.index);
  if (s.cancelBuild >= 0) o += " --cancel-build " + std::to_string(s.cancelBuild) + " --cancel-step " + std::to_string(s.cancelStep) + " --after-cancel " + std::to_string(s.afterCancel);
  if (s.schedMode >= 0) o += " --sched " + std::to_string(s.schedMode);
  if (s.schedSeed) o += " --sched-seed " + std::to_string(s.schedSeed);
  if (!s.prefix.empty()) { o += " --prefix "; for (size_t i = 0; i < s.prefix.size(); ++i) o += (i ? "," : "") + std::to_string(s.prefix[i]); }
  if (s.restartEveryBuild) o += " --restart-every-build";
  if (s.noRestarts) o += " --no-restarts";
  if (s.capi) o += " --capi";
  return o;
}

static void emitViolation(const CaseSpec& s, const Ctx::V& v, const CaseResult* r) {
  printf("{\"viol\":%s,\"witness\":{\"detail\":%s,\"replay_args\":%s", vf::jstr(v.key).c_str(), vf::jstr(v.detail).c_str(), vf::jstr(specStr(s)).c_str());
  if (r) printf(",\"program\":%s,\"history\":%s", r->programDesc.c_str(), vf::jstr(r->historyDesc).c_str());
  printf("}}\n");
  fflush(stdout);
}

static GenOptions optionsFor(const std::string& profile, bool thorough) {
  GenOptions o;
  o.maxKeys = thorough ? 24 : 10;
  if (profile == "c03") { o.hostileNames = true; o.hostileValues = true; o.largeValues = thorough; }
  if (profile == "c07" || profile == "c07e") { o.allowCycles = true; o.discoverComputed = true; o.singleUse = false;   /* a single-use edge is deliberately forgotten by the engine, so "requires a cycle" is not well defined through it */ o.maxKeys = thorough ? 14 : 8; }
  if (profile == "c06") { o.maxKeys = 9; }
  if (profile == "c02") { o.modulusNum = 2; o.modulusDen = 3; o.oddModeWeight = 2; }   // identical recomputes, order-only and single-use edges are the point
  if (profile == "c20") { o.hostileNames = true; o.hostileValues = true; o.singleUse = false; }
  return o;
}

static std::vector<Op> genHistory(vf::Rng& r, const Program& p, const std::string& profile, bool thorough) {
  std::vector<Op> h;
  std::vector<int> inputs, computed, extouts;
  for (size_t i = 0; i < p.keys.size(); ++i) { (p.keys[i].isInput ? inputs : computed).push_back((int)i); if (p.keys[i].hasExtOut) extouts.push_back((int)i); }
  size_t len = 6 + r.below(thorough ? 34 : 14);
  auto pickBuild = [&]() { Op o; o.kind = Op::Build; o.key = r.chance(1, 8) ? r.pick(inputs) : (r.chance(1, 2) ? computed.back() : r.pick(computed)); return o; };
  h.push_back(pickBuild());
  bool sigs = profile != "c20";
  for (size_t i = 1; i < len; ++i) {
    unsigned x = (unsigned)r.below(100);
    if (x < 38) { Op o; o.kind = Op::Set; o.key = r.pick(inputs); o.val = std::to_string(r.below(4)); if (profile == "c03" && r.chance(1, 5)) { static const char* odd[] = {"", "\x00\x01", "\xff\xfe", "1.0", "01"}; unsigned w = (unsigned)r.below(5); o.val = w == 1 ? std::string("\x00\x01", 2) : std::string(odd[w]); } h.push_back(o); }
    else if (x < 43 && !extouts.empty()) { Op o; o.kind = r.chance(1, 3) ? Op::RemoveOut : Op::Tamper; o.key = r.pick(extouts); o.val = "tampered" + std::to_string(i); h.push_back(o); }
    else if (x < 88) { Op b = pickBuild(); if ((profile == "c03" || profile == "c01" || profile == "c02") && r.chance(1, 10)) b.cancelStep = 1 + (long)r.below(40); h.push_back(b); }
    else { Op o; o.kind = Op::Restart; if (sigs && r.chance(1, 3)) { size_t nb = 1 + r.below(2); for (size_t q = 0; q < nb; ++q) o.bump.push_back(r.pick(computed)); } h.push_back(o); }
  }
  if (h.back().kind != Op::Build) h.push_back(pickBuild());
  return h;
}

static std::string histStr(const std::vector<Op>& h) {
  std::string s;
  for (auto& o : h) {
    switch (o.kind) {
    case Op::Set: s += "set#" + std::to_string(o.key) + "=" + vf::hex(o.val) + " "; break;
    case Op::Tamper: s += "tamper#" + std::to_string(o.key) + " "; break;
    case Op::RemoveOut: s += "rmout#" + std::to_string(o.key) + " "; break;
    case Op::Build: s += "build#" + std::to_string(o.key) + (o.cancelStep >= 0 ? "!cancel@" + std::to_string(o.cancelStep) : "") + " "; break;
    case Op::Restart: s += "restart"; for (int b : o.bump) s += "^" + std::to_string(b); s += " "; break;
    }
  }
  return s;
}


// C07 enumeration: every directed graph on 3 keys with edges in {absent, static, dynamic, discovered-at-completion} (4096) and every directed graph on
// 4 keys with static edges (4096). Key 0 is an input that every computed key reads first (it is the trigger of dynamic edges).
static const uint64_t kEnumA = 4096, kEnumB = 4096;
static void enumProgram(uint64_t index, Program& p, std::vector<Op>& hist) {
  index %= (kEnumA + kEnumB);
  unsigned n; std::vector<int> edge;   // 0 absent, 1 static, 2 dynamic, 3 reported as a discovered dependency at completion; order: for i, for j != i
  if (index < kEnumA) { n = 3; uint64_t x = index; for (int e = 0; e < 6; ++e) { edge.push_back((int)(x % 4)); x /= 4; } }
  else { n = 4; uint64_t x = index - kEnumA; for (int e = 0; e < 12; ++e) { edge.push_back((int)(x & 1)); x >>= 1; } }
  p = Program();
  KeyDef in; in.name = "in"; in.isInput = true; p.keys.push_back(in);
  unsigned fire = (unsigned)(hashStr("0") % 2);
  size_t e = 0;
  for (unsigned i = 0; i < n; ++i) {
    KeyDef k; k.name = "k" + std::to_string(i); k.statics.push_back({0, Normal});
    std::vector<int> dynTargets;
    for (unsigned j = 0; j < n; ++j) { if (j == i) continue; int kind = edge[e++]; if (kind == 1) k.statics.push_back({(int)j + 1, Normal}); else if (kind == 2) dynTargets.push_back((int)j + 1); else if (kind == 3) k.discKeys.push_back((int)j + 1); }
    for (int tgt : dynTargets) { Dyn d; d.onInput = 0; d.pmod = 2; d.prem = fire; d.req = {tgt, Normal}; k.dyns.push_back(d); }
    p.keys.push_back(k);
  }
  hist.clear();
  auto buildAll = [&]() { for (unsigned i = 0; i < n; ++i) { Op o; o.kind = Op::Build; o.key = (int)i + 1; hist.push_back(o); } };
  buildAll();
  { Op o; o.kind = Op::Set; o.key = 0; o.val = "1"; hist.push_back(o); }
  buildAll();
  { Op o; o.kind = Op::Set; o.key = 0; o.val = "0"; hist.push_back(o); }
  { Op o; o.kind = Op::Build; o.key = (int)n; hist.push_back(o); }
}

// C05 template family (case index >= 1000000): a key R reads a leaf D directly and reports it as discovered while D is also a declared
// input of a sibling, so that D's task can be in flight for another consumer at the moment R completes; D was built (and stored)
// before R ever ran. Variants: who requests D (a sibling P or the root itself), request order, a second leaf.
static void c05Template(uint64_t v, Program& p, std::vector<Op>& hist) {
  p = Program();
  auto input = [&](const char* n) { KeyDef k; k.name = n; k.isInput = true; p.keys.push_back(k); return (int)p.keys.size() - 1; };
  int D = input("D"), X = input("X"), E = input("E");
  KeyDef R; R.name = "R"; R.statics.push_back({X, Normal}); R.leafCandidates = {D}; R.discoverCount = 1;
  if (v & 4) { R.leafCandidates.push_back(E); R.discoverCount = 2; }
  KeyDef P; P.name = "P"; P.statics.push_back({D, Normal});
  int iR, iP;
  if (v & 1) { p.keys.push_back(R); iR = (int)p.keys.size() - 1; p.keys.push_back(P); iP = (int)p.keys.size() - 1; }
  else { p.keys.push_back(P); iP = (int)p.keys.size() - 1; p.keys.push_back(R); iR = (int)p.keys.size() - 1; }
  KeyDef T; T.name = "T";
  if (v & 2) { T.statics.push_back({iP, Normal}); T.statics.push_back({iR, Normal}); }
  else { T.statics.push_back({iR, Normal}); T.statics.push_back({D, Normal}); T.statics.push_back({iP, Normal}); }
  p.keys.push_back(T); int iT = (int)p.keys.size() - 1;
  hist.clear();
  auto build = [&](int k) { Op o; o.kind = Op::Build; o.key = k; hist.push_back(o); };
  auto set = [&](int k, const char* val) { Op o; o.kind = Op::Set; o.key = k; o.val = val; hist.push_back(o); };
  build(iP);            // D and P are stored; R has never run
  set(D, "1");
  build(iT);            // R runs for the first time and discovers D, which is being recomputed for P (or T)
  set(X, "2");
  build(iT);
}

struct EngineBox {  // one engine instance (+ its front end)
  std::unique_ptr<EngineFront> front;
};

static std::unique_ptr<EngineFront> makeFront(Ctx& cx, bool capi) {
#ifdef EM_WITH_CAPI
  if (capi) return std::unique_ptr<EngineFront>(makeCFront(cx));
#endif
  (void)capi;
  return std::unique_ptr<EngineFront>(new CppFront(cx));
}

// Runs a from-scratch build of `target` with a brand-new engine (no DB, synchronous) on a copy of the world:
// the oracle of record for C01. Returns false when it disagrees with the reference evaluator.
static bool freshEngineOracle(const Program& prog, const World& world, int target, const std::vector<std::string>& evalOracle,
                              const std::vector<char>& evalCycle, std::string* why) {
  Ctx ox; ox.init(prog); ox.world = world; ox.monitorsOn = false; ox.sched = Sched::S0Sync; ox.tag = "oracle";
  {
    CppFront f(ox);
    Ctx* saved = gHookCtx.exchange(nullptr);
    ox.beginBuild(target);
    std::string res = f.build(prog.keys[target].name);
    ox.endBuild(res);
    gHookCtx = saved;
    bool cyc = ox.cycleReported;
    if (cyc != (bool)evalCycle[target]) { *why = "cycle verdicts differ: fresh engine " + std::to_string(cyc) + " evaluator " + std::to_string((int)evalCycle[target]); return false; }
    if (!cyc) {
      if (res != evalOracle[target]) { *why = "result of #" + std::to_string(target) + " fresh=" + vf::hex(res.substr(0, 32)) + " evaluator=" + vf::hex(evalOracle[target].substr(0, 32)); return false; }
      for (size_t k = 0; k < prog.keys.size(); ++k)
        if (ox.shadow[k].has && ox.shadow[k].value != evalOracle[k]) { *why = "value of #" + std::to_string(k) + " differs"; return false; }
    }
  }
  return true;
}

static void checkDB(Ctx& cx, const std::string& path, uint32_t clientVersion, CaseResult& res) {
  ++res.dbChecks;
  std::string err;
  std::unique_ptr<BuildDB> db = createSQLiteBuildDB(path, clientVersion, /*recreate=*/false, &err);
  DBReader rd;
  if (!db) { cx.viol("M-db: cannot create a reader for the database", err); return; }
  db->attachDelegate(&rd);
  bool ok = true;
  Epoch ep = db->getCurrentEpoch(&ok, &err);
  if (!ok) { cx.viol("M-db: database written by the build cannot be opened by a fresh reader", err); return; }
  std::vector<KeyType> keys; std::vector<Result> results;
  if (!db->getKeysWithResult(keys, results, &err)) { cx.viol("M-db: getKeysWithResult failed", err); return; }
  std::map<std::string, size_t> byName;
  for (size_t i = 0; i < keys.size(); ++i) {
    if (byName.count(keys[i].str())) cx.viol("M-db: the same key appears twice in the database", vf::hex(keys[i].str().substr(0, 40)));
    byName[keys[i].str()] = i;
  }
  for (size_t k = 0; k < cx.prog->keys.size(); ++k) {
    const Shadow& s = cx.shadow[k];
    auto it = byName.find(cx.kname((int)k));
    if (!s.has) { if (it != byName.end()) cx.viol("M-db: database holds a result for a key whose task never completed in this lineage", cx.kdesc((int)k)); continue; }
    if (it == byName.end()) { cx.viol("M-db: stored result missing from the database (key not found under its exact bytes)", cx.kdesc((int)k) + " name=" + vf::hex(cx.kname((int)k).substr(0, 40))); continue; }
    const Result& r = results[it->second];
    if (toStr(r.value) != s.value) cx.viol("M-db: stored value differs from the value the task produced", cx.kdesc((int)k));
    if (r.signature.value != s.sig) cx.viol("M-db: stored signature differs", cx.kdesc((int)k));
    if (r.builtAt != 0 && r.builtAt < r.computedAt) cx.viol("M-db: built_at < computed_at", cx.kdesc((int)k));   // built_at == 0 marks a record the engine invalidated
    if (ep < r.computedAt) cx.viol("M-db: stored epoch smaller than a result's computed_at", cx.kdesc((int)k));
    if (ep < r.builtAt) cx.viol("M-db: stored epoch smaller than a result's built_at", cx.kdesc((int)k));
    std::vector<DepRec> got;
    for (auto d : r.dependencies) { int dk = cx.prog->find(rd.nameOf(d.keyID)); got.push_back({dk, d.orderOnly, d.singleUse}); }
    if (!(got == s.deps)) {
      std::string a, b;
      for (auto& d : got) a += std::to_string(d.key) + (d.orderOnly ? "o" : "") + (d.singleUse ? "s" : "") + " ";
      for (auto& d : s.deps) b += std::to_string(d.key) + (d.orderOnly ? "o" : "") + (d.singleUse ? "s" : "") + " ";
      cx.viol("M-db: stored dependency list differs from the requests of the accepted execution (order or flags)", cx.kdesc((int)k) + " db=[" + a + "] observed=[" + b + "]");
    }
  }
  for (auto& kv : byName) if (cx.prog->find(kv.first) < 0) cx.viol("M-db: database holds a key that is not a key of the program (aliased or corrupted spelling)", vf::hex(kv.first.substr(0, 40)));
}

static CaseResult runCase(const CaseSpec& spec, bool thorough) {
  CaseResult res;
  vf::Rng r(spec.seed * 1000003ull + spec.index * 7919ull + vf::fnv(spec.profile));
  GenOptions go = optionsFor(spec.profile, thorough);
  if (spec.capi) { go.singleUse = false; }
  if (spec.schedMode == 3) go.maxKeys = 16;   // threaded runs: larger programs, rules registered progressively while workers report
  bool tiny = spec.profile == "c06" && spec.schedMode != 3 && (spec.index % 2) == 0;
  if (tiny) { go.maxKeys = 5; go.minKeys = 3; }
  Program prog = generate(r, go);
  std::vector<Op> hist = genHistory(r, prog, spec.profile, thorough);
  if (tiny) { size_t nb = 0, cut = hist.size(); for (size_t i = 0; i < hist.size(); ++i) if (hist[i].kind == Op::Build && ++nb == 3) { cut = i + 1; break; } hist.resize(cut); }
  bool useDB = r.chance(1, 2) || spec.profile == "c03" || spec.profile == "c04";
  if (spec.profile == "c07e") { enumProgram(spec.index, prog, hist); useDB = (spec.index & 1) != 0; }
  if (spec.profile == "c05" && spec.index >= 1000000) { c05Template(spec.index - 1000000, prog, hist); useDB = true; }
  uint32_t clientVersion = 1 + (uint32_t)r.below(5);
  vf::Rng sr(spec.schedSeed ? spec.schedSeed : r.next());
  res.programDesc = describe(prog); res.historyDesc = histStr(hist) + (useDB ? "[db]" : "[nodb]");
  if (getenv("EM_TRACE")) fprintf(stderr, "program %s\nhistory %s\n", res.programDesc.c_str(), res.historyDesc.c_str());
  res.shapeHash = vf::fnv(res.programDesc + res.historyDesc);
  std::string dbPath = gDbDir + "/em-" + std::to_string(getpid()) + ".db";
  unlink(dbPath.c_str()); unlink((dbPath + "-journal").c_str());

  Ctx cx; cx.init(prog); cx.tag = specStr(spec);
  cx.capiVocabulary = spec.capi;
  cx.resolveCycles = (spec.profile == "c07" || spec.profile == "c07e") && r.chance(1, 4);
  cx.fatal = [&](const char* why) {
    for (auto& v : cx.violations) emitViolation(spec, v, &res);
    printf("{\"stalled_case\":%llu,\"why\":\"%s\"}\n", (unsigned long long)spec.index, why);
    fflush(stdout); _exit(3);
  };
  std::unique_ptr<Pool> pool;
  if (spec.schedMode == 2) { cx.chooser = Chooser(); cx.chooser.prefix = spec.prefix; cx.chooser.random = false; }
  if (spec.schedMode == 3) { pool.reset(new Pool(2 + (unsigned)sr.below(7))); cx.pool = pool.get(); cx.useEngineQueue = !spec.capi && sr.chance(1, 2); }
  std::unique_ptr<EngineFront> front;
  auto newEngine = [&]() {
    front.reset();
    front = makeFront(cx, spec.capi);
    if (cx.useEngineQueue) front->useLaneQueue();
    if (useDB) { std::string err; if (!front->attachDB(dbPath, clientVersion, true, &err)) cx.viol("harness: attachDB failed", err); cx.engineRestartedOnDB(); }
    else cx.forgetEngineState();
    cx.cancelFn = [&]() { front->cancel(); };
  };
  newEngine();
  int buildIdx = -1; bool mutatedSince = false, anyMutation = false;
  std::vector<std::string> lastGoodExt; bool haveLastGood = false; int revertInsertedAt = -1;
  bool dbChecks = useDB && (spec.profile == "c03" || spec.profile == "c05" || spec.profile == "c20" || spec.profile == "c04");

  for (size_t oi = 0; oi < hist.size(); ++oi) {
    const Op& op = hist[oi];
    switch (op.kind) {
    case Op::Set: if (cx.world.ext[op.key] != op.val) { mutatedSince = true; anyMutation = true; } cx.world.ext[op.key] = op.val; break;
    case Op::Tamper: cx.world.out[op.key] = op.val; cx.world.outPresent[op.key] = 1; anyMutation = true; break;
    case Op::RemoveOut: cx.world.outPresent[op.key] = 0; anyMutation = true; break;
    case Op::Restart:
      if (spec.noRestarts || spec.restartEveryBuild) break;
      for (int b : op.bump) const_cast<KeyDef&>(prog.keys[b]).sigVersion++;
      newEngine(); ++res.restarts; break;
    case Op::Build: {
      ++buildIdx;
      if (spec.restartEveryBuild && buildIdx > 0) { newEngine(); ++res.restarts; }
      // schedule for this build
      int sm = spec.schedMode;
      if (sm < 0) sm = (spec.profile == "c06" || spec.profile == "c05") ? 1 : (sr.chance(2, 5) ? 1 : 0);
      cx.sched = sm == 0 ? Sched::S0Sync : sm == 3 ? Sched::S2Threads : Sched::S1Deferred;
      if (sm != 2) { cx.chooser = Chooser(); cx.chooser.random = true; cx.chooser.rng = vf::Rng(sr.next()); }
      cx.cancelAtStep = (spec.cancelBuild == buildIdx && sm != 3) ? spec.cancelStep : op.cancelStep;
      gHookCtx = &cx; gBuildActive = true;
      size_t execBefore = cx.nExecuted, utdBefore = cx.nUpToDate;
      size_t threadsBefore = 0;   // runtime threads (sanitizer background thread, watchdog, harness pool) exist before the build
      if (DIR* d0 = opendir("/proc/self/task")) { while (auto* e = readdir(d0)) if (e->d_name[0] != '.') ++threadsBefore; closedir(d0); }
      cx.beginBuild(op.key);
      std::thread canceller;
      if (sm == 3 && spec.cancelBuild == buildIdx) {   // foreign-thread cancellation at a random moment
        unsigned us = (unsigned)sr.below(spec.cancelStep > 0 ? (uint64_t)spec.cancelStep : 300);
        EngineFront* f = front.get(); Ctx* c = &cx;
        canceller = std::thread([=]() { usleep(us); f->cancel(); c->cancelIssuedAtomic = true; });
      }
      std::string result = front->build(prog.keys[op.key].name);
      if (canceller.joinable()) canceller.join();
      if (sm == 3 && cx.monitorsOn) {
        // thread census at quiescence: main + watchdog + the harness pool; the engine's execution queue must be gone with all its lanes
        size_t expect = threadsBefore, seen = 0;
        for (int tries = 0; tries < 50; ++tries) {
          seen = 0;
          if (DIR* d = opendir("/proc/self/task")) { while (auto* e = readdir(d)) if (e->d_name[0] != '.') ++seen; closedir(d); }
          if (seen <= expect) break;
          usleep(2000);
        }
        res.threadCensus++;
        if (seen > expect) cx.viol("M-cancel: threads are still running after build() returned (execution queue lanes or workers left behind)", "threads=" + std::to_string(seen) + " expected<=" + std::to_string(expect));
      }
      cx.endBuild(result);
      gBuildActive = false; gHookCtx = nullptr;
      ++res.builds; res.stepsPerBuild.push_back(cx.step);
      const BuildTrace& tr = cx.traces.back();
      res.traces.push_back(tr.canon(true)); res.tracesUnordered.push_back(tr.canon(false)); res.tracesNoPrior.push_back(tr.canon(true, false));
      if (tr.cancelled) ++res.cancelledBuilds;
      if (tr.cycle) ++res.cycleBuilds;
      if (anyMutation && cx.nExecuted > execBefore && cx.nUpToDate > utdBefore) res.nontrivial = true;
      (void)mutatedSince; mutatedSince = false;
      if (spec.verbose) fprintf(stderr, "build %d: %s\n", buildIdx, tr.canon(true).c_str());
      // oracle of record
      if (tr.success || tr.cycle) {
        std::string why;
        if (!freshEngineOracle(prog, cx.world, op.key, cx.oracle, cx.oracleCycle, &why)) cx.viol("M-value: a brand-new engine disagrees with the reference evaluator for the current state", why);
      }
      if (dbChecks) checkDB(cx, dbPath, clientVersion, res);
      bool wasCancelled = tr.cancelled; int builtKey = op.key;
      if (tr.success) { lastGoodExt = cx.world.ext; haveLastGood = true; }
      if (cx.cancelIssued || tr.cancelled || !cx.errors.empty()) {
        if ((spec.afterCancel & 1) || !front->supportsReset()) { newEngine(); ++res.restarts; } else front->reset();
      }
      if (wasCancelled && spec.afterCancel >= 2 && haveLastGood && (int)oi != revertInsertedAt) {
        // A-B-A around the cancellation: whatever the cancelled build accepted from the intermediate state must not survive
        std::vector<Op> extra;
        for (size_t k = 0; k < prog.keys.size(); ++k)
          if (prog.keys[k].isInput && cx.world.ext[k] != lastGoodExt[k]) { Op o; o.kind = Op::Set; o.key = (int)k; o.val = lastGoodExt[k]; extra.push_back(o); }
        { Op o; o.kind = Op::Build; o.key = builtKey; extra.push_back(o); }
        hist.insert(hist.begin() + oi + 1, extra.begin(), extra.end());   // `op` is dead from here on
        revertInsertedAt = (int)oi;
      }
      break; }
    }
    if (!cx.violations.empty()) break;   // first violating step is the witness; later ones are consequences
  }
  front.reset();
  if (spec.schedMode == 2) res.choiceLog = cx.chooser.log;
  pool.reset();
  unlink(dbPath.c_str()); unlink((dbPath + "-journal").c_str());
  res.violations = cx.violations;
  res.executed = cx.nExecuted; res.upToDate = cx.nUpToDate; res.provides = cx.nProvide; res.priors = cx.nPrior; res.interrupted = cx.nInterrupted;
  res.hookLoopTop = cx.hookLoopTop; res.hookBeforeWait = cx.hookBeforeWait; res.hookCancelDrain = cx.hookCancelDrain; res.deliveredAtHook = cx.deliveredAtHook; res.syncCompletions = cx.syncCompletions;
  res.deliveryOrder = cx.deliveryOrder;
  return res;
}

struct Totals {
  unsigned long cases = 0, runs = 0, builds = 0, executed = 0, upToDate = 0, provides = 0, priors = 0, restarts = 0, cancelled = 0, cycles = 0, dbChecks = 0, interrupted = 0, nontrivial = 0, violations = 0;
  unsigned long hookLoopTop = 0, hookBeforeWait = 0, hookCancelDrain = 0, deliveredAtHook = 0, syncCompletions = 0, schedules = 0, exhaustivePrograms = 0, cancelPoints = 0, diffCompared = 0;
  std::set<uint64_t> shapes, orders;
  std::string sample;
  void add(const CaseResult& r) {
    ++runs; builds += r.builds; executed += r.executed; upToDate += r.upToDate; provides += r.provides; priors += r.priors; restarts += r.restarts; cancelled += r.cancelledBuilds; cycles += r.cycleBuilds;
    dbChecks += r.dbChecks; interrupted += r.interrupted; hookLoopTop += r.hookLoopTop; hookBeforeWait += r.hookBeforeWait; hookCancelDrain += r.hookCancelDrain; deliveredAtHook += r.deliveredAtHook; syncCompletions += r.syncCompletions;
    if (r.nontrivial && shapes.insert(r.shapeHash).second) ++nontrivial;
    orders.insert(vf::fnv(r.deliveryOrder, r.shapeHash));
  }
};

static void report(const CaseSpec& s, const CaseResult& r, Totals& t) {
  for (auto& v : r.violations) { emitViolation(s, v, &r); ++t.violations; }
}


// ------------------------------------------------------------------------------------------------ C03: versions and locking
#include <sqlite3.h>
static std::string fileBytes(const std::string& p) {
  std::string o; FILE* f = fopen(p.c_str(), "rb"); if (!f) return "<absent>"; char b[65536]; size_t n; while ((n = fread(b, 1, sizeof b, f)) > 0) o.append(b, n); fclose(f); return o;
}
static std::string dumpDB(const std::string& path, uint32_t cv) {
  std::string err; std::unique_ptr<BuildDB> db = createSQLiteBuildDB(path, cv, false, &err); DBReader rd; db->attachDelegate(&rd);
  bool ok = true; Epoch ep = db->getCurrentEpoch(&ok, &err); if (!ok) return "ERR:" + err;
  std::vector<KeyType> keys; std::vector<Result> res; if (!db->getKeysWithResult(keys, res, &err)) return "ERR:" + err;
  std::vector<std::string> rows;
  for (size_t i = 0; i < keys.size(); ++i) { std::string r = vf::hex(keys[i].str()) + "=" + vf::hex(toStr(res[i].value)) + "@" + std::to_string(res[i].builtAt) + "," + std::to_string(res[i].computedAt) + "[";
    for (auto d : res[i].dependencies) r += vf::hex(rd.nameOf(d.keyID)) + (d.orderOnly ? "o" : "") + (d.singleUse ? "s" : "") + ","; rows.push_back(r + "]"); }
  std::sort(rows.begin(), rows.end());
  std::string o = "epoch=" + std::to_string(ep) + ";"; for (auto& r : rows) o += r + ";"; return o;
}

// One version scenario: write a database under (schema, client A); reopen under client B and/or a rewritten schema number.
static CaseResult runVersionCase(const CaseSpec& spec, Totals& t) {
  CaseResult res;
  vf::Rng r(spec.seed * 7777ull + spec.index);
  GenOptions go; go.maxKeys = 6; Program prog = generate(r, go);
  res.programDesc = describe(prog);
  std::string dbPath = gDbDir + "/ver-" + std::to_string(getpid()) + ".db"; unlink(dbPath.c_str());
  static const uint32_t clients[] = {0, 1, 2, 7, 255, 0x7fffffff};
  uint32_t ca = clients[spec.index % 6], cb = clients[(spec.index / 6) % 6];
  int schemaRewrite = (int)((spec.index / 36) % 4);   // 0 none, 1 -> older (17), 2 -> newer (+1), 3 -> garbage (-5)
  bool recreate = ((spec.index / 144) % 2) == 0;
  int target = (int)prog.keys.size() - 1;
  Ctx cx; cx.init(prog); cx.tag = specStr(spec);
  std::vector<std::string> firstValues;
  { // write
    CppFront f(cx); std::string err; if (!f.attachDB(dbPath, ca, true, &err)) cx.viol("versions: cannot create database", err);
    gHookCtx = &cx; cx.beginBuild(target); std::string v = f.build(prog.keys[target].name); cx.endBuild(v); gHookCtx = nullptr;
  }
  int storedSchema = -1;
  { sqlite3* db = nullptr; sqlite3_open(dbPath.c_str(), &db); sqlite3_stmt* st = nullptr;
    if (sqlite3_prepare_v2(db, "SELECT version FROM info", -1, &st, nullptr) == SQLITE_OK && sqlite3_step(st) == SQLITE_ROW) storedSchema = sqlite3_column_int(st, 0);
    sqlite3_finalize(st);
    if (schemaRewrite) { int nv = schemaRewrite == 1 ? storedSchema - 1 : schemaRewrite == 2 ? storedSchema + 1 : -5; std::string q = "UPDATE info SET version = " + std::to_string(nv); char* e = nullptr; sqlite3_exec(db, q.c_str(), nullptr, nullptr, &e); }
    sqlite3_close(db); }
  bool mismatch = (ca != cb) || schemaRewrite != 0;
  std::string before = fileBytes(dbPath);
  size_t executedBefore = cx.nExecuted;
  { // reopen
    std::string err;
    CppFront f(cx);
    bool ok = f.attachDB(dbPath, cb, recreate, &err);
    if (mismatch && !recreate) {
      if (ok) cx.viol("versions: database written under a different schema/client version was attached without error although recreation was not allowed", "clientA=" + std::to_string(ca) + " clientB=" + std::to_string(cb) + " schemaRewrite=" + std::to_string(schemaRewrite));
      if (fileBytes(dbPath) != before) cx.viol("versions: rejected database file was modified", "");
    } else {
      if (!ok) cx.viol("versions: attach failed", err + " clientA=" + std::to_string(ca) + " clientB=" + std::to_string(cb) + " schemaRewrite=" + std::to_string(schemaRewrite));
      else {
        if (mismatch) cx.forgetEngineState();   // nothing stored under the other version may be interpreted: the monitors now treat every key as never built
        else cx.engineRestartedOnDB();
        gHookCtx = &cx; cx.beginBuild(target); std::string v = f.build(prog.keys[target].name); cx.endBuild(v); gHookCtx = nullptr;
        if (mismatch && cx.nPrior) cx.viol("versions: a result stored under a different version was handed to a task as prior value", "");
        if (!mismatch && cx.nExecuted != executedBefore) cx.viol("versions: matching versions but stored results were not reused", "");
      }
    }
  }
  res.builds = 2; res.violations = cx.violations; res.executed = cx.nExecuted; res.upToDate = cx.nUpToDate; res.nontrivial = mismatch;
  res.shapeHash = vf::fnv(std::to_string(ca) + "/" + std::to_string(cb) + "/" + std::to_string(schemaRewrite) + "/" + std::to_string(recreate));
  res.historyDesc = "clientA=" + std::to_string(ca) + " clientB=" + std::to_string(cb) + " storedSchema=" + std::to_string(storedSchema) + " schemaRewrite=" + std::to_string(schemaRewrite) + " recreate=" + std::to_string(recreate);
  unlink(dbPath.c_str());
  (void)t;
  return res;
}

// Lock contest: engine A is inside build() (transaction open, task parked); engine B tries to build on the same file.
static CaseResult runLockCase(const CaseSpec& spec) {
  CaseResult res;
  vf::Rng r(spec.seed * 991ull + spec.index);
  GenOptions go; go.maxKeys = 6; Program prog = generate(r, go);
  res.programDesc = describe(prog);
  std::string dbPath = gDbDir + "/lock-" + std::to_string(getpid()) + ".db"; unlink(dbPath.c_str());
  int target = (int)prog.keys.size() - 1;
  bool attachFirst = spec.index % 2 == 0;
  // reference: A alone
  std::string refDump;
  { Ctx c0; c0.init(prog); CppFront f(c0); std::string err; f.attachDB(dbPath, 1, true, &err); gHookCtx = &c0; c0.beginBuild(target); std::string v = f.build(prog.keys[target].name); c0.endBuild(v); gHookCtx = nullptr; }
  refDump = dumpDB(dbPath, 1); unlink(dbPath.c_str());
  Ctx ca; ca.init(prog); ca.sched = Sched::S1Deferred; ca.chooser.random = true; ca.chooser.rng = vf::Rng(5); ca.tag = specStr(spec);
  Ctx cb; cb.init(prog); cb.tag = "engine-B";
  // B changes an input so that, if it could write, the file would differ
  std::unique_ptr<CppFront> fb;
  bool contested = false; std::string bResult = "<not run>"; bool bAttachOk = true; std::string bErr;
  CppFront fa(ca); std::string err; if (!fa.attachDB(dbPath, 1, true, &err)) ca.viol("lock: attach A failed", err);
  if (attachFirst) { fb.reset(new CppFront(cb)); bAttachOk = fb->attachDB(dbPath, 1, true, &bErr); if (!bAttachOk) cb.viol("lock: attach B before the contest failed", bErr); }
  struct Hooked { Ctx* a; std::function<void()> contest; bool done = false; } hk{&ca, nullptr};
  hk.contest = [&]() {
    contested = true;
    Ctx* saved = gHookCtx.exchange(&cb);
    for (size_t i = 0; i < prog.keys.size(); ++i) if (prog.keys[i].isInput) cb.world.ext[i] = "9";
    if (!attachFirst) { fb.reset(new CppFront(cb)); bAttachOk = fb->attachDB(dbPath, 1, true, &bErr); }
    if (bAttachOk) { cb.monitorsOn = false; cb.beginBuild(target); bResult = fb->build(prog.keys[target].name); cb.endBuild(bResult); }
    gHookCtx = saved;
  };
  // wrap A's hook: first BeforeWait triggers the contest
  static Hooked* gH; gH = &hk;
  verif::setEngineHook([](void*, BuildEngine&, verif::EnginePoint p) {
    if (Ctx* c = gHookCtx.load()) { if (gH && c == gH->a && p == verif::EnginePoint::BeforeWait && !gH->done) { gH->done = true; gH->contest(); } c->onHook((int)p); }
  }, nullptr);
  // make sure at least one task parks: force deferred completion for all
  ca.chooser.prefix.assign(64, 1); ca.chooser.random = false;
  gHookCtx = &ca; ca.beginBuild(target); std::string va = fa.build(prog.keys[target].name); ca.endBuild(va); gHookCtx = nullptr;
  installHook(); gH = nullptr;
  res.violations = ca.violations; for (auto& v : cb.violations) res.violations.push_back(v);
  if (contested) {
    if (attachFirst || bAttachOk) {
      if (bAttachOk && !bResult.empty() && bResult != "<not run>") res.violations.push_back({"lock: a second engine completed a build on a database while another build held it", "B result=" + vf::hex(bResult.substr(0, 32))});
      if (bAttachOk && cb.errors.empty()) res.violations.push_back({"lock: a second engine's build on a held database reported no error", ""});
    }
    std::string after = dumpDB(dbPath, 1);
    if (after != refDump) res.violations.push_back({"lock: database content after a contested build differs from an uncontested run", "ref=" + refDump.substr(0, 300) + " got=" + after.substr(0, 300)});
  }
  // the refused engine tries again now that the other build has released the database: it must get its build
  // (only an engine that had not seen the database before the contest: one that attached earlier holds state from before the other
  // engine's build, and interleaving two live engines is outside the property)
  if (contested && !attachFirst && fb && bAttachOk && !cb.errors.empty() && res.violations.empty()) {
    std::string firstErr = cb.errors[0];
    cb.errors.clear(); if (fb->supportsReset()) fb->reset();
    gHookCtx = &cb; cb.monitorsOn = false; cb.beginBuild(target); std::string v2 = fb->build(prog.keys[target].name); cb.endBuild(v2); gHookCtx = nullptr;
    if (v2.empty()) res.violations.push_back({"lock: a build retried after the other build had released the database failed", "first refusal: " + firstErr.substr(0, 100) + " retry: " + (cb.errors.empty() ? "" : cb.errors[0].substr(0, 100))});
    else if (cb.oracleValid && !cb.oracleCycle[target] && v2 != cb.oracle[target]) res.violations.push_back({"lock: a build retried after the other build had released the database returned a wrong value", ""});
  }
  res.builds = 3; res.nontrivial = contested; res.shapeHash = vf::fnv(res.programDesc) + attachFirst;
  res.historyDesc = std::string("contested=") + (contested ? "1" : "0") + " attachFirst=" + (attachFirst ? "1" : "0") + " B.attach=" + (bAttachOk ? "ok" : "err:" + bErr.substr(0, 80)) + " B.errors=" + (cb.errors.empty() ? "" : cb.errors[0].substr(0, 120));
  fb.reset();
  unlink(dbPath.c_str());
  return res;
}

int main(int argc, char** argv) {
  vf::Args a(argc, argv);
  CaseSpec base; base.seed = a.u("seed", 1); base.profile = a.s("profile", "c01"); base.capi = a.has("capi");
  bool thorough = a.has("thorough");
  uint64_t from = a.u("from", 0), count = a.u("count", 100);
  gDbDir = a.s("dbdir", "/tmp");
  mkdir(gDbDir.c_str(), 0755);
  installHook();
  // watchdog: a build that makes no progress for 20 s is a hang (lost wake-up / deadlock)
  std::thread([&]() {
    unsigned long last = 0; int idle = 0;
    for (;;) { sleep(1); unsigned long p = gEvents.load(); if (gBuildActive && p == last) { if (++idle >= 20) { printf("{\"viol\":\"hang: build made no progress for 20 s after a completion was delivered (lost wake-up or deadlock)\",\"witness\":{\"replay_args\":%s}}\n", vf::jstr(gCurrentCase).c_str()); fflush(stdout); _exit(4); } } else idle = 0; last = p; }
  }).detach();

  Totals t;
  if (a.has("case")) {   // replay exactly one case
    CaseSpec s = base; s.index = a.u("case", 0); s.verbose = true;
    s.cancelBuild = a.has("cancel-build") ? (int)a.u("cancel-build", 0) : -1; s.cancelStep = (long)a.u("cancel-step", 0); s.afterCancel = (int)a.u("after-cancel", 0);
    s.schedMode = a.has("sched") ? (int)a.u("sched", 0) : -1; s.schedSeed = a.u("sched-seed", 0);
    s.restartEveryBuild = a.has("restart-every-build"); s.noRestarts = a.has("no-restarts");
    if (a.has("prefix")) { std::string p = a.s("prefix"); size_t pos = 0; while (pos < p.size()) { s.prefix.push_back((unsigned)strtoul(p.c_str() + pos, 0, 10)); pos = p.find(',', pos); if (pos == std::string::npos) break; ++pos; } }
    gCurrentCase = specStr(s);
    CaseResult r = runCase(s, thorough);
    fprintf(stderr, "program: %s\nhistory: %s\n", r.programDesc.c_str(), r.historyDesc.c_str());
    t.add(r); ++t.cases; report(s, r, t);
    printf("{\"summary\":{\"cases\":1,\"violations\":%lu}}\n", t.violations);
    return 0;
  }
  uint64_t maxSchedules = a.u("max-schedules", thorough ? 2000 : 200);
  uint64_t cancelPointsPerBuild = a.u("cancel-points", thorough ? 1000000 : 4);
  for (uint64_t i = from; i < from + count; ++i) {
    CaseSpec s = base; s.index = i;
    gCurrentCase = specStr(s);
    fprintf(stderr, "@case %llu\n", (unsigned long long)i);
    ++t.cases;
    auto sampleFrom = [&](const CaseResult& r) {
      if (t.sample.empty() && r.nontrivial) t.sample = "{\"program\":" + r.programDesc + ",\"history\":" + vf::jstr(r.historyDesc) + ",\"last_build\":" + vf::jstr(r.traces.empty() ? "" : r.traces.back()) + "}";
    };
    if (base.profile == "c01" || base.profile == "c02" || base.profile == "c07" || base.profile == "c07e") {
      CaseResult r = runCase(s, thorough); t.add(r); report(s, r, t); sampleFrom(r);
      if (base.profile == "c07" || base.profile == "c07e") {   // the same case under the other schedules
        for (int sm = 0; sm < 2; ++sm) { CaseSpec s2 = s; s2.schedMode = sm; s2.schedSeed = 77 + sm; gCurrentCase = specStr(s2); CaseResult r2 = runCase(s2, thorough); t.add(r2); report(s2, r2, t); }
      }
    } else if (base.profile == "c03" || base.profile == "c20") {
      // differential: one engine for the whole history vs. an engine + database restart before every build
      CaseSpec sa = s, sb = s; sa.noRestarts = true; sa.schedMode = 0; sb.restartEveryBuild = true; sb.schedMode = 0;
      if (base.profile == "c20") { sa = s; sa.schedMode = 0; sa.capi = false; sb = sa; sb.capi = true; }
      gCurrentCase = specStr(sa); CaseResult ra = runCase(sa, thorough); t.add(ra); report(sa, ra, t); sampleFrom(ra);
      gCurrentCase = specStr(sb); CaseResult rb = runCase(sb, thorough); t.add(rb); report(sb, rb, t);
      if (ra.violations.empty() && rb.violations.empty()) {
        ++t.diffCompared;
        size_t n = std::min(ra.traces.size(), rb.traces.size());
        if (ra.traces.size() != rb.traces.size()) { Ctx::V v{"differential: the two executions performed a different number of builds", ""}; emitViolation(sb, v, &rb); ++t.violations; }
        for (size_t b = 0; b < n; ++b) {
          // after a cancelled build the two executions legitimately differ in what they re-run (one engine still knows which tasks were
          // interrupted, a restarted one only sees the database): from there on only the monitors of each run judge
          if (ra.traces[b].find(" cancelled ") != std::string::npos || rb.traces[b].find(" cancelled ") != std::string::npos) break;
          const std::string& x = base.profile == "c20" ? ra.tracesNoPrior[b] : ra.traces[b];
          const std::string& y = base.profile == "c20" ? rb.tracesNoPrior[b] : rb.traces[b];
          if (x != y) {
            Ctx::V v{base.profile == "c20" ? "differential: a client of the C interface observed different callbacks, executions or results than a client of the C++ interface"
                                           : "differential: a history split across engine+database restarts performed different executions or returned different results than the same history in one engine",
                     "build " + std::to_string(b) + " A=" + x.substr(0, 600) + " B=" + y.substr(0, 600)};
            emitViolation(sb, v, &rb); ++t.violations; break;
          }
        }
      }
    } else if (base.profile == "c03v") {
      CaseResult r = runVersionCase(s, t); t.add(r); report(s, r, t);
      if (t.sample.empty()) t.sample = vf::jstr(r.historyDesc);
    } else if (base.profile == "c03l") {
      CaseResult r = runLockCase(s); t.add(r); report(s, r, t);
      if (t.sample.empty()) t.sample = vf::jstr(r.historyDesc);
    } else if (base.profile == "c05") {
      // base run without cancellation gives the number of steps of every build; then cancel at chosen steps
      CaseSpec sbase = s; sbase.schedMode = 1; sbase.schedSeed = 1000 + i;
      gCurrentCase = specStr(sbase); CaseResult rbse = runCase(sbase, thorough); t.add(rbse); report(sbase, rbse, t); sampleFrom(rbse);
      if (!rbse.violations.empty()) continue;
      vf::Rng pr(base.seed * 31 + i);
      for (size_t b = 0; b < rbse.stepsPerBuild.size(); ++b) {
        long L = rbse.stepsPerBuild[b];
        std::vector<long> points;
        if ((uint64_t)L <= cancelPointsPerBuild) for (long q = 0; q < L; ++q) points.push_back(q);
        else for (uint64_t q = 0; q < cancelPointsPerBuild; ++q) points.push_back((long)pr.below(L));
        for (long stp : points) {
          for (int ac = 0; ac < 4; ++ac) {
            if (!thorough && sbase.index < 1000000 && (int)((stp + b) & 3) != ac) continue;   // quick: rotate through the four continuations (the template family gets all four)
            CaseSpec sc = sbase; sc.cancelBuild = (int)b; sc.cancelStep = stp; sc.afterCancel = ac;
            gCurrentCase = specStr(sc); CaseResult rc = runCase(sc, thorough); t.add(rc); report(sc, rc, t); ++t.cancelPoints;
          }
        }
      }
    } else if (base.profile == "c05t" || base.profile == "c06t") {
      // threaded schedule (run on the tsan flavor): racing completions, discovery, and (c05t) foreign-thread cancellation
      CaseSpec st = s; st.profile = base.profile == "c05t" ? "c05" : "c06"; st.schedMode = 3;
      vf::Rng pr(base.seed * 131 + i);
      if (base.profile == "c05t" || pr.chance(1, 4)) { st.cancelBuild = (int)pr.below(4); st.cancelStep = 50 + (long)pr.below(2000); st.afterCancel = (int)pr.below(4); }
      gCurrentCase = specStr(st); CaseResult r = runCase(st, thorough); t.add(r); report(st, r, t); sampleFrom(r);
    } else if (base.profile == "c06") {
      // reference: synchronous schedule; then enumerate / sample completion orders and compare outcomes
      CaseSpec s0 = s; s0.schedMode = 0; s0.noRestarts = false;
      gCurrentCase = specStr(s0); CaseResult r0 = runCase(s0, thorough); t.add(r0); report(s0, r0, t); sampleFrom(r0);
      if (!r0.violations.empty()) continue;
      std::vector<unsigned> prefix; bool exhausted = false; uint64_t n = 0;
      for (; n < maxSchedules; ++n) {
        CaseSpec s2 = s; s2.schedMode = 2; s2.prefix = prefix;
        gCurrentCase = specStr(s2); CaseResult r2 = runCase(s2, thorough); t.add(r2); report(s2, r2, t); ++t.schedules;
        if (r2.violations.empty()) {
          for (size_t b = 0; b < std::min(r0.tracesUnordered.size(), r2.tracesUnordered.size()); ++b)
            if (r0.tracesUnordered[b] != r2.tracesUnordered[b]) {
              Ctx::V v{"differential: a different completion order produced different values or a different set of executed rules", "build " + std::to_string(b) + " sync=" + r0.tracesUnordered[b].substr(0, 500) + " sched=" + r2.tracesUnordered[b].substr(0, 500)};
              emitViolation(s2, v, &r2); ++t.violations; break;
            }
        } else break;
        if (!Chooser::nextPrefix(r2.choiceLog, prefix)) { exhausted = true; ++n; break; }
      }
      if (exhausted) ++t.exhaustivePrograms;
    }
  }
  printf("{\"summary\":{\"cases\":%lu,\"runs\":%lu,\"builds\":%lu,\"rules_executed\":%lu,\"rules_up_to_date\":%lu,\"provide_value_events\":%lu,\"prior_value_events\":%lu,\"restarts\":%lu,"
         "\"cancelled_builds\":%lu,\"cycle_builds\":%lu,\"db_checks\":%lu,\"interrupted_tasks\":%lu,\"distinct_nontrivial\":%lu,\"distinct_shapes\":%zu,\"distinct_delivery_orders\":%zu,"
         "\"hook_loop_top\":%lu,\"hook_before_wait\":%lu,\"hook_cancel_drain\":%lu,\"delivered_at_hook\":%lu,\"sync_completions\":%lu,\"schedules\":%lu,\"exhaustive_programs\":%lu,\"cancel_points\":%lu,\"diff_compared\":%lu,"
         "\"violations\":%lu,\"sample\":%s}}\n",
         t.cases, t.runs, t.builds, t.executed, t.upToDate, t.provides, t.priors, t.restarts, t.cancelled, t.cycles, t.dbChecks, t.interrupted, t.nontrivial, t.shapes.size(), t.orders.size(),
         t.hookLoopTop, t.hookBeforeWait, t.hookCancelDrain, t.deliveredAtHook, t.syncCompletions, t.schedules, t.exhaustivePrograms, t.cancelPoints, t.diffCompared, t.violations,
         t.sample.empty() ? "null" : t.sample.c_str());
  return 0;
}
