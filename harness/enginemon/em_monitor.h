// The engine monitor: shadow record + online monitors M-proto, M-value, M-justify, M-cycle, M-cancel,
// front-end independent task logic, schedules (DESIGN.md section 2).
#ifndef EM_MONITOR_H
#define EM_MONITOR_H

#include "em_program.h"
#include <atomic>
#include <condition_variable>
#include <deque>
#include <map>
#include <memory>
#include <mutex>
#include <thread>
#include <unistd.h>

namespace em {

// ------------------------------------------------------------------------------------------------ choices (schedules)
// A Chooser answers "pick one of n". It either replays a fixed prefix (enumeration / replay) and then
// takes 0, or draws from a PRNG. Every answer is logged so a run can be reproduced exactly.
struct Chooser {
  std::vector<unsigned> prefix; size_t pos = 0;
  bool random = false; vf::Rng rng{1};
  std::vector<std::pair<unsigned, unsigned>> log;  // (n, choice)
  unsigned pick(unsigned n) {
    unsigned c = 0;
    if (n <= 1) return 0;
    if (pos < prefix.size()) c = prefix[pos] % n;
    else if (random) c = (unsigned)rng.below(n);
    ++pos;
    log.push_back({n, c});
    return c;
  }
  // next prefix in lexicographic (odometer) order, or false when the space is exhausted
  static bool nextPrefix(const std::vector<std::pair<unsigned, unsigned>>& log, std::vector<unsigned>& out) {
    int i = (int)log.size() - 1;
    while (i >= 0 && log[i].second + 1 >= log[i].first) --i;
    if (i < 0) return false;
    out.clear();
    for (int j = 0; j < i; ++j) out.push_back(log[j].second);
    out.push_back(log[i].second + 1);
    return true;
  }
};

enum class Sched { S0Sync, S1Deferred, S2Threads };
static std::atomic<unsigned long> gEvents{0};   // watchdog progress counter

// Worker pool used by the threaded schedule S2.
struct Pool {
  std::vector<std::thread> th; std::mutex m; std::condition_variable cv; std::deque<std::function<void()>> q; bool stop = false;
  explicit Pool(unsigned n) { for (unsigned i = 0; i < n; ++i) th.emplace_back([this] { run(); }); }
  ~Pool() { { std::lock_guard<std::mutex> g(m); stop = true; } cv.notify_all(); for (auto& t : th) t.join(); }
  void submit(std::function<void()> f) { { std::lock_guard<std::mutex> g(m); q.push_back(std::move(f)); } cv.notify_one(); }
  void run() { for (;;) { std::function<void()> f; { std::unique_lock<std::mutex> l(m); cv.wait(l, [this] { return stop || !q.empty(); }); if (q.empty()) return; f = std::move(q.front()); q.pop_front(); } f(); } }
};

struct DepRec { int key; bool orderOnly; bool singleUse; bool operator==(const DepRec& o) const { return key == o.key && orderOnly == o.orderOnly && singleUse == o.singleUse; } };

struct Shadow {
  bool has = false;
  std::string value;
  uint64_t sig = 0;
  uint64_t builtAt = 0, computedAt = 0;   // the monitor's own build counter
  std::vector<DepRec> deps;
  bool interrupted = false;
  bool hasInterruptedValue = false; std::string interruptedValue;
};

// Input ids travel through the engine (and the C interface) in a form that uses the upper half of the word, as a client passing a
// pointer would: a narrowing anywhere on the way shows up as an id that was never requested.
inline uintptr_t wireInputID(uintptr_t idx) { return sizeof(uintptr_t) >= 8 ? (idx ^ (uintptr_t)0x5A00000100ull) : idx; }
inline uintptr_t unwireInputID(uintptr_t wire) { return sizeof(uintptr_t) >= 8 ? (wire ^ (uintptr_t)0x5A00000100ull) : wire; }

struct Completion { std::string value; bool force; std::vector<int> leaves; };

struct BuildTrace {   // per build, for differential comparison
  int target = -1; bool success = false; bool cycle = false; bool cancelled = false; std::string result;
  std::vector<int> executed;                                   // createTask order
  std::vector<std::pair<int, std::string>> priors;             // providePriorValue
  std::vector<std::string> provides;                           // "k<-j#id=hexvalue" in delivery order
  std::vector<int> cycleKeys;
  std::vector<std::string> errors;
  std::string canon(bool ordered, bool withPriors = true) const {
    std::string s = "T" + std::to_string(target) + (success ? " ok " : cycle ? " cycle " : cancelled ? " cancelled " : " fail ") + vf::hex(result) + " X[";
    std::vector<int> ex = executed; if (!ordered) std::sort(ex.begin(), ex.end());
    for (int k : ex) s += std::to_string(k) + ",";
    s += "] P[";
    auto pr = priors; if (!withPriors) pr.clear(); if (!ordered) std::sort(pr.begin(), pr.end());
    for (auto& q : pr) s += std::to_string(q.first) + "=" + vf::hex(q.second) + ",";
    s += "] V[";
    auto pv = provides; if (!ordered) std::sort(pv.begin(), pv.end());
    for (auto& q : pv) s += q + ",";
    s += "]";
    if (cycle) { s += " C["; for (int k : cycleKeys) s += std::to_string(k) + ","; s += "]"; }
    return s;
  }
};

struct TaskOps {  // how a task talks to its engine (C++ or C front end)
  virtual ~TaskOps() {}
  virtual void request(const std::string& key, uintptr_t id) = 0;
  virtual void requestSingleUse(const std::string& key, uintptr_t id) = 0;
  virtual void mustFollow(const std::string& key) = 0;
  virtual void discovered(const std::string& key) = 0;
  virtual void complete(const std::string& value, bool force) = 0;
  virtual TaskOps* clone() const = 0;
  virtual bool spawn(std::function<void()>) { return false; }   // run on the engine's own execution queue, if the front end has one
};

struct Ctx;

// Front-end independent task logic + protocol state machine (M-proto).
struct TaskCore {
  Ctx& cx; int key; uint64_t buildNo;
  enum St { Created, Started, Waiting, Available, Completed } st = Created;
  bool priorSeen = false;
  std::vector<char> requested, provided;  // by inputID
  std::vector<std::string> got;
  std::vector<DepRec> issued;             // requests in issue order
  std::vector<int> issuedMustFollow;
  bool anyProvide = false;
  Completion comp;
  std::unique_ptr<TaskOps> parkedOps;
  bool completionDelivered = false;
  bool accepted = false;
  TaskCore(Ctx& cx, int key);
  ~TaskCore();
  void issue(TaskOps& ops, size_t id, const Req& rq);
  void onStart(TaskOps& ops);
  void onPrior(const std::string& v);
  void onProvide(TaskOps& ops, uintptr_t id, const std::string* keyName, const std::string& v);
  void onInputsAvailable(TaskOps& ops);
  void deliver(TaskOps& ops);   // report discovered dependencies and complete
  void deliverFromWorker(TaskOps& ops);
};

struct EngineFront {  // the engine under observation, C++ or C
  virtual ~EngineFront() {}
  virtual bool attachDB(const std::string& path, uint32_t clientVersion, bool recreate, std::string* err) = 0;
  virtual std::string build(const std::string& key) = 0;
  virtual void cancel() = 0;
  virtual void reset() = 0;
  virtual bool supportsReset() const { return true; }
  virtual void useLaneQueue() {}
};

struct Ctx {
  const Program* prog = nullptr;
  World world;
  std::vector<Shadow> shadow;
  std::string tag;                // printed with violations
  // configuration
  Sched sched = Sched::S0Sync;
  Chooser chooser;
  bool monitorsOn = true;         // false for oracle runs
  bool resolveCycles = false;     // opt into ForceBuild cycle breaking
  bool capiVocabulary = false;    // C front end: no prior value, no key in provideValue, no single-use
  long cancelAtStep = -1;         // call cancel() at this event number of the current build
  std::function<void()> cancelFn;
  // state
  uint64_t buildNo = 0;
  bool buildActive = false; std::thread::id buildThread;
  int target = -1;
  long step = 0; bool cancelIssued = false; long cancelIssuedAtStep = -1;
  std::vector<char> createdThisBuild, scanningSeen, upToDateSeen, completeSeen;
  std::vector<int> validAnswer;   // -1 not asked, 0 false, 1 true
  std::vector<int> reasonSeen;    // -1 none else RunReason
  std::vector<int> reasonInput;
  std::vector<TaskCore*> liveTasks, parked;
  std::map<int, TaskCore*> taskOfKey;
  std::vector<TaskCore*> awaitingAcceptance;   // complete() called, engine has not yet reported IsComplete
  std::vector<std::pair<int, std::vector<int>>> acceptedLeaves;   // (key, discovered leaves) of every completion accepted in this build
  bool cycleReported = false; std::vector<int> cycleKeys;
  std::vector<std::string> errors;
  std::vector<BuildTrace> traces;
  std::vector<std::string> oracle; std::vector<char> oracleCycle; bool oracleValid = false;
  // hook statistics
  unsigned long hookLoopTop = 0, hookBeforeWait = 0, hookCancelDrain = 0, deliveredAtHook = 0, syncCompletions = 0;
  unsigned long nExecuted = 0, nUpToDate = 0, nProvide = 0, nPrior = 0, nInterrupted = 0;
  bool cancelObserved = false;   // a LoopTop notification happened after cancellation was requested
  std::string deliveryOrder;      // keys in the order their completions were delivered (distinct-interleaving evidence)
  // violations
  struct V { std::string key, detail; };
  std::vector<V> violations;
  std::recursive_mutex big;   // S2 only: every callback and every worker-side bookkeeping step holds it
  // Task objects are destroyed by the engine while it holds its own locks; to keep lock ordering trivial the
  // destructor only leaves a tombstone (under a leaf mutex) and the bookkeeping is done at the next callback.
  struct Tomb { TaskCore* t; int key; bool accepted, delivered; std::string value; };
  std::mutex tombMu; std::vector<Tomb> tombs;
  void reap();
  Pool* pool = nullptr;
  bool useEngineQueue = false;   // S2: deliver completions from jobs spawned on the engine's lane-based execution queue
  std::atomic<unsigned long> beforeWaitTicks{0};
  std::atomic<bool> cancelIssuedAtomic{false};
  std::function<void(const char*)> fatal;  // called on stall: must not return
  std::function<void(TaskCore&)> onBeforeComplete;   // C04: execution log written before complete()

  void init(const Program& p) {
    prog = &p; size_t n = p.keys.size();
    world.init(n); shadow.assign(n, Shadow());
    resetPerBuild();
  }
  void resetPerBuild() {
    size_t n = prog->keys.size();
    createdThisBuild.assign(n, 0); scanningSeen.assign(n, 0); upToDateSeen.assign(n, 0); completeSeen.assign(n, 0);
    validAnswer.assign(n, -1); reasonSeen.assign(n, -1); reasonInput.assign(n, -1);
    acceptedLeaves.clear();
    cycleReported = false; cycleKeys.clear(); errors.clear(); step = 0; cancelIssued = false; cancelIssuedAtStep = -1; cancelObserved = false; cancelIssuedAtomic = false;
  }
  void engineRestartedOnDB() {   // a new engine sees only what the database holds
    for (auto& s : shadow) { s.hasInterruptedValue = false; s.interruptedValue.clear(); }
  }
  void forgetEngineState() {  // engine destroyed without a database: all history is gone
    for (auto& s : shadow) s = Shadow();
  }
  void viol(const std::string& key, const std::string& detail) {
    if (!monitorsOn) return;
    if (violations.size() < 20) violations.push_back({key, detail});
  }
  const std::string& kname(int k) const { return prog->keys[k].name; }
  uint64_t sigOf(int k) const { return capiVocabulary ? 0 : prog->keys[k].sigVersion; }   // the C interface has no rule signatures
  std::string kdesc(int k) const { return "#" + std::to_string(k); }

  void event(const char* what, int key = -1, int aux = -1000) {   // every observable event is a step; cancellation is placed on steps
    static const bool trace = getenv("EM_TRACE") != nullptr;
    if (trace) fprintf(stderr, "  [b%llu s%ld] %s #%d %s\n", (unsigned long long)buildNo, step, what, key, aux == -1000 ? "" : std::to_string(aux).c_str());
    ++gEvents;
    long s = step++;
    if (cancelAtStep >= 0 && s == cancelAtStep && !cancelIssued && cancelFn) { cancelIssued = true; cancelIssuedAtStep = s; cancelFn(); }
  }
  void checkThread(const char* what) {
    if (!monitorsOn) return;
    if (cancelObserved) viol(std::string("M-cancel: callback ") + what + " delivered after the engine had observed the cancellation", "");
    if (!buildActive) viol(std::string("M-proto: callback ") + what + " while no build is active", "");
    else if (std::this_thread::get_id() != buildThread) viol(std::string("M-proto: callback ") + what + " on a thread other than the one inside build()", "");
  }
  void computeOracle() {
    size_t n = prog->keys.size();
    Evaluator ev(*prog, world);
    oracle.assign(n, ""); oracleCycle.assign(n, 0);
    for (size_t k = 0; k < n; ++k) { EvalResult r = ev.eval((int)k); oracleCycle[k] = r.cycle; oracle[k] = r.value; }
    oracleValid = true;
  }

  // ---- rule-side observations
  int onLookup(const std::string& name) { return prog->find(name); }
  bool onIsResultValid(int k, const std::string& v) {
  std::unique_lock<std::recursive_mutex> _g(big, std::defer_lock); if (sched == Sched::S2Threads) _g.lock(); reap();
    checkThread("isResultValid"); event("isResultValid", k);
    const KeyDef& kd = prog->keys[k];
    bool ans;
    if (kd.isInput) ans = (v == world.ext[k]);
    else if (kd.hasExtOut) ans = world.outPresent[k] && world.out[k] == v;
    else ans = true;
    validAnswer[k] = ans ? 1 : 0;
    if (monitorsOn) {
      Shadow& s = shadow[k];
      if (!s.has) viol("M-proto: isResultValid called for a key with no stored result", kdesc(k));
      else if (v != s.value && !(s.interrupted && s.hasInterruptedValue && v == s.interruptedValue))
        viol("M-value: isResultValid received a value that is not the stored result", kdesc(k) + " got=" + vf::hex(v.substr(0, 32)) + " stored=" + vf::hex(s.value.substr(0, 32)));
    }
    return ans;
  }
  void onStatus(int k, int kind) {
  std::unique_lock<std::recursive_mutex> _g(big, std::defer_lock); if (sched == Sched::S2Threads) _g.lock(); reap();
    checkThread("updateStatus"); event("updateStatus", k, kind);
    if (kind == 0) { scanningSeen[k] = 1; return; }
    if (kind == 1) {
      ++nUpToDate;
      upToDateSeen[k] = 1;
      if (monitorsOn) {
        if (createdThisBuild[k]) viol("M-proto: rule reported up to date after a task was created for it in the same build", kdesc(k));
        if (!shadow[k].has) viol("M-justify: rule reported up to date although it has no stored result", kdesc(k));
        Shadow& s = shadow[k];
        s.builtAt = buildNo;
        if (s.interrupted) {
          // The engine may hold, in memory, the value of the completion that a cancelled build drained; which of the
          // two it holds is not observable here, so the value is judged only where it is handed to someone.
          if (s.hasInterruptedValue && s.interruptedValue != s.value) s.computedAt = buildNo;
        } else {
          if (oracleValid && !oracleCycle[k] && s.has && s.value != oracle[k] && !prog->keys[k].isInput)
            viol("M-value: rule declared up to date with a stale value", kdesc(k) + " stored=" + vf::hex(s.value.substr(0, 32)) + " current=" + vf::hex(oracle[k].substr(0, 32)));
          if (oracleValid && prog->keys[k].isInput && s.has && s.value != world.ext[k])
            viol("M-value: input declared up to date with a stale value", kdesc(k));
        }
      }
      return;
    }
    // IsComplete: the engine accepted the completion of this key's task
    completeSeen[k] = 1;
    TaskCore* t = nullptr;
    for (size_t i = 0; i < awaitingAcceptance.size(); ++i) if (awaitingAcceptance[i]->key == k) { t = awaitingAcceptance[i]; awaitingAcceptance.erase(awaitingAcceptance.begin() + i); break; }
    if (!t) { viol("M-proto: rule reported complete although its task has not called complete()", kdesc(k)); return; }
    t->accepted = true;
    Shadow& s = shadow[k];
    // After an interruption the engine compares the new value with the last accepted value or, if the interrupted task had
    // already delivered a completion, with that one: "unchanged" is certain only if the new value equals every possible base.
    bool changed = !s.has || t->comp.force || s.value != t->comp.value || (s.interrupted && s.hasInterruptedValue && s.interruptedValue != t->comp.value);
    s.has = true; s.value = t->comp.value; s.sig = sigOf(k); s.builtAt = buildNo;
    if (changed) s.computedAt = buildNo;
    s.deps = t->issued;
    for (int lf : t->comp.leaves) s.deps.push_back({lf, false, false});
    s.interrupted = false; s.hasInterruptedValue = false;
    acceptedLeaves.push_back({k, t->comp.leaves});
  }
  void onNeedsToRun(int k, int reason, int inputKey) {
  std::unique_lock<std::recursive_mutex> _g(big, std::defer_lock); if (sched == Sched::S2Threads) _g.lock(); reap();
    checkThread("determinedRuleNeedsToRun"); event("determinedRuleNeedsToRun", k, reason);
    reasonSeen[k] = reason; reasonInput[k] = inputKey;
    if (!monitorsOn) return;
    const Shadow& s = shadow[k];
    switch (reason) {
    case 0: if (s.has && !s.interrupted) viol("M-justify: reason NeverBuilt reported for a rule that has a stored result", kdesc(k)); break;
    case 1: if (!s.has || s.sig == sigOf(k)) viol("M-justify: reason SignatureChanged reported but the signature did not change", kdesc(k)); break;
    case 2: if (validAnswer[k] != 0 && !s.interrupted) viol("M-justify: reason InvalidValue reported but isResultValid did not answer false in this build", kdesc(k)); break;
    case 3: {
      bool ok = false;
      if (inputKey >= 0) for (auto& d : s.deps) if (d.key == inputKey && !d.orderOnly && !d.singleUse && shadow[inputKey].computedAt > s.builtAt) ok = true;
      if (!ok && !s.interrupted) viol("M-justify: reason InputRebuilt reported for an input that is not a recorded value dependency changed since the rule was last up to date",
                                     kdesc(k) + " input=" + (inputKey >= 0 ? kdesc(inputKey) : "null") + " builtAt=" + std::to_string(s.builtAt) + (inputKey >= 0 ? " input.computedAt=" + std::to_string(shadow[inputKey].computedAt) : ""));
      break; }
    case 4: if (!resolveCycles) viol("M-justify: reason Forced reported although cycle breaking was declined", kdesc(k)); break;
    }
  }
  void onCreateTask(int k) {
  std::unique_lock<std::recursive_mutex> _g(big, std::defer_lock); if (sched == Sched::S2Threads) _g.lock(); reap();
    checkThread("createTask"); event("createTask", k);
    ++nExecuted;
    if (!traces.empty()) traces.back().executed.push_back(k);
    if (!monitorsOn) { createdThisBuild[k] = 1; return; }
    if (createdThisBuild[k]) viol("M-justify: rule executed twice in one build", kdesc(k));
    createdThisBuild[k] = 1;
    if (reasonSeen[k] < 0 && !capiVocabulary) viol("M-justify: task created without a preceding determinedRuleNeedsToRun in this build", kdesc(k));
    const Shadow& s = shadow[k];
    bool just = !s.has || s.sig != sigOf(k) || validAnswer[k] == 0 || s.interrupted || (resolveCycles && reasonSeen[k] == 4);
    if (!just) for (auto& d : s.deps) if (!d.orderOnly && !d.singleUse && shadow[d.key].computedAt > s.builtAt) just = true;
    if (!just) {
      std::string deps;
      for (auto& d : s.deps) deps += kdesc(d.key) + (d.orderOnly ? "o" : "") + (d.singleUse ? "s" : "") + "@" + std::to_string(shadow[d.key].computedAt) + " ";
      viol("M-justify: rule executed without any true reason (stored result valid, signature same, no recorded value dependency changed, not interrupted)",
           kdesc(k) + " builtAt=" + std::to_string(s.builtAt) + " deps=" + deps + " reported-reason=" + std::to_string(reasonSeen[k]));
    }
  }
  void onCycle(const std::vector<int>& keys);
  void onError(const std::string& m) { std::unique_lock<std::recursive_mutex> _g(big, std::defer_lock); if (sched == Sched::S2Threads) _g.lock(); errors.push_back(m); if (!traces.empty()) traces.back().errors.push_back(m); }

  // ---- hook (engine idle points)
  void onHook(int point) {
    if (point == 0) {
      std::unique_lock<std::recursive_mutex> _g(big, std::defer_lock); if (sched == Sched::S2Threads) _g.lock(); reap();
      ++hookLoopTop; event("LoopTop");
      if (cancelIssued || cancelIssuedAtomic.load()) { cancelIssued = true; cancelObserved = true; }
      return;
    }
    if (sched == Sched::S2Threads) { std::lock_guard<std::recursive_mutex> g(big); if (point == 1) ++hookBeforeWait; else ++hookCancelDrain; ++gEvents; beforeWaitTicks++; return; }
    if (point == 1) ++hookBeforeWait; else ++hookCancelDrain;
    event(point == 1 ? "BeforeWait" : "CancelDrainWait");
    reap();
    // S0/S1: the engine thread is the only thread; if it is about to block, something must be parked.
    std::vector<TaskCore*> undelivered;
    for (auto* t : parked) if (!t->completionDelivered) undelivered.push_back(t);
    if (undelivered.empty()) {
      if (point == 2 && awaitingAcceptanceUndrained() > 0) return;   // completions already queued; the drain will consume them
      std::string d = "target=" + (target >= 0 ? kdesc(target) : "?") + " point=" + std::to_string(point) + " live-tasks=" + std::to_string(liveTasks.size());
      viol("stall: engine is about to block waiting for a completion but every task that was told inputsAvailable has reported (deadlock / lost completion)", d);
      if (fatal) fatal("stall");
      return;
    }
    // deliver one or more parked completions, in a chosen order
    unsigned count = 1 + chooser.pick((unsigned)undelivered.size());
    for (unsigned i = 0; i < count && !undelivered.empty(); ++i) {
      unsigned idx = chooser.pick((unsigned)undelivered.size());
      TaskCore* t = undelivered[idx]; undelivered.erase(undelivered.begin() + idx);
      ++deliveredAtHook;
      t->deliver(*t->parkedOps);
    }
  }
  size_t awaitingAcceptanceUndrained() { return awaitingAcceptance.size(); }

  // ---- build wrapper
  BuildTrace& beginBuild(int tgt) {
    ++buildNo; target = tgt; resetPerBuild();
    computeOracle();
    traces.push_back(BuildTrace()); traces.back().target = tgt;
    buildActive = true; buildThread = std::this_thread::get_id();
    return traces.back();
  }
  void endBuild(const std::string& result);
};

// ------------------------------------------------------------------------------------------------ TaskCore impl
inline TaskCore::TaskCore(Ctx& cx, int key) : cx(cx), key(key), buildNo(cx.buildNo) {
  std::unique_lock<std::recursive_mutex> _g(cx.big, std::defer_lock); if (cx.sched == Sched::S2Threads) _g.lock(); cx.reap();
  size_t n = cx.prog->keys[key].statics.size() + cx.prog->keys[key].dyns.size();
  requested.assign(n, 0); provided.assign(n, 0); got.assign(n, "");
  cx.liveTasks.push_back(this); cx.taskOfKey[key] = this;
}
inline TaskCore::~TaskCore() {
  std::lock_guard<std::mutex> g(cx.tombMu);
  cx.tombs.push_back({this, key, accepted, completionDelivered, comp.value});
}
inline void Ctx::reap() {
  std::vector<Tomb> ts;
  { std::lock_guard<std::mutex> g(tombMu); ts.swap(tombs); }
  for (auto& tb : ts) {
    if (!tb.accepted && monitorsOn) {   // destroyed without the engine accepting a result: cancelled or cycle-failed build
      Shadow& s = shadow[tb.key];
      s.interrupted = true;
      if (tb.delivered) { s.hasInterruptedValue = true; s.interruptedValue = tb.value; }
      ++nInterrupted;
    }
    auto rm = [&](std::vector<TaskCore*>& v) { v.erase(std::remove(v.begin(), v.end(), tb.t), v.end()); };
    rm(liveTasks); rm(parked); rm(awaitingAcceptance);
    auto it = taskOfKey.find(tb.key); if (it != taskOfKey.end() && it->second == tb.t) taskOfKey.erase(it);
  }
}
inline void TaskCore::issue(TaskOps& ops, size_t id, const Req& rq) {
  requested[id] = 1;
  const std::string& nm = cx.kname(rq.key);
  if (rq.mode == MustFollow) { issued.push_back({rq.key, true, false}); issuedMustFollow.push_back(rq.key); provided[id] = 1; ops.mustFollow(nm); }
  else if (rq.mode == SingleUse) { issued.push_back({rq.key, false, true}); ops.requestSingleUse(nm, id); }
  else { issued.push_back({rq.key, false, false}); ops.request(nm, id); }
}
inline void TaskCore::onStart(TaskOps& ops) {
  std::unique_lock<std::recursive_mutex> _g(cx.big, std::defer_lock); if (cx.sched == Sched::S2Threads) _g.lock(); cx.reap();
  cx.checkThread("start"); cx.event("start", key);
  if (st != Created) cx.viol("M-proto: start delivered twice or out of order", cx.kdesc(key));
  st = Started;
  const KeyDef& kd = cx.prog->keys[key];
  for (size_t i = 0; i < kd.statics.size(); ++i) issue(ops, i, kd.statics[i]);
}
inline void TaskCore::onPrior(const std::string& v) {
  std::unique_lock<std::recursive_mutex> _g(cx.big, std::defer_lock); if (cx.sched == Sched::S2Threads) _g.lock(); cx.reap();
  cx.checkThread("providePriorValue"); cx.event("providePriorValue", key);
  ++cx.nPrior;
  if (!cx.traces.empty()) cx.traces.back().priors.push_back({key, v});
  if (st != Started || anyProvide) cx.viol("M-proto: providePriorValue not immediately after start", cx.kdesc(key));
  if (priorSeen) cx.viol("M-proto: providePriorValue delivered twice", cx.kdesc(key));
  priorSeen = true;
  if (!cx.monitorsOn) return;
  const Shadow& s = cx.shadow[key];
  if (!s.has || s.sig != cx.sigOf(key)) cx.viol("M-proto: providePriorValue delivered although no stored result with the same signature exists", cx.kdesc(key));
  else if (v != s.value && !(s.interrupted && s.hasInterruptedValue && v == s.interruptedValue))
    cx.viol("M-proto: providePriorValue carries a value other than the stored result", cx.kdesc(key) + " got=" + vf::hex(v.substr(0, 32)) + " stored=" + vf::hex(s.value.substr(0, 32)));
}
inline void TaskCore::onProvide(TaskOps& ops, uintptr_t id, const std::string* keyName, const std::string& v) {
  std::unique_lock<std::recursive_mutex> _g(cx.big, std::defer_lock); if (cx.sched == Sched::S2Threads) _g.lock(); cx.reap();
  cx.checkThread("provideValue"); cx.event("provideValue", key, (int)id);
  ++cx.nProvide;
  const KeyDef& kd = cx.prog->keys[key];
  if (st != Started && st != Waiting) cx.viol("M-proto: provideValue outside the start..inputsAvailable window", cx.kdesc(key));
  if (st == Started) {
    // first provide: the prior value, if one was due, must have been delivered by now
    if (cx.monitorsOn && !cx.capiVocabulary) { const Shadow& s = cx.shadow[key]; if (s.has && s.sig == cx.sigOf(key) && !priorSeen && !s.interrupted) cx.viol("M-proto: stored result exists with the same signature but providePriorValue was not delivered", cx.kdesc(key)); }
    st = Waiting;
  }
  anyProvide = true;
  if (id >= requested.size() || !requested[id]) { cx.viol("M-proto: provideValue for an input id that was not requested", cx.kdesc(key) + " id=" + std::to_string(id)); return; }
  if (provided[id]) { cx.viol("M-proto: provideValue delivered twice for one request (or for a must-follow key)", cx.kdesc(key) + " id=" + std::to_string(id)); return; }
  provided[id] = 1; got[id] = v;
  const Req& rq = id < kd.statics.size() ? kd.statics[id] : kd.dyns[id - kd.statics.size()].req;
  if (keyName && *keyName != cx.kname(rq.key)) cx.viol("M-proto: provideValue key does not match the request made under that id", cx.kdesc(key) + " id=" + std::to_string(id));
  if (!cx.traces.empty()) cx.traces.back().provides.push_back(std::to_string(key) + "<-" + std::to_string(rq.key) + "#" + std::to_string(id) + "=" + vf::hex(v.size() > 64 ? v.substr(0, 64) : v) + ":" + std::to_string(v.size()));
  if (cx.monitorsOn && cx.oracleValid && !cx.oracleCycle[rq.key] && v != cx.oracle[rq.key])
    cx.viol("M-value: task was handed an input value that is not the current value of that input", cx.kdesc(key) + " input=" + cx.kdesc(rq.key) + " got=" + vf::hex(v.substr(0, 32)) + " current=" + vf::hex(cx.oracle[rq.key].substr(0, 32)));
  if (cx.monitorsOn && !cx.upToDateSeen[rq.key] && !cx.completeSeen[rq.key])
    cx.viol("M-proto: input value provided before the input rule was reported up to date or complete in this build", cx.kdesc(key) + " input=" + cx.kdesc(rq.key));
  // value-dependent dynamic requests
  for (size_t j = 0; j < kd.dyns.size(); ++j) {
    const Dyn& d = kd.dyns[j];
    if ((uintptr_t)d.onInput == id && dynFires(d, v)) issue(ops, kd.statics.size() + j, d.req);
  }
}
inline void TaskCore::onInputsAvailable(TaskOps& ops) {
  std::unique_lock<std::recursive_mutex> _g(cx.big, std::defer_lock); if (cx.sched == Sched::S2Threads) _g.lock(); cx.reap();
  cx.checkThread("inputsAvailable"); cx.event("inputsAvailable", key);
  const KeyDef& kd = cx.prog->keys[key];
  if (st == Available || st == Completed) cx.viol("M-proto: inputsAvailable delivered more than once", cx.kdesc(key));
  if (st == Created) cx.viol("M-proto: inputsAvailable before start", cx.kdesc(key));
  if (st == Started && cx.monitorsOn && !cx.capiVocabulary) { const Shadow& s = cx.shadow[key]; if (s.has && s.sig == cx.sigOf(key) && !priorSeen && !s.interrupted) cx.viol("M-proto: stored result exists with the same signature but providePriorValue was not delivered", cx.kdesc(key)); }
  st = Available;
  for (size_t id = 0; id < requested.size(); ++id) if (requested[id] && !provided[id]) cx.viol("M-proto: inputsAvailable before every requested input was provided", cx.kdesc(key) + " missing id=" + std::to_string(id));
  for (int mf : issuedMustFollow) if (cx.monitorsOn && !cx.upToDateSeen[mf] && !cx.completeSeen[mf]) cx.viol("M-proto: inputsAvailable before a must-follow key was brought up to date", cx.kdesc(key) + " must-follow=" + cx.kdesc(mf));
  // compute
  Computation c(kd);
  for (size_t id = 0; id < requested.size(); ++id) {
    if (!requested[id]) continue;
    int mode = id < kd.statics.size() ? kd.statics[id].mode : kd.dyns[id - kd.statics.size()].req.mode;
    if (mode == Normal) c.normalInput((unsigned)id, got[id]);
  }
  comp.leaves = c.chooseLeaves(kd);
  for (int lf : comp.leaves) c.leaf(cx.kname(lf), cx.world.ext[lf]);
  comp.value = kd.isInput ? cx.world.ext[key] : encodeValue(kd, c.h);
  for (int dk : kd.discKeys) comp.leaves.push_back(dk);   // reported, recorded and scanned like a leaf; its value is not part of the computation
  comp.force = kd.forceChange;
  bool sync = cx.sched == Sched::S0Sync || (cx.sched == Sched::S1Deferred && cx.chooser.pick(3) == 0);
  if (sync) { ++cx.syncCompletions; deliver(ops); }
  else if (cx.sched == Sched::S2Threads) deliverFromWorker(ops);
  else { parkedOps.reset(ops.clone()); cx.parked.push_back(this); }
}
inline void TaskCore::deliver(TaskOps& ops) {
  if (completionDelivered) { cx.viol("harness: completion delivered twice", cx.kdesc(key)); return; }
  completionDelivered = true;
  const KeyDef& kd = cx.prog->keys[key];
  if (cx.onBeforeComplete) cx.onBeforeComplete(*this);
  for (int lf : comp.leaves) ops.discovered(cx.kname(lf));
  if (kd.hasExtOut) { cx.world.out[key] = comp.value; cx.world.outPresent[key] = 1; }
  st = Completed;
  cx.awaitingAcceptance.push_back(this);
  cx.deliveryOrder += std::to_string(key) + ".";
  ops.complete(comp.value, comp.force);
}

// S2: hand the completion to a worker thread. The worker owns copies of everything it needs, because the
// engine may destroy the task object as soon as complete() has been called.
inline void TaskCore::deliverFromWorker(TaskOps& ops) {
  std::shared_ptr<TaskOps> o(ops.clone());
  Ctx* c = &cx; TaskCore* self = this; int k = key;
  Completion cp = comp; bool extOut = cx.prog->keys[key].hasExtOut;
  std::vector<std::string> leafNames; for (int lf : comp.leaves) leafNames.push_back(cx.kname(lf));
  unsigned mode = cx.chooser.pick(4); unsigned delayUs = (unsigned)cx.chooser.pick(200);
  unsigned long tick = cx.beforeWaitTicks.load();
  auto job = [=]() {
    if (mode == 0) { for (int i = 0; i < 200000 && c->beforeWaitTicks.load() == tick; ++i) std::this_thread::yield(); }   // fire right after the engine announces it is about to wait
    else if (mode != 1) usleep(delayUs);
    {
      std::lock_guard<std::recursive_mutex> g(c->big);
      c->reap();
      self->completionDelivered = true; self->st = Completed;
      if (extOut) { c->world.out[k] = cp.value; c->world.outPresent[k] = 1; }
      c->awaitingAcceptance.push_back(self);
      c->deliveryOrder += std::to_string(k) + ".";
      ++c->deliveredAtHook;
    }
    for (auto& n : leafNames) o->discovered(n);
    o->complete(cp.value, cp.force);
  };
  if (!(cx.useEngineQueue && ops.spawn(job))) cx.pool->submit(job);
}

// ------------------------------------------------------------------------------------------------ cycles (C07)
inline void Ctx::onCycle(const std::vector<int>& keys) {
  std::unique_lock<std::recursive_mutex> _g(big, std::defer_lock); if (sched == Sched::S2Threads) _g.lock(); reap();
  checkThread("cycleDetected"); event("cycleDetected");
  if (cycleReported) viol("M-cycle: cycleDetected reported more than once in one build", "");
  cycleReported = true; cycleKeys = keys;
  if (!traces.empty()) { traces.back().cycle = true; traces.back().cycleKeys = keys; }
  if (!monitorsOn) return;
  std::string lst; for (int k : keys) lst += kdesc(k) + " ";
  if (keys.empty()) { viol("M-cycle: empty cycle list", ""); return; }
  for (int k : keys) if (k < 0) { viol("M-cycle: reported list contains an unknown key", lst); return; }
  if (keys[0] != target) viol("M-cycle: reported list does not start at the requested key", lst + " target=" + kdesc(target));
  bool rep = false;
  for (size_t i = 0; i + 1 < keys.size(); ++i) if (keys[i] == keys.back()) rep = true;
  if (!rep) viol("M-cycle: last key of the reported list does not repeat an earlier one", lst);
  for (size_t i = 0; i + 1 < keys.size(); ++i) {
    int a = keys[i], b = keys[i + 1];
    // both ends must still be unfinished in this build
    if (upToDateSeen[a] || completeSeen[a] || upToDateSeen[b] || completeSeen[b]) { viol("M-cycle: reported list contains a key that is already up to date in this build (false cycle)", lst + " at " + kdesc(a) + "->" + kdesc(b)); continue; }
    bool real = false;
    auto it = taskOfKey.find(a);
    if (it != taskOfKey.end()) {  // a's task requested b and has not been provided it
      TaskCore* t = it->second; const KeyDef& kd = prog->keys[a];
      for (size_t id = 0; id < t->requested.size(); ++id) {
        if (!t->requested[id]) continue;
        const Req& rq = id < kd.statics.size() ? kd.statics[id] : kd.dyns[id - kd.statics.size()].req;
        if (rq.key == b && (rq.mode == MustFollow || !t->provided[id])) real = true;
      }
    } else if (scanningSeen[a] && !createdThisBuild[a]) {  // a is being scanned and waits for a recorded dependency b
      for (auto& d : shadow[a].deps) if (d.key == b) real = true;
    }
    if (!real) viol("M-cycle: consecutive keys of the reported list are not a real wait-for relationship (false cycle)", lst + " at " + kdesc(a) + "->" + kdesc(b));
  }
}

inline void Ctx::endBuild(const std::string& result) {
  std::unique_lock<std::recursive_mutex> _g(big, std::defer_lock); if (sched == Sched::S2Threads) _g.lock(); reap();
  buildActive = false;
  if (cancelIssuedAtomic.load()) cancelIssued = true;
  BuildTrace& tr = traces.back();
  // a cancellation that arrived after the last loop-top test is too late to matter: the build may finish normally
  bool cancelled = cancelIssued && !cycleReported && errors.empty() && (cancelObserved || result.empty());
  tr.cancelled = cancelled; tr.result = result;
  tr.success = !cycleReported && !cancelled && errors.empty();
  if (!monitorsOn) return;
  {
    // A rule accepted in a build whose discovered dependency was never brought up to date in that build (the build failed or was
    // cancelled, or the dependency is stuck in a cycle of its own behind a requested key that is complete) was computed from a state
    // the engine has not recorded: its execution counts as interrupted (it may be re-run).
    for (auto& al : acceptedLeaves)
      for (int lf : al.second)
        if (!upToDateSeen[lf] && !completeSeen[lf]) { shadow[al.first].interrupted = true; ++nInterrupted; }
  }
  if (cancelObserved && !result.empty()) viol("M-cancel: build returned a non-empty value although the engine had observed the cancellation", kdesc(target));
  if (!liveTasks.empty()) viol("M-cancel: tasks still alive after build() returned", "live=" + std::to_string(liveTasks.size()));
  if (tr.success) {
    if (oracleCycle[target]) viol("M-cycle: build of a key whose computation requires a dependency cycle succeeded without reporting the cycle", kdesc(target));
    else if (result != oracle[target]) viol("M-value: successful build returned a value different from a from-scratch evaluation of the current state", kdesc(target) + " got=" + vf::hex(result.substr(0, 32)) + " expect=" + vf::hex(oracle[target].substr(0, 32)));
    if (!upToDateSeen[target] && !completeSeen[target]) viol("M-proto: build succeeded but the requested rule was never reported up to date or complete", kdesc(target));
    for (size_t k = 0; k < prog->keys.size(); ++k)
      if ((upToDateSeen[k] || completeSeen[k]) && prog->keys[k].hasExtOut && !oracleCycle[k] && (!world.outPresent[k] || world.out[k] != oracle[k]))
        viol("M-value: rule brought up to date but its external output does not hold the current value", kdesc((int)k));
  } else {
    if (!cancelled && !cycleReported && errors.empty()) viol("M-proto: build failed without cancellation, cycle report or error", kdesc(target));
    if (!cancelled && !result.empty()) viol("M-cycle: failed build returned a non-empty value", kdesc(target));
  }
}

}  // namespace em
#endif
