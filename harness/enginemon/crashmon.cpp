// crashmon: C04 child. One engine build per process on a SQLite database, so that a kill injected from outside
// (strace inject) lands inside exactly one transaction. Modes:
//   init    write the initial world state file for (seed, case)
//   build   load state, apply the history's mutations up to the next build, run that build with all monitors on,
//           append one line per task completion to the execution log BEFORE calling complete(), save the new state
//   verify  after a kill: open the database with a fresh reader + sqlite3, check integrity and I1..I3 against the
//           pre-build dump and the execution log of the killed run
//   dump    print the canonical dump of the database
#include "em_front_cpp.h"
#include <fcntl.h>
#include <sqlite3.h>
#include <sys/stat.h>

using namespace em;

struct Op { int kind; int key; std::string val; };  // 0 set, 1 tamper, 2 rmout, 3 build

static Program gProg; static std::vector<Op> gHist; static bool gForceDefer = false;

static void genCase(uint64_t seed, uint64_t index) {
  vf::Rng r(seed * 1000003ull + index * 7919ull + 4);
  GenOptions go; go.maxKeys = 8;
  bool big = index % 4 == 3;   // one case in four: a build that stores well over a hundred results in its one transaction
  if (big) { go.minKeys = 90; go.maxKeys = 160; }
  gProg = generate(r, go);
  std::vector<int> inputs, computed, extouts;
  for (size_t i = 0; i < gProg.keys.size(); ++i) { (gProg.keys[i].isInput ? inputs : computed).push_back((int)i); if (gProg.keys[i].hasExtOut) extouts.push_back((int)i); }
  if (big && computed.size() > 1) {   // the last key requests every other computed key, so building it builds everything
    KeyDef& root = gProg.keys[computed.back()];
    root.dyns.clear(); root.statics.clear();
    for (size_t q = 0; q + 1 < computed.size(); ++q) root.statics.push_back({computed[q], Normal});
    root.statics.push_back({inputs[0], Normal});
  }
  size_t builds = 3 + r.below(4);
  gHist.push_back({3, computed.back(), ""});
  for (size_t b = 1; b < builds; ++b) {
    size_t nm = r.below(3);
    for (size_t q = 0; q < nm; ++q) {
      if (!extouts.empty() && r.chance(1, 4)) gHist.push_back({r.chance(1, 2) ? 1 : 2, r.pick(extouts), "tampered" + std::to_string(b)});
      else gHist.push_back({0, r.pick(inputs), std::to_string(r.below(4))});
    }
    gHist.push_back({3, r.chance(1, 3) ? r.pick(computed) : computed.back(), ""});
  }
  // continuation material used after a kill: two further (mutate, build) rounds
  for (int c = 0; c < 2; ++c) { gHist.push_back({0, r.pick(inputs), std::to_string(r.below(4))}); gHist.push_back({3, computed.back(), ""}); }
}

struct State { size_t nextOp = 0; World w; };
static bool loadState(const std::string& p, State& s) {
  FILE* f = fopen(p.c_str(), "r"); if (!f) return false;
  char* line = nullptr; size_t cap = 0; ssize_t n;
  s.w.init(gProg.keys.size());
  while ((n = getline(&line, &cap, f)) > 0) {
    std::string l(line, n); while (!l.empty() && (l.back() == '\n')) l.pop_back();
    if (l.rfind("next ", 0) == 0) s.nextOp = strtoul(l.c_str() + 5, 0, 10);
    else if (l.rfind("ext ", 0) == 0) { size_t k = strtoul(l.c_str() + 4, 0, 10); size_t sp = l.find(' ', 4); s.w.ext[k] = vf::unhex(l.substr(sp + 1)); }
    else if (l.rfind("out ", 0) == 0) { size_t k = strtoul(l.c_str() + 4, 0, 10); size_t sp = l.find(' ', 4); s.w.out[k] = vf::unhex(l.substr(sp + 1)); s.w.outPresent[k] = 1; }
  }
  free(line); fclose(f); return true;
}
static void saveState(const std::string& p, const State& s) {
  std::string tmp = p + ".tmp"; FILE* f = fopen(tmp.c_str(), "w");
  fprintf(f, "next %zu\n", s.nextOp);
  for (size_t k = 0; k < s.w.ext.size(); ++k) fprintf(f, "ext %zu %s\n", k, vf::hex(s.w.ext[k]).c_str());
  for (size_t k = 0; k < s.w.out.size(); ++k) if (s.w.outPresent[k]) fprintf(f, "out %zu %s\n", k, vf::hex(s.w.out[k]).c_str());
  fclose(f); rename(tmp.c_str(), p.c_str());
}

struct DBRow { std::string value; uint64_t sig, builtAt, computedAt; std::vector<DepRec> deps; std::string depStr; };
static bool readDB(const std::string& path, uint32_t cv, std::map<int, DBRow>& rows, uint64_t& epoch, std::string& err, std::vector<std::string>* unknownKeys = nullptr) {
  std::unique_ptr<BuildDB> db = createSQLiteBuildDB(path, cv, false, &err); DBReader rd; db->attachDelegate(&rd);
  bool ok = true; epoch = db->getCurrentEpoch(&ok, &err); if (!ok) return false;
  std::vector<KeyType> keys; std::vector<Result> res; if (!db->getKeysWithResult(keys, res, &err)) return false;
  for (size_t i = 0; i < keys.size(); ++i) {
    int k = gProg.find(keys[i].str());
    if (k < 0) { if (unknownKeys) unknownKeys->push_back(keys[i].str()); continue; }
    DBRow r; r.value = toStr(res[i].value); r.sig = res[i].signature.value; r.builtAt = res[i].builtAt; r.computedAt = res[i].computedAt;
    for (auto d : res[i].dependencies) { int dk = gProg.find(rd.nameOf(d.keyID)); r.deps.push_back({dk, d.orderOnly, d.singleUse}); r.depStr += std::to_string(dk) + (d.orderOnly ? "o" : "") + (d.singleUse ? "s" : "") + ","; }
    rows[k] = r;
  }
  return true;
}
static std::string rowStr(int k, const DBRow& r) { return std::to_string(k) + " " + vf::hex(r.value) + " [" + r.depStr + "]"; }

static int gLogFd = -1;
int main(int argc, char** argv) {
  vf::Args a(argc, argv);
  std::string mode = a.s("mode", "build");
  uint64_t seed = a.u("seed", 1), index = a.u("case", 0);
  std::string dbPath = a.s("db"), statePath = a.s("state"), logPath = a.s("exec-log"), killedLog = a.s("killed-log"), preDump = a.s("pre-dump");
  const uint32_t cv = 3;
  genCase(seed, index);
  if (mode == "init") { State s; s.w.init(gProg.keys.size()); saveState(statePath, s); printf("{\"summary\":{\"ops\":%zu,\"keys\":%zu,\"program\":%s}}\n", gHist.size(), gProg.keys.size(), describe(gProg).c_str()); return 0; }
  if (mode == "dump") {
    std::map<int, DBRow> rows; uint64_t ep; std::string err;
    if (!readDB(dbPath, cv, rows, ep, err)) { printf("ERR %s\n", err.c_str()); return 0; }
    printf("epoch %llu\n", (unsigned long long)ep);
    for (auto& kv : rows) printf("%s\n", rowStr(kv.first, kv.second).c_str());
    return 0;
  }
  if (mode == "verify") {
    // 1. sqlite-level integrity
    unsigned viol = 0;
    auto V = [&](const std::string& key, const std::string& detail) { ++viol; printf("{\"viol\":%s,\"witness\":{\"detail\":%s}}\n", vf::jstr(key).c_str(), vf::jstr(detail).c_str()); };
    struct stat st;
    bool exists = stat(dbPath.c_str(), &st) == 0;
    std::string content = "absent";
    if (exists) {
      sqlite3* db = nullptr;
      if (sqlite3_open(dbPath.c_str(), &db) != SQLITE_OK) V("I0: database file cannot be opened after the kill", sqlite3_errmsg(db));
      else {
        sqlite3_stmt* stt = nullptr; std::string ic;
        if (sqlite3_prepare_v2(db, "PRAGMA integrity_check", -1, &stt, nullptr) == SQLITE_OK) { while (sqlite3_step(stt) == SQLITE_ROW) ic += (const char*)sqlite3_column_text(stt, 0); }
        sqlite3_finalize(stt);
        if (ic != "ok") V("I0: PRAGMA integrity_check is not ok after the kill", ic.substr(0, 300));
        // I1 at the SQL level (skip when the schema does not exist yet: a kill during creation leaves an empty file, which a later open recreates)
        sqlite3_stmt* s2 = nullptr;
        if (sqlite3_prepare_v2(db, "SELECT (SELECT iteration FROM info), (SELECT MAX(MAX(built_at), MAX(computed_at)) FROM rule_results)", -1, &s2, nullptr) == SQLITE_OK && sqlite3_step(s2) == SQLITE_ROW) {
          long long it = sqlite3_column_int64(s2, 0), mx = sqlite3_column_int64(s2, 1);
          if (sqlite3_column_type(s2, 1) != SQLITE_NULL && it < mx) V("I1: stored epoch is smaller than a stored result's epoch", "iteration=" + std::to_string(it) + " max=" + std::to_string(mx));
        }
        sqlite3_finalize(s2);
        sqlite3_close(db);
      }
      // 2. readable by a fresh BuildDB + I2 (dependency ids resolve) + I3
      std::map<int, DBRow> rows; uint64_t ep = 0; std::string err; std::vector<std::string> unknown;
      if (!readDB(dbPath, cv, rows, ep, err, &unknown)) {
        if (err.find("Version mismatch") == std::string::npos) V("I2: a fresh BuildDB cannot read the database after the kill", err);
        else content = "no-schema";
      } else {
        for (auto& u : unknown) V("I3: database holds a key that is not a key of the program", vf::hex(u.substr(0, 40)));
        std::set<std::string> allowed;
        { FILE* f = fopen(preDump.c_str(), "r"); char* line = nullptr; size_t cap = 0; ssize_t n; if (f) { while ((n = getline(&line, &cap, f)) > 0) { std::string l(line, n); while (!l.empty() && l.back() == '\n') l.pop_back(); if (l.rfind("epoch", 0) != 0) allowed.insert("P " + l); } fclose(f); } free(line); }
        { FILE* f = fopen(killedLog.c_str(), "r"); char* line = nullptr; size_t cap = 0; ssize_t n; if (f) { while ((n = getline(&line, &cap, f)) > 0) { std::string l(line, n); while (!l.empty() && l.back() == '\n') l.pop_back(); if (l.rfind("E ", 0) == 0) allowed.insert("P " + l.substr(2)); } fclose(f); } free(line); }
        size_t fromLog = 0;
        for (auto& kv : rows) {
          std::string rs = "P " + rowStr(kv.first, kv.second);
          if (!allowed.count(rs)) V("I3: a stored (key, value, dependency list) matches neither the pre-build record nor any execution of the interrupted build (torn or invented result)", rowStr(kv.first, kv.second));
          if (kv.second.builtAt != 0 && kv.second.builtAt < kv.second.computedAt) V("I1: built_at < computed_at", rowStr(kv.first, kv.second));
          if (ep < kv.second.computedAt) V("I1: stored epoch is smaller than a stored result's computed_at", rowStr(kv.first, kv.second) + " epoch=" + std::to_string(ep));
          if (ep < kv.second.builtAt) V("I1: stored epoch is smaller than a stored result's built_at", rowStr(kv.first, kv.second) + " epoch=" + std::to_string(ep));
          (void)fromLog;
        }
        content = "epoch=" + std::to_string(ep) + " rows=" + std::to_string(rows.size());
      }
    }
    printf("{\"summary\":{\"violations\":%u,\"content\":%s}}\n", viol, vf::jstr(content).c_str());
    return 0;
  }
  // ---- build mode
  State s;
  if (!loadState(statePath, s)) { fprintf(stderr, "cannot load state\n"); return 2; }
  installHook();
  Ctx cx; cx.init(gProg); cx.world = s.w; cx.tag = "c04";
  cx.fatal = [&](const char* why) { for (auto& v : cx.violations) printf("{\"viol\":%s,\"witness\":{\"detail\":%s}}\n", vf::jstr(v.key).c_str(), vf::jstr(v.detail).c_str()); printf("{\"stalled\":\"%s\"}\n", why); fflush(stdout); _exit(3); };
  // mutations up to the next build
  size_t oi = s.nextOp; int target = -1;
  for (; oi < gHist.size(); ++oi) {
    const Op& op = gHist[oi];
    if (op.kind == 0) cx.world.ext[op.key] = op.val;
    else if (op.kind == 1) { cx.world.out[op.key] = op.val; cx.world.outPresent[op.key] = 1; }
    else if (op.kind == 2) cx.world.outPresent[op.key] = 0;
    else { target = op.key; ++oi; break; }
  }
  if (target < 0) { printf("{\"summary\":{\"done\":true}}\n"); return 0; }
  // outputs already rewritten by an interrupted attempt of this very build
  if (!killedLog.empty()) {
    FILE* f = fopen(killedLog.c_str(), "r"); char* line = nullptr; size_t cap = 0; ssize_t n;
    if (f) { while ((n = getline(&line, &cap, f)) > 0) { std::string l(line, n); if (l.rfind("O ", 0) == 0) { size_t k = strtoul(l.c_str() + 2, 0, 10); size_t sp = l.find(' ', 2); std::string hv = l.substr(sp + 1); while (!hv.empty() && hv.back() == '\n') hv.pop_back(); cx.world.out[k] = vf::unhex(hv); cx.world.outPresent[k] = 1; } } fclose(f); }
    free(line);
  }
  // shadow from what the database really holds
  {
    std::map<int, DBRow> rows; uint64_t ep = 0; std::string err; struct stat st;
    if (stat(dbPath.c_str(), &st) == 0 && st.st_size > 0 && readDB(dbPath, cv, rows, ep, err)) {
      cx.buildNo = ep;
      for (auto& kv : rows) { Shadow& sh = cx.shadow[kv.first]; sh.has = true; sh.value = kv.second.value; sh.sig = kv.second.sig; sh.builtAt = kv.second.builtAt; sh.computedAt = kv.second.computedAt; sh.deps = kv.second.deps;
        sh.interrupted = kv.second.builtAt == 0;   // built_at == 0 is the engine's marker for a record it invalidated when a build was cancelled: the rule is re-run
      }
    }
  }
  if (!logPath.empty()) gLogFd = open(logPath.c_str(), O_WRONLY | O_CREAT | O_APPEND, 0644);
  cx.onBeforeComplete = [&](TaskCore& t) {
    if (gLogFd < 0) return;
    std::string deps; for (auto& d : t.issued) deps += std::to_string(d.key) + (d.orderOnly ? "o" : "") + (d.singleUse ? "s" : "") + ",";
    for (int lf : t.comp.leaves) deps += std::to_string(lf) + ",";
    std::string line = "E " + std::to_string(t.key) + " " + vf::hex(t.comp.value) + " [" + deps + "]\n";
    if (gProg.keys[t.key].hasExtOut) line += "O " + std::to_string(t.key) + " " + vf::hex(t.comp.value) + "\n";
    ssize_t w = write(gLogFd, line.data(), line.size()); (void)w;
  };
  cx.sched = a.has("defer") ? Sched::S1Deferred : Sched::S0Sync; cx.chooser.random = true; cx.chooser.rng = vf::Rng(seed + index + oi);
  std::string result; BuildTrace tr;
  {
    CppFront f(cx); std::string err;
    if (!f.attachDB(dbPath, cv, true, &err)) cx.viol("harness: attachDB failed", err);
    cx.cancelFn = [&]() { f.cancel(); };
    cx.cancelAtStep = a.has("cancel-step") ? (long)a.u("cancel-step", 0) : -1;
    gHookCtx = &cx; cx.beginBuild(target); result = f.build(gProg.keys[target].name); cx.endBuild(result); gHookCtx = nullptr;
    tr = cx.traces.back();
  }
  // M-db against the shadow, with an independent reader
  {
    std::map<int, DBRow> rows; uint64_t ep = 0; std::string err;
    if (!readDB(dbPath, cv, rows, ep, err)) cx.viol("M-db: database unreadable after a completed build", err);
    else for (size_t k = 0; k < gProg.keys.size(); ++k) {
      const Shadow& sh = cx.shadow[k]; auto it = rows.find((int)k);
      if (!sh.has) { if (it != rows.end()) cx.viol("M-db: database holds a result for a key whose task never completed", cx.kdesc((int)k)); continue; }
      if (it == rows.end()) { cx.viol("M-db: stored result missing", cx.kdesc((int)k)); continue; }
      if (it->second.value != sh.value) cx.viol("M-db: stored value differs from the value the task produced", cx.kdesc((int)k));
      if (!(it->second.deps == sh.deps)) cx.viol("M-db: stored dependency list differs", cx.kdesc((int)k));
    }
  }
  for (auto& v : cx.violations) printf("{\"viol\":%s,\"witness\":{\"detail\":%s}}\n", vf::jstr(v.key).c_str(), vf::jstr(v.detail).c_str());
  s.nextOp = oi; s.w = cx.world; saveState(statePath, s);
  printf("{\"summary\":{\"target\":%d,\"success\":%s,\"cancelled\":%s,\"executed\":%lu,\"up_to_date\":%lu,\"steps\":%ld,\"next\":%zu,\"ops\":%zu,\"violations\":%zu}}\n", target, tr.success ? "true" : "false", tr.cancelled ? "true" : "false",
         cx.nExecuted, cx.nUpToDate, cx.step, oi, gHist.size(), cx.violations.size());
  return 0;
}
