// Generated "programs" for the engine monitor: keys, requests (static / dynamic / discovered), output
// functions, the external world, and the pure reference evaluator (DESIGN.md 2.1, 2.4 M-value cross-check).
#ifndef EM_PROGRAM_H
#define EM_PROGRAM_H

#include "common.h"
#include <algorithm>
#include <functional>
#include <set>
#include <string>
#include <vector>

namespace em {

enum ReqMode { Normal = 0, SingleUse = 1, MustFollow = 2 };

struct Req { int key; int mode; };
struct Dyn { int onInput; unsigned pmod, prem; Req req; };

struct KeyDef {
  std::string name;
  bool isInput = false;
  std::vector<Req> statics;
  std::vector<Dyn> dyns;           // request inputID = statics.size() + index
  std::vector<int> leafCandidates; // input keys this key may read directly and report as discovered
  unsigned discoverCount = 0;
  std::vector<int> discKeys;       // computed keys reported as discovered dependencies at completion; their value is not read
  unsigned modulus = 0;            // 0: full hash; else value = hash % modulus (identical recomputes are common)
  bool forceChange = false;
  bool hasExtOut = false;
  unsigned valueStyle = 0;         // 0: 8 bytes; 1: decimal text; 2: hostile (lengths 0..300, all byte values); 3: large
  uint64_t sigVersion = 1;
};

struct Program {
  std::vector<KeyDef> keys;
  int find(const std::string& n) const { for (size_t i = 0; i < keys.size(); ++i) if (keys[i].name == n) return (int)i; return -1; }
};

struct World {
  std::vector<std::string> ext;   // current external value of input keys
  std::vector<std::string> out;   // external output written by computed keys that have one
  std::vector<char> outPresent;
  void init(size_t n) { ext.assign(n, "0"); out.assign(n, ""); outPresent.assign(n, 0); }
};

inline uint64_t hashStr(const std::string& s) { return vf::fnv(s); }
inline bool dynFires(const Dyn& d, const std::string& v) { return hashStr(v) % d.pmod == d.prem; }

inline std::string encodeValue(const KeyDef& k, uint64_t h) {
  if (k.modulus) h %= k.modulus;
  switch (k.valueStyle) {
  default:
  case 0: { std::string s(8, 0); for (int i = 0; i < 8; ++i) s[i] = (char)(h >> (8 * i)); return s; }
  case 1: return std::to_string(h);
  case 2: { // hostile: length from the hash (0 allowed), all byte values incl. NUL and 0xFF
    static const unsigned lens[] = {0, 1, 2, 7, 8, 9, 64, 300};
    unsigned n = lens[h % 8]; std::string s(n, 0); uint64_t x = h | 1;
    for (unsigned i = 0; i < n; ++i) { x = x * 6364136223846793005ull + 1442695040888963407ull; s[i] = (char)(x >> 56); }
    if (n >= 2 && (h & 8)) { s[0] = 0; s[n - 1] = (char)0xFF; }
    return s; }
  case 3: { std::string s(1 << 20, 0); uint64_t x = h | 1; for (auto& c : s) { x = x * 6364136223846793005ull + 1442695040888963407ull; c = (char)(x >> 56); } return s; }
  }
}

// The output function shared by the task implementation and the evaluator.
struct Computation {
  uint64_t h;
  explicit Computation(const KeyDef& k) { h = vf::fnv(k.name); h = vf::fnv(&k.sigVersion, sizeof k.sigVersion, h); }
  void normalInput(unsigned inputID, const std::string& v) { h = vf::fnv(&inputID, sizeof inputID, h); uint64_t n = v.size(); h = vf::fnv(&n, 8, h); h = vf::fnv(v, h); }
  // leaves are chosen from the hash of the normal inputs
  std::vector<int> chooseLeaves(const KeyDef& k) const {
    std::vector<int> r;
    if (!k.discoverCount || k.leafCandidates.empty()) return r;
    size_t n = k.leafCandidates.size(), start = h % n;
    for (size_t i = 0; i < k.discoverCount && i < n; ++i) r.push_back(k.leafCandidates[(start + i) % n]);
    return r;
  }
  void leaf(const std::string& name, const std::string& v) { h = vf::fnv(name, h); uint64_t n = v.size(); h = vf::fnv(&n, 8, h); h = vf::fnv(v, h); }
};

// ---------------------------------------------------------------------------------------------- reference evaluator
struct EvalResult { bool cycle = false; std::string value; };

struct Evaluator {
  const Program& p; const World& w;
  std::vector<int> state;  // 0 unknown 1 in progress 2 done 3 cycle
  std::vector<std::string> val;
  std::vector<std::vector<Req>> madeReqs;  // requests actually made (in issue order: statics, then fired dyns)
  std::vector<std::vector<int>> leaves;
  Evaluator(const Program& p, const World& w) : p(p), w(w), state(p.keys.size(), 0), val(p.keys.size()), madeReqs(p.keys.size()), leaves(p.keys.size()) {}

  EvalResult eval(int k) {
    EvalResult r;
    if (state[k] == 2) { r.value = val[k]; return r; }
    if (state[k] == 1 || state[k] == 3) { r.cycle = true; return r; }
    const KeyDef& kd = p.keys[k];
    if (kd.isInput) { state[k] = 2; val[k] = w.ext[k]; r.value = val[k]; return r; }
    state[k] = 1;
    size_t ns = kd.statics.size();
    std::vector<char> made(ns + kd.dyns.size(), 0);
    std::vector<std::string> got(ns + kd.dyns.size());
    bool cyc = false;
    auto doReq = [&](size_t id, const Req& rq) {
      made[id] = 1; madeReqs[k].push_back(rq);
      EvalResult e = eval(rq.key);
      if (e.cycle) { cyc = true; return; }
      got[id] = e.value;
    };
    for (size_t i = 0; i < ns && !cyc; ++i) doReq(i, kd.statics[i]);
    // dynamic requests fire when the value for their trigger arrives; iterate to a fixpoint in id order
    bool progress = true;
    std::vector<char> considered(kd.dyns.size(), 0);
    while (progress && !cyc) {
      progress = false;
      for (size_t j = 0; j < kd.dyns.size() && !cyc; ++j) {
        if (considered[j]) continue;
        const Dyn& d = kd.dyns[j];
        if (!made[d.onInput]) continue;
        considered[j] = 1; progress = true;
        if (dynFires(d, got[d.onInput])) doReq(ns + j, d.req);
      }
    }
    if (cyc) { state[k] = 3; r.cycle = true; return r; }
    Computation c(kd);
    for (size_t id = 0; id < made.size(); ++id) {
      if (!made[id]) continue;
      int mode = id < ns ? kd.statics[id].mode : kd.dyns[id - ns].req.mode;
      if (mode == Normal) c.normalInput((unsigned)id, got[id]);
    }
    leaves[k] = c.chooseLeaves(kd);
    for (int lf : leaves[k]) c.leaf(p.keys[lf].name, w.ext[lf]);
    val[k] = encodeValue(kd, c.h); state[k] = 2; r.value = val[k];
    return r;
  }
};

// ---------------------------------------------------------------------------------------------- generator
struct GenOptions {
  unsigned minKeys = 3, maxKeys = 10;
  bool hostileNames = false, hostileValues = false, largeValues = false;
  bool allowCycles = false;     // C07: requests may point anywhere
  bool discoverComputed = true;  // a task may report a computed key as a discovered dependency (value not read): a lower-indexed one, or with allowCycles any key, also one that depends on it
  bool singleUse = true, mustFollow = true, discovered = true, dynamic = true, extOut = true, forceChange = true;
  unsigned modulusNum = 1, modulusDen = 3;   // share of keys whose value is reduced modulo a small number (identical recomputes)
  unsigned oddModeWeight = 1;                 // weight (out of 10, per kind) of single-use and must-follow requests
};

inline std::string hostileName(vf::Rng& r, size_t idx) {
  static const std::vector<std::string> numeric = {"1", "01", "1.0", "1e3", " 7", "-0", "+5", ".5", "0x1F", "1e400", "7", "007", "7.0", "1000", "0", "00", "-0.0", "5", "0.5", "31"};
  switch (r.below(10)) {
  case 0: case 1: case 2: return r.pick(numeric);
  case 3: return std::string("k\0x", 3) + std::to_string(idx);
  case 4: { std::string s = "b"; s += (char)0xFF; s += (char)0xFE; s += (char)0x80; return s + std::to_string(idx); }
  case 5: return "";
  case 6: return std::string(r.chance(1, 8) ? 100000 : 300, 'L') + std::to_string(idx);
  case 7: return "pre";
  case 8: return "prefix" + std::string(r.below(3), 'x');
  default: return "K" + std::to_string(idx);
  }
}

inline Program generate(vf::Rng& r, const GenOptions& o) {
  Program p;
  size_t n = o.minKeys + r.below(o.maxKeys - o.minKeys + 1);
  size_t nInputs = 1 + r.below(std::max<size_t>(1, n / 2));
  if (nInputs >= n) nInputs = n - 1;
  std::set<std::string> used;
  for (size_t i = 0; i < n; ++i) {
    KeyDef k;
    k.isInput = i < nInputs;
    for (int tries = 0;; ++tries) {
      k.name = (o.hostileNames && tries < 20) ? hostileName(r, i) : (std::string(k.isInput ? "in" : "c") + std::to_string(i));
      if (used.insert(k.name).second) break;
    }
    p.keys.push_back(k);
  }
  // some inputs are reachable ONLY as discovered dependencies: the engine first hears of them from a task (possibly on a worker thread)
  size_t nLeafOnly = (o.discovered && nInputs >= 2 && r.chance(1, 2)) ? 1 + r.below(std::min<size_t>(2, nInputs - 1)) : 0;
  for (size_t i = nInputs; i < n; ++i) {
    KeyDef& k = p.keys[i];
    // candidate targets: lower-indexed keys (DAG) or anything but self when cycles are allowed
    std::vector<int> cand;
    for (size_t j = nLeafOnly; j < n; ++j) if (j != i && (o.allowCycles ? (j < i || r.chance(1, 3)) : j < i)) cand.push_back((int)j);
    for (size_t q = cand.size(); q > 1; --q) std::swap(cand[q - 1], cand[r.below(q)]);
    size_t take = std::min<size_t>(cand.size(), 1 + r.below(4));
    size_t pos = 0;
    auto mode = [&]() { unsigned x = (unsigned)r.below(10); if (x < o.oddModeWeight && o.singleUse) return (int)SingleUse; if (x >= o.oddModeWeight && x < 2 * o.oddModeWeight && o.mustFollow) return (int)MustFollow; return (int)Normal; };
    size_t nStatic = take ? 1 + r.below(take) : 0;
    for (; pos < nStatic; ++pos) k.statics.push_back({cand[pos], mode()});
    if (o.dynamic) for (; pos < take; ++pos) {
      // trigger: an earlier request id with Normal mode
      std::vector<int> trig;
      for (size_t id = 0; id < k.statics.size() + k.dyns.size(); ++id) {
        int m = id < k.statics.size() ? k.statics[id].mode : k.dyns[id - k.statics.size()].req.mode;
        if (m == Normal) trig.push_back((int)id);
      }
      if (trig.empty()) break;
      Dyn d; d.onInput = r.pick(trig); d.pmod = 2 + (unsigned)r.below(2); d.prem = (unsigned)r.below(d.pmod); d.req = {cand[pos], mode()};
      k.dyns.push_back(d);
    }
    if (o.discovered && r.chance(1, 3)) {
      for (size_t q = 0; q < nLeafOnly; ++q) k.leafCandidates.push_back((int)q);
      for (size_t q = pos; q < cand.size(); ++q) if (p.keys[cand[q]].isInput) k.leafCandidates.push_back(cand[q]);
      if (!k.leafCandidates.empty()) k.discoverCount = 1 + (unsigned)r.below(std::min<size_t>(2, k.leafCandidates.size()));
    }
    if (o.discoverComputed && r.chance(1, 4)) {
      std::vector<int> cc; for (size_t q = 0; q < p.keys.size(); ++q) if (!p.keys[q].isInput && q != i && (o.allowCycles || q < i)) cc.push_back((int)q);
      if (!cc.empty()) { k.discKeys.push_back(r.pick(cc)); if (cc.size() > 1 && r.chance(1, 3)) { int y = r.pick(cc); if (y != k.discKeys[0]) k.discKeys.push_back(y); } }
    }
    if (r.chance(o.modulusNum, o.modulusDen)) k.modulus = 1 + (unsigned)r.below(3);
    if (o.forceChange && r.chance(1, 12)) k.forceChange = true;
    if (o.extOut && r.chance(1, 4)) k.hasExtOut = true;
    k.valueStyle = o.hostileValues ? (r.chance(1, 2) ? 2 : (unsigned)r.below(2)) : (unsigned)r.below(2);
    if (o.largeValues && r.chance(1, 40)) k.valueStyle = 3;
  }
  // A leaf that one key reads directly (and reports as discovered) is often also a declared input of a sibling: the parent of the
  // discovering key requests the leaf itself, so that the leaf's task can be in flight for another consumer when it is discovered.
  if (o.discovered) for (size_t i = nInputs; i < n; ++i) {
    const KeyDef& k = p.keys[i];
    if (!k.discoverCount || k.leafCandidates.empty() || !r.chance(1, 2)) continue;
    for (size_t q = nInputs; q < n; ++q) {
      KeyDef& par = p.keys[q];
      if (q == i) continue;
      bool requestsK = false; for (auto& rq : par.statics) if (rq.key == (int)i && rq.mode == Normal) requestsK = true;
      if (!requestsK) continue;
      int leaf = r.pick(k.leafCandidates);
      bool has = false; for (auto& rq : par.statics) if (rq.key == leaf) has = true;
      for (auto& d : par.dyns) if (d.req.key == leaf) has = true;
      if (has || leaf == (int)q) continue;
      size_t oldStatics = par.statics.size();
      par.statics.push_back({leaf, Normal});
      for (auto& d : par.dyns) if ((size_t)d.onInput >= oldStatics) d.onInput += 1;   // dynamic request ids follow the static ones
      break;
    }
  }
  return p;
}

inline std::string describe(const Program& p) {
  std::string s = "[";
  for (size_t i = 0; i < p.keys.size(); ++i) {
    const KeyDef& k = p.keys[i];
    if (i) s += ",";
    s += "{\"i\":" + std::to_string(i) + ",\"name\":" + vf::jstr(k.name.size() > 40 ? k.name.substr(0, 40) + "..." : k.name);
    if (k.isInput) { s += ",\"input\":true}"; continue; }
    s += ",\"req\":[";
    for (size_t j = 0; j < k.statics.size(); ++j) s += (j ? "," : "") + std::string("\"") + std::to_string(k.statics[j].key) + "nsm"[k.statics[j].mode] + "\"";
    s += "],\"dyn\":[";
    for (size_t j = 0; j < k.dyns.size(); ++j) { const Dyn& d = k.dyns[j]; s += (j ? "," : "") + std::string("\"on") + std::to_string(d.onInput) + "%" + std::to_string(d.pmod) + "=" + std::to_string(d.prem) + "->" + std::to_string(d.req.key) + "nsm"[d.req.mode] + "\""; }
    s += "]";
    if (k.discoverCount) { s += ",\"disc\":" + std::to_string(k.discoverCount) + ",\"leaves\":["; for (size_t j = 0; j < k.leafCandidates.size(); ++j) s += (j ? "," : "") + std::to_string(k.leafCandidates[j]); s += "]"; }
    if (!k.discKeys.empty()) { s += ",\"disckeys\":["; for (size_t j = 0; j < k.discKeys.size(); ++j) s += (j ? "," : "") + std::to_string(k.discKeys[j]); s += "]"; }
    if (k.modulus) s += ",\"mod\":" + std::to_string(k.modulus);
    if (k.forceChange) s += ",\"force\":true";
    if (k.hasExtOut) s += ",\"extout\":true";
    s += ",\"sig\":" + std::to_string(k.sigVersion) + "}";
  }
  return s + "]";
}

}  // namespace em
#endif
