// C front end: presents the same generated program to the engine only through the libllbuild C interface
// (llbuild/llbuild.h: core.h). Used by the C20 differential.
#ifndef EM_FRONT_C_H
#define EM_FRONT_C_H

#include "em_monitor.h"
#include <llbuild/llbuild.h>

namespace em {

struct COps : TaskOps {
  llb_task_interface_t ti;
  explicit COps(llb_task_interface_t ti) : ti(ti) {}
  static llb_data_t d(const std::string& s) { llb_data_t x; x.length = s.size(); x.data = (const uint8_t*)s.data(); return x; }
  void request(const std::string& key, uintptr_t id) override { llb_data_t k = d(key); llb_buildengine_task_needs_input(ti, &k, wireInputID(id)); }
  void requestSingleUse(const std::string& key, uintptr_t id) override { request(key, id); /* not expressible in the C interface; never generated for it */ }
  void mustFollow(const std::string& key) override { llb_data_t k = d(key); llb_buildengine_task_must_follow(ti, &k); }
  void discovered(const std::string& key) override { llb_data_t k = d(key); llb_buildengine_task_discovered_dependency(ti, &k); }
  void complete(const std::string& value, bool force) override { llb_data_t v = d(value); llb_buildengine_task_is_complete(ti, &v, force); }
  TaskOps* clone() const override { return new COps(ti); }
};

struct CRuleCtx { Ctx* cx; int k; };
struct CTaskCtx { TaskCore core; CTaskCtx(Ctx& cx, int k) : core(cx, k) {} };

struct CFront : EngineFront {
  Ctx& cx; llb_buildengine_t* engine = nullptr;
  std::vector<CRuleCtx*> ruleCtxs;

  static std::string s(const llb_data_t* d) { return std::string((const char*)d->data, d->length); }

  static llb_task_t* createTask(void* context, void*) {
    CRuleCtx* rc = (CRuleCtx*)context;
    rc->cx->onCreateTask(rc->k);
    llb_task_delegate_t td; memset(&td, 0, sizeof td);
    td.context = new CTaskCtx(*rc->cx, rc->k);
    td.destroy_context = [](void* c) { delete (CTaskCtx*)c; };
    td.start = [](void* c, void*, llb_task_interface_t ti) { COps o(ti); ((CTaskCtx*)c)->core.onStart(o); };
    td.provide_value = [](void* c, void*, llb_task_interface_t ti, uintptr_t id, const llb_data_t* v) { COps o(ti); ((CTaskCtx*)c)->core.onProvide(o, unwireInputID(id), nullptr, s(v)); };
    td.inputs_available = [](void* c, void*, llb_task_interface_t ti) { COps o(ti); ((CTaskCtx*)c)->core.onInputsAvailable(o); };
    return llb_task_create(td);
  }
  static bool isResultValid(void* context, void*, const llb_rule_t*, const llb_data_t* v) { CRuleCtx* rc = (CRuleCtx*)context; return rc->cx->onIsResultValid(rc->k, s(v)); }
  static void updateStatus(void* context, void*, llb_rule_status_kind_t kind) { CRuleCtx* rc = (CRuleCtx*)context; rc->cx->onStatus(rc->k, (int)kind); }

  explicit CFront(Ctx& cx) : cx(cx) {
    llb_buildengine_delegate_t d; memset(&d, 0, sizeof d);
    d.context = this;
    d.lookup_rule = [](void* c, const llb_data_t* key, llb_rule_t* out) {
      CFront* f = (CFront*)c;
      int k = f->cx.onLookup(s(key));
      if (k < 0) { f->cx.viol("harness: engine asked for an unknown key", vf::hex(s(key).substr(0, 40))); k = 0; }
      CRuleCtx* rc = new CRuleCtx{&f->cx, k}; f->ruleCtxs.push_back(rc);
      out->context = rc; out->key = *key;
      out->create_task = &CFront::createTask; out->is_result_valid = &CFront::isResultValid; out->update_status = &CFront::updateStatus;
    };
    d.error = [](void* c, const char* m) { ((CFront*)c)->cx.onError(m); };
    d.cycle_detected = [](void* c, const llb_data_t* keys, uint64_t n) {
      CFront* f = (CFront*)c; std::vector<int> ks; for (uint64_t i = 0; i < n; ++i) ks.push_back(f->cx.prog->find(s(&keys[i]))); f->cx.onCycle(ks);
    };
    engine = llb_buildengine_create(d);
  }
  ~CFront() override { llb_buildengine_destroy(engine); for (auto* r : ruleCtxs) delete r; }
  bool attachDB(const std::string& path, uint32_t clientVersion, bool, std::string* err) override {
    llb_data_t p = COps::d(path); char* e = nullptr;
    bool ok = llb_buildengine_attach_db(engine, &p, clientVersion, &e);
    if (e) { *err = e; free(e); }
    return ok;
  }
  std::string build(const std::string& key) override { llb_data_t k = COps::d(key), r; memset(&r, 0, sizeof r); llb_buildengine_build(engine, &k, &r); return std::string((const char*)r.data, r.length); }
  void cancel() override {}
  void reset() override {}
  bool supportsReset() const override { return false; }
};

inline EngineFront* makeCFront(Ctx& cx) { return new CFront(cx); }

}  // namespace em
#endif
