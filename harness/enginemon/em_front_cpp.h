// C++ front end: presents a generated program to the real llbuild::core::BuildEngine.
#ifndef EM_FRONT_CPP_H
#define EM_FRONT_CPP_H

#include "em_monitor.h"

#include "llbuild/Basic/ExecutionQueue.h"
#include "llbuild/Core/BuildDB.h"
#include "llbuild/Core/BuildEngine.h"
#include "llbuild/Core/VerifHooks.h"

namespace em {
using namespace llbuild;
using namespace llbuild::core;

inline std::string toStr(const ValueType& v) { return std::string((const char*)v.data(), v.size()); }
inline ValueType toVal(const std::string& s) { return ValueType(s.begin(), s.end()); }

struct CppOps : TaskOps {
  TaskInterface ti;
  explicit CppOps(TaskInterface ti) : ti(ti) {}
  void request(const std::string& key, uintptr_t id) override { ti.request(KeyType(key), wireInputID(id)); }
  void requestSingleUse(const std::string& key, uintptr_t id) override { ti.requestSingleUse(KeyType(key), wireInputID(id)); }
  void mustFollow(const std::string& key) override { ti.mustFollow(KeyType(key)); }
  void discovered(const std::string& key) override { ti.discoveredDependency(KeyType(key)); }
  void complete(const std::string& value, bool force) override { ti.complete(toVal(value), force); }
  TaskOps* clone() const override { return new CppOps(ti); }
  struct Desc : basic::JobDescriptor {
    StringRef getOrdinalName() const override { return "enginemon"; }
    void getShortDescription(SmallVectorImpl<char>& r) const override { r.push_back('j'); }
    void getVerboseDescription(SmallVectorImpl<char>& r) const override { r.push_back('j'); }
  };
  bool spawn(std::function<void()> fn) override { static Desc d; ti.spawn(basic::QueueJob{&d, [fn](basic::QueueJobContext*) { fn(); }}); return true; }
};

struct CppTask : Task {
  TaskCore core;
  CppTask(Ctx& cx, int key) : core(cx, key) {}
  void start(TaskInterface ti) override { CppOps o(ti); core.onStart(o); }
  void providePriorValue(TaskInterface, const ValueType& v) override { core.onPrior(toStr(v)); }
  void provideValue(TaskInterface ti, uintptr_t id, const KeyType& key, const ValueType& v) override { CppOps o(ti); std::string kn = key.str(); core.onProvide(o, unwireInputID(id), &kn, toStr(v)); }
  void inputsAvailable(TaskInterface ti) override { CppOps o(ti); core.onInputsAvailable(o); }
};

struct CppRule : Rule {
  Ctx& cx; int k;
  CppRule(Ctx& cx, int k, const KeyType& key, uint64_t sig) : Rule(key, basic::CommandSignature(sig)), cx(cx), k(k) {}
  Task* createTask(BuildEngine&) override { cx.onCreateTask(k); return new CppTask(cx, k); }
  bool isResultValid(BuildEngine&, const ValueType& v) override { return cx.onIsResultValid(k, toStr(v)); }
  void updateStatus(BuildEngine&, StatusKind s) override { cx.onStatus(k, (int)s); }
};

struct NullQueueDelegate : basic::ExecutionQueueDelegate {
  void processStarted(basic::ProcessContext*, basic::ProcessHandle, llbuild_pid_t) override {}
  void processHadError(basic::ProcessContext*, basic::ProcessHandle, const Twine&) override {}
  void processHadOutput(basic::ProcessContext*, basic::ProcessHandle, StringRef) override {}
  void processFinished(basic::ProcessContext*, basic::ProcessHandle, const basic::ProcessResult&) override {}
  void queueJobStarted(basic::JobDescriptor*) override {}
  void queueJobFinished(basic::JobDescriptor*) override {}
};

struct CppDelegate : BuildEngineDelegate {
  Ctx& cx; NullQueueDelegate qd; bool laneQueue = false;
  explicit CppDelegate(Ctx& cx) : cx(cx) {}
  std::unique_ptr<basic::ExecutionQueue> createExecutionQueue() override {
    if (laneQueue) return std::unique_ptr<basic::ExecutionQueue>(basic::createLaneBasedExecutionQueue(qd, 4, basic::SchedulerAlgorithm::NamePriority, basic::QualityOfService::Normal, nullptr));
    return basic::createSerialQueue(qd, nullptr);
  }
  std::unique_ptr<Rule> lookupRule(const KeyType& key) override {
    int k = cx.onLookup(key.str());
    if (k < 0) { cx.viol("harness: engine asked for an unknown key", vf::hex(key.str().substr(0, 40))); k = 0; }
    return std::unique_ptr<Rule>(new CppRule(cx, k, key, cx.prog->keys[k].sigVersion));
  }
  void determinedRuleNeedsToRun(Rule* r, Rule::RunReason reason, Rule* input) override {
    cx.onNeedsToRun(static_cast<CppRule*>(r)->k, (int)reason, input ? static_cast<CppRule*>(input)->k : -1);
  }
  bool shouldResolveCycle(const std::vector<Rule*>&, Rule*, Rule::CycleAction action) override {
    return cx.resolveCycles && action == Rule::CycleAction::ForceBuild;
  }
  void cycleDetected(const std::vector<Rule*>& items) override {
    std::vector<int> ks; for (auto* r : items) ks.push_back(static_cast<CppRule*>(r)->k);
    cx.onCycle(ks);
  }
  void error(const Twine& m) override { cx.onError(m.str()); }
};

struct CppFront : EngineFront {
  Ctx& cx; CppDelegate del; std::unique_ptr<BuildEngine> engine;
  explicit CppFront(Ctx& cx) : cx(cx), del(cx), engine(new BuildEngine(del)) {}
  ~CppFront() override { engine.reset(); }
  bool attachDB(const std::string& path, uint32_t clientVersion, bool recreate, std::string* err) override {
    std::unique_ptr<BuildDB> db = createSQLiteBuildDB(path, clientVersion, recreate, err);
    if (!db) return false;
    return engine->attachDB(std::move(db), err);
  }
  std::string build(const std::string& key) override { return toStr(engine->build(KeyType(key))); }
  void cancel() override { engine->cancelBuild(); }
  void reset() override { engine->resetForBuild(); }
  void useLaneQueue() override { del.laneQueue = true; }
};

// the process-wide engine hook dispatches to the context that is currently inside build()
static std::atomic<Ctx*> gHookCtx{nullptr};
inline void engineHook(void*, BuildEngine&, verif::EnginePoint p) { if (Ctx* c = gHookCtx.load()) c->onHook((int)p); }
inline void installHook() { verif::setEngineHook(&engineHook, nullptr); }

// A reader of the database file that is independent of the engine (M-db).
struct DBReader : BuildDBDelegate {
  std::vector<std::string*> names; std::map<std::string, size_t> idx;
  ~DBReader() override { for (auto* p : names) delete p; }
  const KeyID getKeyID(const KeyType& key) override {
    auto it = idx.find(key.str());
    if (it == idx.end()) { names.push_back(new std::string(key.str())); it = idx.insert({key.str(), names.size() - 1}).first; }
    return KeyID((const void*)names[it->second]);
  }
  KeyType getKeyForID(const KeyID id) override { return KeyType(*(const std::string*)(uintptr_t)id); }
  std::string nameOf(KeyID id) { return *(const std::string*)(uintptr_t)id; }
};

}  // namespace em
#endif
