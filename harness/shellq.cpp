// C17 quoting helper: reads strings from stdin, one per line, hex encoded, and prints
// basic::shellEscaped(s) (lib/Basic/ShellUtility.cpp) for each, hex encoded, one per line.
// The Python side hands the result to /bin/sh and compares what the shell sees with s.
#include "llbuild/Basic/ShellUtility.h"

#include "llvm/ADT/SmallString.h"
#include "llvm/Support/raw_ostream.h"

#include "common.h"

#include <iostream>
#include <string>

int main(int argc, char** argv) {
  std::ios::sync_with_stdio(false);
  std::string line, out;
  unsigned long n = 0;
  while (std::getline(std::cin, line)) {
    if (!line.empty() && line.back() == '\r') line.pop_back();
    std::string s = vf::unhex(line);
    std::string a = llbuild::basic::shellEscaped(s);
    // the streaming entry point must agree with the string one
    llvm::SmallString<64> buf;
    llvm::raw_svector_ostream os(buf);
    llbuild::basic::appendShellEscapedString(os, s);
    std::string b = os.str().str();
    out = vf::hex(a);
    if (a != b) out += " MISMATCH " + vf::hex(b);
    out += "\n";
    fwrite(out.data(), 1, out.size(), stdout);
    ++n;
  }
  fflush(stdout);
  fprintf(stderr, "shellq: %lu strings\n", n);
  return 0;
}
