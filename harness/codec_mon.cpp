// C15 monitor: BuildKey / BuildValue codec. Generates a logical model of every key kind and every value kind,
// builds the real object through the public make* functions, and checks
//   round trip   fromData(toData(x)) equals the model in kind and in every accessor,
//   canonicity   toData(fromData(toData(x))) == toData(x); a copy / a move of x encodes identically,
//   injectivity  a single-field mutation of the model (a logically different object) encodes differently, and no two
//                different models seen by this shard share an encoding,
//   kind tags    identifiers of distinct kinds are distinct and kindForIdentifier(identifierForKind(k)) == k.
// Only values the API contract allows are generated (>= 1 output info, existing-input info not the missing sentinel,
// NUL-free strings in string lists, which are NUL separated).
#include "common.h"
#include "llbuild/Basic/FileInfo.h"
#include "llbuild/Basic/Hashing.h"
#include "llbuild/BuildSystem/BuildKey.h"
#include "llbuild/BuildSystem/BuildValue.h"

#include <algorithm>
#include <set>

// distinct 64-bit hashes, counted by sort + unique at the end (8 bytes per insertion instead of a tree node)
struct HashBag {
  std::vector<uint64_t> v;
  void insert(uint64_t h) { v.push_back(h); if (v.size() >= (1u << 24)) compact(); }
  void compact() { std::sort(v.begin(), v.end()); v.erase(std::unique(v.begin(), v.end()), v.end()); }
  size_t size() { compact(); return v.size(); }
};
#include <unordered_map>

using namespace llbuild;
using namespace llbuild::basic;
using namespace llbuild::buildsystem;
using vf::jstr;

typedef BuildKey::Kind KK;
typedef BuildValue::Kind VK;

static unsigned long nViol = 0;
static std::map<std::string, unsigned long> violCount;
static void report(const std::string& key, const std::string& witnessJson) {
  ++nViol;
  if (++violCount[key] <= 3) printf("{\"viol\":%s,\"witness\":%s}\n", jstr(key).c_str(), witnessJson.c_str());
}

// ---------------------------------------------------------------- byte-string generators
static std::string genBytes(vf::Rng& r, bool allowNul, size_t maxLen = 24) {
  size_t n;
  unsigned p = r.below(100);
  if (p < 8) n = 0;
  else if (p < 20) n = 1;
  else if (p < 90) n = 1 + r.below(maxLen);
  else if (p < 98) n = 1 + r.below(4 * maxLen);
  else n = 250 + r.below(300);  // crosses the encoder's 256 byte inline storage
  std::string s(n, 0);
  unsigned style = r.below(4);
  static const char special[] = {'C', 'D', 'd', 'N', 'I', 'S', 's', 'T', 'X', ' ', '/', 'a', 'b', (char)0xff, (char)0x80, 1, 2, 4, 16, 17, 64};
  for (size_t i = 0; i < n; ++i) {
    unsigned char c;
    if (style == 0) c = (unsigned char)r.below(256);
    else if (style == 1) c = (unsigned char)special[r.below(sizeof special)];
    else if (style == 2) c = r.chance(1, 4) ? (unsigned char)r.below(8) : (unsigned char)('a' + r.below(4));
    else c = r.chance(1, 6) ? 0 : (unsigned char)r.below(256);
    if (!allowNul && c == 0) c = (unsigned char)(1 + r.below(255));
    s[i] = (char)c;
  }
  return s;
}
static std::vector<std::string> genList(vf::Rng& r, unsigned maxN) {
  std::vector<std::string> v;
  unsigned n = r.below(maxN + 1);
  for (unsigned i = 0; i < n; ++i) v.push_back(r.chance(1, 6) ? std::string() : genBytes(r, false, 10));
  return v;
}

// ---------------------------------------------------------------- keys
struct KeyModel {
  KK kind;
  std::string name, data;            // data: custom task payload
  std::vector<std::string> filters;  // filtered kinds
  bool operator==(const KeyModel& o) const { return kind == o.kind && name == o.name && data == o.data && filters == o.filters; }
};
static const KK keyKinds[] = {KK::Command, KK::CustomTask, KK::DirectoryContents, KK::FilteredDirectoryContents, KK::DirectoryTreeSignature,
                              KK::DirectoryTreeStructureSignature, KK::Node, KK::Stat, KK::Target};
static const unsigned nKeyKinds = sizeof keyKinds / sizeof keyKinds[0];
static bool keyHasFilters(KK k) { return k == KK::FilteredDirectoryContents || k == KK::DirectoryTreeSignature || k == KK::DirectoryTreeStructureSignature; }

static std::string listJson(const std::vector<std::string>& v) {
  std::string o = "[";
  for (size_t i = 0; i < v.size(); ++i) o += (i ? "," : "") + ("\"" + vf::hex(v[i]) + "\"");
  return o + "]";
}
static std::string keyJson(const KeyModel& m) {
  return "{\"kind\":" + jstr(BuildKey::stringForKind(m.kind).str()) + ",\"name_hex\":\"" + vf::hex(m.name) + "\",\"data_hex\":\"" + vf::hex(m.data) +
         "\",\"filters_hex\":" + listJson(m.filters) + "}";
}
static std::string keySerial(const KeyModel& m) {  // injective serialisation of the model, for the global collision map
  std::string s = std::to_string((int)m.kind) + "|" + std::to_string(m.name.size()) + ":" + m.name + "|" + std::to_string(m.data.size()) + ":" + m.data + "|";
  for (auto& f : m.filters) s += std::to_string(f.size()) + ":" + f + ",";
  return s;
}

static BuildKey makeKey(const KeyModel& m) {
  switch (m.kind) {
  case KK::Command: return BuildKey::makeCommand(m.name);
  case KK::CustomTask: return BuildKey::makeCustomTask(m.name, m.data);
  case KK::DirectoryContents: return BuildKey::makeDirectoryContents(m.name);
  case KK::FilteredDirectoryContents: return BuildKey::makeFilteredDirectoryContents(m.name, StringList(ArrayRef<std::string>(m.filters)));
  case KK::DirectoryTreeSignature: return BuildKey::makeDirectoryTreeSignature(m.name, StringList(ArrayRef<std::string>(m.filters)));
  case KK::DirectoryTreeStructureSignature: return BuildKey::makeDirectoryTreeStructureSignature(m.name, StringList(ArrayRef<std::string>(m.filters)));
  case KK::Node: return BuildKey::makeNode(m.name);
  case KK::Stat: return BuildKey::makeStat(m.name);
  case KK::Target: return BuildKey::makeTarget(m.name);
  default: break;
  }
  fprintf(stderr, "harness: bad key kind\n");
  _exit(2);
}

// Compare every accessor that is legal for the kind with the model. Returns a description of the first difference or "".
static std::string keyDiff(const BuildKey& k, const KeyModel& m) {
  if (k.getKind() != m.kind) return "getKind";
  bool preds[] = {k.isCommand(), k.isCustomTask(), k.isDirectoryContents(), k.isFilteredDirectoryContents(), k.isDirectoryTreeSignature(),
                  k.isDirectoryTreeStructureSignature(), k.isNode(), k.isStat(), k.isTarget()};
  for (unsigned i = 0; i < nKeyKinds; ++i)
    if (preds[i] != (keyKinds[i] == m.kind)) return "is<Kind> predicate";
  auto eq = [](StringRef a, const std::string& b) { return a.size() == b.size() && memcmp(a.data(), b.data(), b.size()) == 0; };
  switch (m.kind) {
  case KK::Command: if (!eq(k.getCommandName(), m.name)) return "getCommandName"; break;
  case KK::CustomTask:
    if (!eq(k.getCustomTaskName(), m.name)) return "getCustomTaskName";
    if (!eq(k.getCustomTaskData(), m.data)) return "getCustomTaskData";
    break;
  case KK::DirectoryContents: if (!eq(k.getDirectoryPath(), m.name)) return "getDirectoryPath"; break;
  case KK::FilteredDirectoryContents:
  case KK::DirectoryTreeStructureSignature: if (!eq(k.getFilteredDirectoryPath(), m.name)) return "getFilteredDirectoryPath"; break;
  case KK::DirectoryTreeSignature: if (!eq(k.getDirectoryTreeSignaturePath(), m.name)) return "getDirectoryTreeSignaturePath"; break;
  case KK::Node: if (!eq(k.getNodeName(), m.name)) return "getNodeName"; break;
  case KK::Stat: if (!eq(k.getStatName(), m.name)) return "getStatName"; break;
  case KK::Target: if (!eq(k.getTargetName(), m.name)) return "getTargetName"; break;
  default: break;
  }
  if (keyHasFilters(m.kind)) {
    StringList sl = k.getContentExclusionPatternsAsStringList();
    std::vector<StringRef> got = sl.getValues();
    if (got.size() != m.filters.size()) return "getContentExclusionPatternsAsStringList (count)";
    for (size_t i = 0; i < got.size(); ++i)
      if (!eq(got[i], m.filters[i])) return "getContentExclusionPatternsAsStringList (element)";
    // the raw pattern blob must be exactly the encoding of the list
    BinaryEncoder e;
    StringList(ArrayRef<std::string>(m.filters)).encode(e);
    StringRef raw = k.getContentExclusionPatterns();
    if (raw.size() != e.size() || memcmp(raw.data(), e.data(), e.size()) != 0) return "getContentExclusionPatterns";
  }
  return "";
}

static bool avoidEmptyPayload = false;  // set by --avoid custom-empty-data once the probe has recorded that defect
static KeyModel genKey(vf::Rng& r) {
  KeyModel m;
  m.kind = keyKinds[r.below(nKeyKinds)];
  m.name = genBytes(r, true);
  if (m.kind == KK::CustomTask) {
    m.data = genBytes(r, true);
    while (avoidEmptyPayload && m.data.empty()) m.data = genBytes(r, true);
  }
  if (keyHasFilters(m.kind)) m.filters = genList(r, 5);
  return m;
}

static void mutateBytes(vf::Rng& r, std::string& s, bool allowNul) {
  unsigned w = r.below(4);
  if (s.empty() || w == 0) { s.insert(s.begin() + r.below(s.size() + 1), (char)(allowNul ? r.below(256) : 1 + r.below(255))); return; }
  if (w == 1) { s.erase(s.begin() + r.below(s.size())); return; }
  size_t i = r.below(s.size());
  char c = (char)(s[i] ^ (1 << r.below(8)));
  if (!allowNul && c == 0) c = (char)(s[i] ^ 0x41 ? s[i] ^ 0x41 : 0x42);
  s[i] = c;
}
static const char* mutateList(vf::Rng& r, std::vector<std::string>& v) {
  unsigned w = r.below(7);
  if (w == 0 || v.empty()) { v.push_back(""); return "list: append empty string"; }
  if (w == 1) { v.pop_back(); return "list: drop last"; }
  if (w == 2) { v.insert(v.begin() + r.below(v.size() + 1), ""); return "list: insert empty string"; }
  size_t i = r.below(v.size());
  if (w == 3 && v[i].size() >= 2) { size_t c = 1 + r.below(v[i].size() - 1); std::string b = v[i].substr(c); v[i].resize(c); v.insert(v.begin() + i + 1, b); return "list: split one string"; }
  if (w == 4 && i + 1 < v.size()) { v[i] += v[i + 1]; v.erase(v.begin() + i + 1); return "list: join two strings"; }
  if (w == 5 && i + 1 < v.size() && v[i] != v[i + 1]) { std::swap(v[i], v[i + 1]); return "list: swap neighbours"; }
  mutateBytes(r, v[i], false);
  return "list: edit one string";
}

static const char* mutateKey(vf::Rng& r, KeyModel& m) {
  unsigned w = r.below(10);
  if (w == 0) {  // another kind with the same shape
    KK old = m.kind;
    for (int t = 0; t < 50 && m.kind == old; ++t) {
      KK k = keyKinds[r.below(nKeyKinds)];
      if (keyHasFilters(k) == keyHasFilters(old) && (k == KK::CustomTask) == (old == KK::CustomTask)) m.kind = k;
    }
    return "kind changed";
  }
  if (m.kind == KK::CustomTask) {
    if (w <= 3) {  // move one byte across the name / payload boundary
      if (!m.name.empty() && (w == 1 || m.data.empty())) { m.data.insert(m.data.begin(), m.name.back()); m.name.pop_back(); return "boundary: last name byte moved to payload"; }
      if (!m.data.empty()) { m.name.push_back(m.data[0]); m.data.erase(m.data.begin()); return "boundary: first payload byte moved to name"; }
    }
    if (w <= 6) { mutateBytes(r, m.data, true); return "payload edited"; }
  } else if (keyHasFilters(m.kind)) {
    if (w <= 2 && !m.name.empty() && m.name.back() != 0) {  // move the last name byte into the first filter
      if (m.filters.empty()) m.filters.push_back(std::string(1, m.name.back())); else m.filters[0].insert(m.filters[0].begin(), m.name.back());
      m.name.pop_back();
      return "boundary: last name byte moved to first filter";
    }
    if (w == 3 && !m.filters.empty() && !m.filters[0].empty()) { m.name.push_back(m.filters[0][0]); m.filters[0].erase(m.filters[0].begin()); return "boundary: first filter byte moved to name"; }
    if (w <= 7) return mutateList(r, m.filters);
  }
  mutateBytes(r, m.name, true);
  return "name edited";
}

// ---------------------------------------------------------------- values
struct ValModel {
  VK kind;
  uint64_t sig = 0;
  std::vector<FileInfo> infos;
  std::vector<std::string> strings;
};
static const VK valKinds[] = {VK::Invalid, VK::VirtualInput, VK::ExistingInput, VK::MissingInput, VK::DirectoryContents, VK::DirectoryTreeSignature,
                              VK::DirectoryTreeStructureSignature, VK::StaleFileRemoval, VK::MissingOutput, VK::FailedInput, VK::SuccessfulCommand,
                              VK::FailedCommand, VK::PropagatedFailureCommand, VK::CancelledCommand, VK::SkippedCommand, VK::Target,
                              VK::FilteredDirectoryContents, VK::SuccessfulCommandWithOutputSignature};
static const char* valKindName[] = {"Invalid", "VirtualInput", "ExistingInput", "MissingInput", "DirectoryContents", "DirectoryTreeSignature",
                                    "DirectoryTreeStructureSignature", "StaleFileRemoval", "MissingOutput", "FailedInput", "SuccessfulCommand",
                                    "FailedCommand", "PropagatedFailureCommand", "CancelledCommand", "SkippedCommand", "Target",
                                    "FilteredDirectoryContents", "SuccessfulCommandWithOutputSignature"};
static const unsigned nValKinds = sizeof valKinds / sizeof valKinds[0];
static bool vHasSig(VK k) { return k == VK::DirectoryTreeSignature || k == VK::DirectoryTreeStructureSignature || k == VK::SuccessfulCommandWithOutputSignature; }
static bool vHasList(VK k) { return k == VK::DirectoryContents || k == VK::FilteredDirectoryContents || k == VK::StaleFileRemoval; }
static bool vHasInfos(VK k) { return k == VK::ExistingInput || k == VK::SuccessfulCommand || k == VK::SuccessfulCommandWithOutputSignature || k == VK::DirectoryContents; }
static bool vMultiInfos(VK k) { return k == VK::SuccessfulCommand || k == VK::SuccessfulCommandWithOutputSignature; }

static bool fiSame(const FileInfo& a, const FileInfo& b) {  // all seven fields (operator== ignores mode)
  return a.device == b.device && a.inode == b.inode && a.mode == b.mode && a.size == b.size && a.modTime.seconds == b.modTime.seconds &&
         a.modTime.nanoseconds == b.modTime.nanoseconds && memcmp(a.checksum.bytes, b.checksum.bytes, 32) == 0;
}
static std::string fiJson(const FileInfo& f) {
  char b[400];
  snprintf(b, sizeof b, "{\"dev\":%llu,\"ino\":%llu,\"mode\":%llu,\"size\":%llu,\"sec\":%llu,\"nsec\":%llu,\"sum\":\"%s\"}", (unsigned long long)f.device,
           (unsigned long long)f.inode, (unsigned long long)f.mode, (unsigned long long)f.size, (unsigned long long)f.modTime.seconds,
           (unsigned long long)f.modTime.nanoseconds, vf::hex(f.checksum.bytes, 32).c_str());
  return b;
}
static std::string valJson(const ValModel& m) {
  std::string o = std::string("{\"kind\":\"") + valKindName[(unsigned)m.kind] + "\",\"sig\":" + std::to_string(m.sig) + ",\"infos\":[";
  for (size_t i = 0; i < m.infos.size(); ++i) o += (i ? "," : "") + fiJson(m.infos[i]);
  return o + "],\"strings_hex\":" + listJson(m.strings) + "}";
}
static std::string valSerial(const ValModel& m) {
  std::string s = std::to_string((unsigned)m.kind) + "|" + std::to_string(m.sig) + "|";
  for (auto& f : m.infos) s += fiJson(f);
  s += "|";
  for (auto& f : m.strings) s += std::to_string(f.size()) + ":" + f + ",";
  return s;
}
static bool valSame(const ValModel& a, const ValModel& b) { return valSerial(a) == valSerial(b); }

static uint64_t genU64(vf::Rng& r) {
  switch (r.below(6)) {
  case 0: return 0;
  case 1: return r.below(4);
  case 2: return ~0ull - r.below(2);
  case 3: return 1ull << r.below(64);
  default: return r.next();
  }
}
static FileInfo genInfo(vf::Rng& r, bool allowMissing) {
  FileInfo f;
  for (;;) {
    f.device = genU64(r); f.inode = genU64(r); f.mode = genU64(r); f.size = genU64(r);
    f.modTime.seconds = genU64(r); f.modTime.nanoseconds = genU64(r);
    unsigned w = r.below(4);
    for (int i = 0; i < 32; ++i) f.checksum.bytes[i] = w == 0 ? 0 : w == 1 ? (uint8_t)(i == (int)r.below(32)) : (uint8_t)r.below(256);
    if (allowMissing && r.chance(1, 20)) { f.device = f.inode = f.mode = f.size = 0; f.modTime.seconds = f.modTime.nanoseconds = 0; }
    if (allowMissing || !f.isMissing()) return f;
  }
}
static ValModel genVal(vf::Rng& r) {
  ValModel m;
  m.kind = valKinds[r.below(nValKinds)];
  if (vHasSig(m.kind)) m.sig = genU64(r);
  if (vHasInfos(m.kind)) {
    unsigned n = vMultiInfos(m.kind) ? 1 + r.below(6) : 1;
    if (vMultiInfos(m.kind) && r.chance(1, 40)) {   // output counts around the boundaries of one- and two-byte length prefixes
      static const unsigned edge[] = {7, 15, 16, 17, 63, 64, 127, 128, 129, 254, 255, 256, 257, 300, 511, 512, 513, 1000};
      n = edge[r.below(sizeof edge / sizeof edge[0])];
      if (r.chance(1, 60)) { static const unsigned big[] = {65535, 65536, 65537}; n = big[r.below(3)]; }
    }
    for (unsigned i = 0; i < n; ++i) m.infos.push_back(genInfo(r, m.kind != VK::ExistingInput));
  }
  if (vHasList(m.kind)) m.strings = genList(r, 6);
  return m;
}
static BuildValue makeVal(const ValModel& m) {
  switch (m.kind) {
  case VK::Invalid: return BuildValue::makeInvalid();
  case VK::VirtualInput: return BuildValue::makeVirtualInput();
  case VK::ExistingInput: return BuildValue::makeExistingInput(m.infos[0]);
  case VK::MissingInput: return BuildValue::makeMissingInput();
  case VK::DirectoryContents: return BuildValue::makeDirectoryContents(m.infos[0], m.strings);
  case VK::DirectoryTreeSignature: return BuildValue::makeDirectoryTreeSignature(CommandSignature(m.sig));
  case VK::DirectoryTreeStructureSignature: return BuildValue::makeDirectoryTreeStructureSignature(CommandSignature(m.sig));
  case VK::StaleFileRemoval: return BuildValue::makeStaleFileRemoval(m.strings);
  case VK::MissingOutput: return BuildValue::makeMissingOutput();
  case VK::FailedInput: return BuildValue::makeFailedInput();
  case VK::SuccessfulCommand: return BuildValue::makeSuccessfulCommand(m.infos);
  case VK::FailedCommand: return BuildValue::makeFailedCommand();
  case VK::PropagatedFailureCommand: return BuildValue::makePropagatedFailureCommand();
  case VK::CancelledCommand: return BuildValue::makeCancelledCommand();
  case VK::SkippedCommand: return BuildValue::makeSkippedCommand();
  case VK::Target: return BuildValue::makeTarget();
  case VK::FilteredDirectoryContents: return BuildValue::makeFilteredDirectoryContents(m.strings);
  case VK::SuccessfulCommandWithOutputSignature: return BuildValue::makeSuccessfulCommandWithOutputSignature(m.infos, CommandSignature(m.sig));
  }
  fprintf(stderr, "harness: bad value kind\n");
  _exit(2);
}
static std::string valDiff(const BuildValue& v, const ValModel& m) {
  if (v.getKind() != m.kind) return "getKind";
  bool preds[] = {v.isInvalid(), v.isVirtualInput(), v.isExistingInput(), v.isMissingInput(), v.isDirectoryContents(), v.isDirectoryTreeSignature(),
                  v.isDirectoryTreeStructureSignature(), v.isStaleFileRemoval(), v.isMissingOutput(), v.isFailedInput(), false /*SuccessfulCommand*/,
                  v.isFailedCommand(), v.isPropagatedFailureCommand(), v.isCancelledCommand(), v.isSkippedCommand(), v.isTarget(),
                  v.isFilteredDirectoryContents(), false};
  for (unsigned i = 0; i < nValKinds; ++i) {
    if (valKinds[i] == VK::SuccessfulCommand || valKinds[i] == VK::SuccessfulCommandWithOutputSignature) continue;
    if (preds[i] != (valKinds[i] == m.kind)) return "is<Kind> predicate";
  }
  if (v.isSuccessfulCommand() != vMultiInfos(m.kind)) return "isSuccessfulCommand";
  if (vHasInfos(m.kind)) {
    if (v.getNumOutputs() != m.infos.size()) return "getNumOutputs";
    if (v.hasMultipleOutputs() != (m.infos.size() > 1)) return "hasMultipleOutputs";
    for (unsigned i = 0; i < m.infos.size(); ++i)
      if (!fiSame(v.getNthOutputInfo(i), m.infos[i])) return "getNthOutputInfo";
    if (m.infos.size() == 1 && !fiSame(v.getOutputInfo(), m.infos[0])) return "getOutputInfo";
  }
  if (m.kind == VK::DirectoryTreeSignature && v.getDirectoryTreeSignature().value != m.sig) return "getDirectoryTreeSignature";
  if (m.kind == VK::DirectoryTreeStructureSignature && v.getDirectoryTreeStructureSignature().value != m.sig) return "getDirectoryTreeStructureSignature";
  if (m.kind == VK::SuccessfulCommandWithOutputSignature && v.getOutputSignature().value != m.sig) return "getOutputSignature";
  if (vHasList(m.kind)) {
    std::vector<StringRef> got = m.kind == VK::StaleFileRemoval ? v.getStaleFileList() : v.getDirectoryContents();
    if (got.size() != m.strings.size()) return "string list (count)";
    for (size_t i = 0; i < got.size(); ++i)
      if (got[i].size() != m.strings[i].size() || memcmp(got[i].data(), m.strings[i].data(), got[i].size()) != 0) return "string list (element)";
  }
  return "";
}
static const char* mutateVal(vf::Rng& r, ValModel& m) {
  unsigned w = r.below(10);
  if (w == 0) {  // another kind carrying the same fields
    VK old = m.kind;
    for (int t = 0; t < 200 && m.kind == old; ++t) {
      VK k = valKinds[r.below(nValKinds)];
      if (vHasSig(k) != vHasSig(old) || vHasList(k) != vHasList(old) || vHasInfos(k) != vHasInfos(old)) continue;
      if (vHasInfos(k) && !vMultiInfos(k) && m.infos.size() != 1) continue;
      if (k == VK::ExistingInput && m.infos[0].isMissing()) continue;
      m.kind = k;
    }
    return m.kind == old ? nullptr : "kind changed";
  }
  if (vHasSig(m.kind) && w <= 2) { m.sig ^= 1ull << r.below(64); return "signature bit flipped"; }
  if (vHasInfos(m.kind) && w <= 6) {
    if (vMultiInfos(m.kind) && w == 3) { m.infos.push_back(r.chance(1, 2) ? m.infos.back() : genInfo(r, true)); return "output info appended"; }
    if (vMultiInfos(m.kind) && w == 4 && m.infos.size() > 1) { m.infos.erase(m.infos.begin() + r.below(m.infos.size())); return "output info removed"; }
    if (w == 5 && m.infos.size() > 1) {
      size_t i = r.below(m.infos.size() - 1);
      if (!fiSame(m.infos[i], m.infos[i + 1])) { std::swap(m.infos[i], m.infos[i + 1]); return "output infos swapped"; }
    }
    FileInfo& f = m.infos[r.below(m.infos.size())];
    FileInfo save = f;
    unsigned fld = r.below(7);
    uint64_t bit = 1ull << r.below(64);
    const char* what;
    switch (fld) {
    case 0: f.device ^= bit; what = "file info: device bit flipped"; break;
    case 1: f.inode ^= bit; what = "file info: inode bit flipped"; break;
    case 2: f.mode ^= bit; what = "file info: mode bit flipped"; break;
    case 3: f.size ^= bit; what = "file info: size bit flipped"; break;
    case 4: f.modTime.seconds ^= bit; what = "file info: seconds bit flipped"; break;
    case 5: f.modTime.nanoseconds ^= bit; what = "file info: nanoseconds bit flipped"; break;
    default: f.checksum.bytes[r.below(32)] ^= (uint8_t)(1 << r.below(8)); what = "file info: checksum bit flipped"; break;
    }
    if (m.kind == VK::ExistingInput && f.isMissing()) { f = save; return nullptr; }  // would leave the contract
    return what;
  }
  if (vHasList(m.kind)) return mutateList(r, m.strings);
  return nullptr;
}

// ---------------------------------------------------------------- main
int main(int argc, char** argv) {
  vf::Args a(argc, argv);
  uint64_t seed = a.u("seed", 1), cases = a.u("cases", 1000);
  vf::Rng r(seed);
  avoidEmptyPayload = a.s("avoid") == "custom-empty-data";
  if (a.s("probe") == "custom-empty-data") {
    // One in-contract key whose encoder path is suspected of undefined behaviour; run alone so that a sanitizer abort
    // here does not hide everything else. Prints ok when the key survives the round trip.
    KeyModel m;
    m.kind = KK::CustomTask; m.name = "task"; m.data = "";
    BuildKey k = makeKey(m);
    core::KeyType wire(k.toData().str());
    std::string d = keyDiff(BuildKey::fromData(wire), m);
    if (!d.empty()) report("key round trip: " + d + " differs after fromData(toData(x)) for kind CustomTask", keyJson(m));
    printf("{\"summary\":{\"probe\":\"custom-empty-data\",\"ok\":%d}}\n", d.empty() ? 1 : 0);
    return 0;
  }
  unsigned long keysN = 0, valsN = 0, roundTrips = 0, canon = 0, injPairs = 0, collisionsChecked = 0, accessorChecks = 0, copies = 0, kindChecks = 0;
  std::map<std::string, unsigned long> byKind, byMutation;
  HashBag distinct;
  std::unordered_map<std::string, std::string> seenK, seenV;  // encoding -> model serialisation
  const size_t seenCap = 150000;
  std::string sampleK, sampleV;

  // ---- kind identifiers
  {
    const KK all[] = {KK::Command, KK::CustomTask, KK::DirectoryContents, KK::FilteredDirectoryContents, KK::DirectoryTreeSignature,
                      KK::DirectoryTreeStructureSignature, KK::Node, KK::Stat, KK::Target, KK::Unknown};
    std::map<char, KK> ids;
    for (KK k : all) {
      char id = BuildKey::identifierForKind(k);
      ++kindChecks;
      if (ids.count(id)) report("key kinds share an identifier", "{\"id\":" + std::to_string((int)id) + ",\"a\":" + jstr(BuildKey::stringForKind(ids[id]).str()) + ",\"b\":" + jstr(BuildKey::stringForKind(k).str()) + "}");
      ids[id] = k;
      if (BuildKey::kindForIdentifier(id) != k) report("kindForIdentifier(identifierForKind(k)) != k", "{\"kind\":" + jstr(BuildKey::stringForKind(k).str()) + ",\"id\":" + std::to_string((int)id) + "}");
    }
    // value kind tags: the first byte of the encodings of values of distinct kinds must differ, and decode to the kind
    std::map<int, unsigned> tags;
    vf::Rng kr(seed ^ 0x5555);
    for (unsigned i = 0; i < nValKinds; ++i) {
      ValModel m;
      do m = genVal(kr); while (m.kind != valKinds[i]);
      core::ValueType d = makeVal(m).toData();
      ++kindChecks;
      if (d.empty()) { report("value encoding is empty", valJson(m)); continue; }
      if (tags.count(d[0])) report("value kinds share a kind tag", std::string("{\"tag\":") + std::to_string(d[0]) + ",\"a\":\"" + valKindName[tags[d[0]]] + "\",\"b\":\"" + valKindName[i] + "\"}");
      tags[d[0]] = i;
    }
  }

  for (uint64_t c = 0; c < cases; ++c) {
    if (c % 2 == 0) {
      // ------------------------------------------------ key case
      KeyModel m = genKey(r);
      ++keysN;
      ++byKind[std::string("key:") + BuildKey::stringForKind(m.kind).str()];
      BuildKey k = makeKey(m);
      core::KeyType enc = k.toData();
      std::string e1 = enc.str();
      std::string d = keyDiff(k, m);
      ++accessorChecks;
      if (!d.empty()) report("key: accessor " + d + " of a freshly made " + BuildKey::stringForKind(m.kind).str() + " key differs from what it was made of", keyJson(m));
      // decode from an exact copy of the bytes
      core::KeyType wire(e1.data(), e1.size());
      BuildKey k2 = BuildKey::fromData(wire);
      ++roundTrips;
      d = keyDiff(k2, m);
      if (!d.empty()) report("key round trip: " + d + " differs after fromData(toData(x)) for kind " + BuildKey::stringForKind(m.kind).str(), "{\"model\":" + keyJson(m) + ",\"encoding_hex\":\"" + vf::hex(e1) + "\"}");
      ++canon;
      if (k2.toData().str() != e1) report("key canonicity: toData(fromData(toData(x))) != toData(x)", "{\"model\":" + keyJson(m) + ",\"encoding_hex\":\"" + vf::hex(e1) + "\"}");
      if (makeKey(m).toData().str() != e1) report("key canonicity: two equal keys encode differently", keyJson(m));
      // single-field mutation
      KeyModel m2 = m;
      const char* what = mutateKey(r, m2);
      if (what && !(m2 == m) && !(avoidEmptyPayload && m2.kind == KK::CustomTask && m2.data.empty())) {
        ++injPairs;
        ++byMutation[std::string("key ") + what];
        std::string e2 = makeKey(m2).toData().str();
        if (e2 == e1) report(std::string("key injectivity: different keys encode identically (") + what + ")", "{\"a\":" + keyJson(m) + ",\"b\":" + keyJson(m2) + ",\"encoding_hex\":\"" + vf::hex(e1) + "\"}");
      }
      // collision map over everything this shard produced
      std::string ser = keySerial(m);
      auto it = seenK.find(e1);
      ++collisionsChecked;
      if (it != seenK.end()) { if (it->second != ser) report("key injectivity: two different keys generated independently share an encoding", "{\"a\":" + jstr(it->second) + ",\"b\":" + keyJson(m) + "}"); }
      else if (seenK.size() < seenCap) seenK.emplace(e1, ser);
      if (m.name.size() + m.data.size() + m.filters.size() >= 3) distinct.insert(vf::fnv(e1, 7));
      if (sampleK.empty() && keyHasFilters(m.kind) && m.filters.size() >= 2 && m.name.size() > 2 && m.name.size() < 12) sampleK = "{\"model\":" + keyJson(m) + ",\"encoding_hex\":\"" + vf::hex(e1) + "\"}";
    } else {
      // ------------------------------------------------ value case
      ValModel m = genVal(r);
      ++valsN;
      ++byKind[std::string("value:") + valKindName[(unsigned)m.kind]];
      BuildValue v = makeVal(m);
      std::string d = valDiff(v, m);
      ++accessorChecks;
      if (!d.empty()) report(std::string("value: accessor ") + d + " of a freshly made " + valKindName[(unsigned)m.kind] + " value differs from what it was made of", valJson(m));
      core::ValueType e1 = v.toData();
      core::ValueType wire(e1.begin(), e1.end());  // capacity == size: an exact-size heap buffer
      BuildValue v2 = BuildValue::fromData(wire);
      ++roundTrips;
      d = valDiff(v2, m);
      if (!d.empty()) report(std::string("value round trip: ") + d + " differs after fromData(toData(x)) for kind " + valKindName[(unsigned)m.kind], "{\"model\":" + valJson(m) + ",\"encoding_hex\":\"" + vf::hex(e1.data(), e1.size()) + "\"}");
      ++canon;
      if (v2.toData() != e1) report("value canonicity: toData(fromData(toData(x))) != toData(x)", "{\"model\":" + valJson(m) + ",\"encoding_hex\":\"" + vf::hex(e1.data(), e1.size()) + "\"}");
      if (makeVal(m).toData() != e1) report("value canonicity: two equal values encode differently", valJson(m));
      if (c % 8 == 1) {  // equal objects obtained by copy and by move
        ++copies;
        BuildValue cp(v);
        if (cp.toData() != e1 || !valDiff(cp, m).empty()) report("value canonicity: a copy of a value encodes differently from the original", valJson(m));
        BuildValue mv(std::move(cp));
        if (mv.toData() != e1 || !valDiff(mv, m).empty()) report("value canonicity: a moved value encodes differently from the original", valJson(m));
        BuildValue as = BuildValue::makeInvalid();
        as = std::move(mv);
        if (as.toData() != e1 || !valDiff(as, m).empty()) report("value canonicity: a move-assigned value encodes differently from the original", valJson(m));
      }
      ValModel m2 = m;
      const char* what = mutateVal(r, m2);
      if (what && !valSame(m, m2)) {
        ++injPairs;
        ++byMutation[std::string("value ") + what];
        core::ValueType e2 = makeVal(m2).toData();
        if (e2 == e1) report(std::string("value injectivity: different values encode identically (") + what + ")", "{\"a\":" + valJson(m) + ",\"b\":" + valJson(m2) + ",\"encoding_hex\":\"" + vf::hex(e1.data(), e1.size()) + "\"}");
      }
      std::string es((const char*)e1.data(), e1.size()), ser = valSerial(m);
      auto it = seenV.find(es);
      ++collisionsChecked;
      if (it != seenV.end()) { if (it->second != ser) report("value injectivity: two different values generated independently share an encoding", "{\"a\":" + jstr(it->second) + ",\"b\":" + valJson(m) + "}"); }
      else if (seenV.size() < seenCap) seenV.emplace(es, ser);
      if (vHasSig(m.kind) || vHasInfos(m.kind) || !m.strings.empty()) distinct.insert(vf::fnv(es, 11));
      if (sampleV.empty() && m.kind == VK::DirectoryContents && m.strings.size() >= 2) sampleV = "{\"model\":" + valJson(m) + ",\"encoding_hex\":\"" + vf::hex(e1.data(), e1.size()) + "\"}";
    }
  }

  auto mapJson = [](const std::map<std::string, unsigned long>& m) {
    std::string o = "{";
    for (auto& kv : m) o += jstr(kv.first) + ":" + std::to_string(kv.second) + ",";
    if (o.size() > 1) o.pop_back();
    return o + "}";
  };
  printf("{\"summary\":{\"cases\":%llu,\"keys\":%lu,\"values\":%lu,\"round_trips\":%lu,\"canonicity_checks\":%lu,\"accessor_checks\":%lu,\"injectivity_pairs\":%lu,"
         "\"collision_lookups\":%lu,\"copy_move_checks\":%lu,\"kind_tag_checks\":%lu,\"distinct\":%zu,\"violations\":%lu,\"by_kind\":%s,\"by_mutation\":%s,\"viol_counts\":%s,"
         "\"sample_key\":%s,\"sample_value\":%s}}\n",
         (unsigned long long)cases, keysN, valsN, roundTrips, canon, accessorChecks, injPairs, collisionsChecked, copies, kindChecks, distinct.size(), nViol,
         mapJson(byKind).c_str(), mapJson(byMutation).c_str(), mapJson(violCount).c_str(), sampleK.empty() ? "null" : sampleK.c_str(), sampleV.empty() ? "null" : sampleV.c_str());
  return 0;
}
