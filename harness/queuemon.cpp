// C16 monitor: every job runs exactly once within the lane limit; every process accounted for.
//
// Client of the public API only (ExecutionQueue.h, Subprocess.h, POSIXEnvironment.h).  Generates job mixes and
// child behaviours from a seed, runs them on the real lane-based / serial execution queues, records every event seen
// at the client boundary (job bodies, ExecutionQueueDelegate / ProcessDelegate callbacks, completion callbacks,
// cancelAllJobs and destructor call/return) in ONE mutex protected vector stamped by one monotonic clock, and judges
// the log offline.  The harness is written to be TSan-clean: all shared mutable state is under Log::m or atomic, no
// stdio from more than one thread (results are buffered and printed by main; the watchdog uses write(2) once and exits).
//
// Output: JSON lines on stdout ({"viol":..,"witness":..} and one {"summary":..}); "@case N" markers on stderr.
// Exit codes: 0 normal, 3 logical watchdog (no event for --watchdog-ms while a case was running), 2 usage.
#include "common.h"

#include "llbuild/Basic/ExecutionQueue.h"
#include "llbuild/Basic/Subprocess.h"
#include "llbuild/Basic/VerifHooks.h"

#include "llvm/ADT/ArrayRef.h"
#include "llvm/ADT/SmallString.h"
#include "llvm/ADT/StringRef.h"
#include "llvm/ADT/Twine.h"

#include <atomic>
#include <condition_variable>
#include <memory>
#include <mutex>
#include <set>
#include <thread>

#include <dirent.h>
#include <errno.h>
#include <fcntl.h>
#include <signal.h>
#include <sys/resource.h>
#include <sys/stat.h>
#include <sys/syscall.h>
#include <sys/wait.h>
#include <time.h>
#include <unistd.h>

using namespace llbuild;
using namespace llbuild::basic;
using llvm::StringRef;

extern "C" char** environ;

// ------------------------------------------------------------------------------------------------ small utilities

static inline uint64_t now_ns() {
  timespec ts;
  clock_gettime(CLOCK_MONOTONIC, &ts);
  return uint64_t(ts.tv_sec) * 1000000000ull + uint64_t(ts.tv_nsec);
}
static thread_local int t_tid = 0;
static inline int mytid() {
  if (!t_tid) t_tid = (int)syscall(SYS_gettid);
  return t_tid;
}
static void sleep_us(uint64_t us) {
  timespec ts;
  ts.tv_sec = us / 1000000;
  ts.tv_nsec = long(us % 1000000) * 1000;
  while (nanosleep(&ts, &ts) == -1 && errno == EINTR) {
  }
}
static void spend_us(uint64_t us) {
  if (us == 0) return;
  if (us > 300) { sleep_us(us); return; }
  uint64_t end = now_ns() + us * 1000;
  while (now_ns() < end) {
  }
}
static unsigned char pat(unsigned tag, unsigned long long g) {  // must equal qchild.c
  return (unsigned char)((g ^ (g >> 7) ^ (tag * 31u)) + (g >> 13) + tag);
}
static int count_threads() {
  DIR* d = opendir("/proc/self/task");
  if (!d) return -1;
  int n = 0;
  while (dirent* e = readdir(d))
    if (e->d_name[0] != '.') ++n;
  closedir(d);
  return n;
}
static std::string num(long long v) { return std::to_string(v); }
// Children of this process that are helper children (comm "qchild"), in any state including zombie.  waitpid(-1) is
// not usable as the probe because the sanitizer runtimes keep a symbolizer child of their own after a first report.
static int count_helper_children(std::string* which) {
  DIR* d = opendir("/proc");
  if (!d) return -1;
  int self = getpid(), n = 0;
  while (dirent* e = readdir(d)) {
    if (e->d_name[0] < '0' || e->d_name[0] > '9') continue;
    char path[64], buf[512];
    snprintf(path, sizeof path, "/proc/%s/stat", e->d_name);
    int fd = open(path, O_RDONLY | O_CLOEXEC);
    if (fd < 0) continue;
    ssize_t k = read(fd, buf, sizeof buf - 1);
    close(fd);
    if (k <= 0) continue;
    buf[k] = 0;
    char* lp = strchr(buf, '(');
    char* rp = strrchr(buf, ')');
    if (!lp || !rp || rp < lp) continue;
    std::string comm(lp + 1, rp);
    char state = 0;
    int ppid = 0;
    if (sscanf(rp + 1, " %c %d", &state, &ppid) != 2) continue;
    if (ppid == self && comm == "qchild") {
      ++n;
      if (which && which->size() < 200) *which += std::string(e->d_name) + ":" + state + " ";
    }
  }
  closedir(d);
  return n;
}

// ------------------------------------------------------------------------------------------------ plans

enum LaunchKind { LK_Child = 0, LK_NoExeAbs, LK_NoExeRel, LK_NotExec, LK_IsDir, LK_EmptyCmd };

struct LaunchPlan {
  int id = 0, job = 0;
  int kind = LK_Child;
  std::string spec;
  bool ownDelegate = true, canInt = true, inherit = true, control = true;
  bool console = false;   // connectToConsole: the child keeps the parent's process group and its output is not captured
  std::vector<std::pair<std::string, std::string>> env;
  int exitCode = 0;
  int sig = 0;
  bool hang = false;      // never exits on its own
  bool needsKill = false; // will not die from the SIGINT of cancelAllJobs (ignores it / not interruptible)
  bool isEnv = false;
  uint64_t outBytes = 0;
  unsigned tag = 0;
  bool wantsRelease = false;
  int complJob = -1;      // job submitted from the completion callback
  int slowFinishUs = 0;   // time spent inside processFinished
  bool reservedEnv = false; // requested or base environment defines LLBUILD_TASK_ID / LLBUILD_CONTROL_FD
  std::string cls;
};

struct JobPlan {
  int id = 0;
  std::string name;
  int durUs = 0;
  bool high = false;
  std::vector<int> adds;      // jobs submitted from this job's body
  std::vector<int> launches;  // processes launched from this job's body
  bool cancelHere = false;
  bool viaCompletion = false;
  int parent = -1;
};

struct CasePlan {
  std::string profile;
  int escalationDelayUs = 0;  // injected at the EscalationThreadStart hook: the SIGKILL thread starts late
  bool zeroLaneSuggestion = false;  // the lane queue is created with a lane suggestion of 0; it has to behave like a queue with one lane
  uint64_t seed = 0;
  int index = 0;
  int lanes = 1;  // 0 = serial queue
  int alg = 0;
  bool explicitBase = false;
  std::vector<std::string> baseEnv;
  std::vector<JobPlan> jobs;
  std::vector<LaunchPlan> launches;
  std::vector<int> roots;
  int submitters = 0;  // extra submitter threads besides main
  bool early = false;  // destroy the queue right after submitting (E) instead of after quiescence (W)
  int cancelMode = 0;  // 0 none, 1 thread after K body starts, 2 thread after K process starts, 3 inside a job
  int cancelK = 0;
  int fdSlots = -1;    // >= 0: RLIMIT_NOFILE lowered so that exactly this many descriptor slots are free
  bool storm = false;
  bool injected = false;  // a system call fault is injected from outside (strace): management errors are expected
  std::string flags;      // label for coverage
};

// ------------------------------------------------------------------------------------------------ event log

enum EvKind : uint8_t {
  E_SUBMIT, E_QSTART, E_QFIN, E_BSTART, E_BEND, E_XCALL, E_XRET, E_PSTART, E_PERR, E_POUT, E_PFIN, E_COMPL,
  E_CANCEL_CALL, E_CANCEL_RET, E_DTOR_CALL, E_DTOR_RET
};
static const char* kEvName[] = {"submit", "queueJobStarted", "queueJobFinished", "bodyStart", "bodyEnd", "executeProcessCall",
                                "executeProcessReturn", "processStarted", "processHadError", "processHadOutput", "processFinished",
                                "completion", "cancelCall", "cancelReturn", "dtorCall", "dtorReturn"};

struct Ev {
  uint64_t t;
  uint8_t kind;
  int32_t job, launch;
  int64_t a, b, c;
  int32_t tid;
};

struct LaunchRt {  // mutated only under Log::m
  uint64_t recv = 0;
  int64_t mismatchAt = -1;
  std::string envbuf;
  std::string errs;
};

static std::atomic<uint64_t> g_lastEvent{0};
static std::atomic<int> g_caseActive{0};
static std::atomic<const char*> g_phase{"idle"};

struct Log {
  std::mutex m;
  std::vector<Ev> v;
  size_t add(uint8_t kind, int job, int launch, int64_t a = 0, int64_t b = 0, int64_t c = 0) {
    std::lock_guard<std::mutex> g(m);
    Ev e{now_ns(), kind, job, launch, a, b, c, mytid()};
    v.push_back(e);
    g_lastEvent.store(e.t, std::memory_order_relaxed);
    return v.size() - 1;
  }
};

// ------------------------------------------------------------------------------------------------ globals

static std::string g_child, g_dir, g_notexec, g_isdir;
static std::vector<std::string> g_environSnapshot;
static uint64_t g_watchdogMs = 60000;
static std::string g_argsForReplay;

struct Out {  // results buffered by main, printed by main only
  std::string text;
  std::map<std::string, int> keyCount;
  uint64_t suppressed = 0;
} g_out;

static std::map<std::string, uint64_t> g_sum;
static std::set<uint32_t> g_distinct;
static std::string g_sample;

static void bump(const std::string& k, uint64_t n = 1) { g_sum[k] += n; }
static std::atomic<int> g_escalationDelayUs{0};   // see queueHook()
static std::atomic<int> g_escalationDelayed{0};
static void feature(const std::string& s) { g_distinct.insert((uint32_t)vf::fnv(s)); }

// ------------------------------------------------------------------------------------------------ the running case

struct Case;

struct JobDesc : public JobDescriptor {
  Case* c;
  int id;
  std::string name;
  JobDesc(Case* c, int id, const std::string& n) : c(c), id(id), name(n) {}
  StringRef getOrdinalName() const override { return name; }
  void getShortDescription(llvm::SmallVectorImpl<char>& r) const override { r.append(name.begin(), name.end()); }
  void getVerboseDescription(llvm::SmallVectorImpl<char>& r) const override { r.append(name.begin(), name.end()); }
};

struct LaunchDelegate : public ProcessDelegate {
  Case* c;
  int launch;
  LaunchDelegate(Case* c, int l) : c(c), launch(l) {}
  void processStarted(ProcessContext*, ProcessHandle, llbuild_pid_t pid) override;
  void processHadError(ProcessContext*, ProcessHandle, const llvm::Twine& message) override;
  void processHadOutput(ProcessContext*, ProcessHandle, StringRef data) override;
  void processFinished(ProcessContext*, ProcessHandle, const ProcessResult& result) override;
};

struct QDelegate : public ExecutionQueueDelegate {
  Case* c = nullptr;
  int launchOf(ProcessContext* ctx);
  void queueJobStarted(JobDescriptor* d) override;
  void queueJobFinished(JobDescriptor* d) override;
  void processStarted(ProcessContext* ctx, ProcessHandle, llbuild_pid_t pid) override;
  void processHadError(ProcessContext* ctx, ProcessHandle, const llvm::Twine& message) override;
  void processHadOutput(ProcessContext* ctx, ProcessHandle, StringRef data) override;
  void processFinished(ProcessContext* ctx, ProcessHandle, const ProcessResult& result) override;
};

struct Case {
  CasePlan plan;
  Log log;
  std::vector<LaunchRt> lrt;
  QDelegate del;
  std::vector<std::unique_ptr<JobDesc>> descs;
  std::vector<std::unique_ptr<LaunchDelegate>> ldel;
  ExecutionQueue* q = nullptr;
  std::vector<const char*> baseEnvp;

  std::mutex pm;
  std::condition_variable pcv;
  int jobsDone = 0, launchesDone = 0;  // under pm
  std::atomic<int> bstarts{0}, pstarts{0};
  std::atomic<bool> finished{false};

  void submit(int job) {
    const JobPlan& j = plan.jobs[job];
    log.add(E_SUBMIT, job, -1);
    Case* self = this;
    q->addJob(QueueJob(descs[job].get(), [self, job](QueueJobContext* ctx) { self->body(job, ctx); }),
              j.high ? QueueJobPriority::High : QueueJobPriority::Normal);
  }

  void cancel() {
    log.add(E_CANCEL_CALL, -1, -1);
    q->cancelAllJobs();
    log.add(E_CANCEL_RET, -1, -1);
  }

  void body(int job, QueueJobContext* ctx) {
    const JobPlan& j = plan.jobs[job];
    unsigned lane = ctx->laneID();
    log.add(E_BSTART, job, -1, lane);
    bstarts.fetch_add(1);
    spend_us(j.durUs);
    size_t half = j.adds.size() / 2;
    for (size_t i = 0; i < half; ++i) submit(j.adds[i]);
    for (int l : j.launches) launch(l, ctx);
    for (size_t i = half; i < j.adds.size(); ++i) submit(j.adds[i]);
    if (j.cancelHere) cancel();
    log.add(E_BEND, job, -1, lane);
    {
      std::lock_guard<std::mutex> g(pm);
      ++jobsDone;
      pcv.notify_all();
    }
  }

  void launch(int l, QueueJobContext* ctx) {
    const LaunchPlan& p = plan.launches[l];
    std::vector<std::string> argv;
    switch (p.kind) {
    case LK_Child: argv = {g_child, p.spec}; break;
    case LK_NoExeAbs: argv = {g_dir + "/no-such-program", "x"}; break;
    case LK_NoExeRel: argv = {"qm-no-such-program-anywhere", "x"}; break;
    case LK_NotExec: argv = {g_notexec, "x"}; break;
    case LK_IsDir: argv = {g_isdir, "x"}; break;
    case LK_EmptyCmd: break;
    }
    std::vector<StringRef> args(argv.begin(), argv.end());
    std::vector<std::pair<StringRef, StringRef>> env;
    for (auto& kv : p.env) env.push_back({StringRef(kv.first), StringRef(kv.second)});
    ProcessAttributes attr = {p.canInt};
    attr.inheritEnvironment = p.inherit;
    attr.controlEnabled = p.control;
    attr.connectToConsole = p.console;
    Case* self = this;
    ProcessCompletionFn fn = [self, l](ProcessResult r) { self->onCompletion(l, r); };
    log.add(E_XCALL, p.job, l);
    q->executeProcess(ctx, args, env, attr, {fn}, p.ownDelegate ? ldel[l].get() : nullptr);
    log.add(E_XRET, p.job, l);
  }

  void onCompletion(int l, const ProcessResult& r) {
    const LaunchPlan& p = plan.launches[l];
    log.add(E_COMPL, p.job, l, (int)r.status, r.exitCode, (int64_t)r.pid);
    if (p.complJob >= 0) submit(p.complJob);
    std::lock_guard<std::mutex> g(pm);
    ++launchesDone;
    pcv.notify_all();
  }

  // ---- process delegate events (both delegate flavours end up here)
  void pStarted(int l, llbuild_pid_t pid) {
    log.add(E_PSTART, plan.launches[l].job, l, (int64_t)pid);
    pstarts.fetch_add(1);
  }
  void pError(int l, const llvm::Twine& msg) {
    std::string s = msg.str();
    std::lock_guard<std::mutex> g(log.m);
    Ev e{now_ns(), E_PERR, plan.launches[l].job, l, 0, 0, 0, mytid()};
    log.v.push_back(e);
    g_lastEvent.store(e.t, std::memory_order_relaxed);
    if (lrt[l].errs.size() < 400) lrt[l].errs += s + "; ";
  }
  void pOutput(int l, StringRef data) {
    const LaunchPlan& p = plan.launches[l];
    std::lock_guard<std::mutex> g(log.m);
    Ev e{now_ns(), E_POUT, p.job, l, (int64_t)data.size(), 0, 0, mytid()};
    log.v.push_back(e);
    g_lastEvent.store(e.t, std::memory_order_relaxed);
    LaunchRt& r = lrt[l];
    if (p.isEnv) {
      if (r.envbuf.size() < (1u << 20)) r.envbuf.append(data.data(), data.size());
    } else if (r.mismatchAt < 0) {
      for (size_t i = 0; i < data.size(); ++i)
        if ((unsigned char)data[i] != pat(p.tag, r.recv + i)) { r.mismatchAt = (int64_t)(r.recv + i); break; }
    }
    r.recv += data.size();
  }
  void pFinished(int l, const ProcessResult& res) {
    const LaunchPlan& p = plan.launches[l];
    log.add(E_PFIN, p.job, l, (int)res.status, res.exitCode, (int64_t)res.pid);
    if (p.slowFinishUs) sleep_us(p.slowFinishUs);
  }
};

void LaunchDelegate::processStarted(ProcessContext*, ProcessHandle, llbuild_pid_t pid) { c->pStarted(launch, pid); }
void LaunchDelegate::processHadError(ProcessContext*, ProcessHandle, const llvm::Twine& m) { c->pError(launch, m); }
void LaunchDelegate::processHadOutput(ProcessContext*, ProcessHandle, StringRef d) { c->pOutput(launch, d); }
void LaunchDelegate::processFinished(ProcessContext*, ProcessHandle, const ProcessResult& r) { c->pFinished(launch, r); }

int QDelegate::launchOf(ProcessContext* ctx) {
  // the queue passes the job's descriptor as the opaque context; jobs using the queue's delegate launch one process
  JobDesc* d = reinterpret_cast<JobDesc*>(ctx);
  return c->plan.jobs[d->id].launches[0];
}
void QDelegate::queueJobStarted(JobDescriptor* d) { c->log.add(E_QSTART, static_cast<JobDesc*>(d)->id, -1); }
void QDelegate::queueJobFinished(JobDescriptor* d) { c->log.add(E_QFIN, static_cast<JobDesc*>(d)->id, -1); }
void QDelegate::processStarted(ProcessContext* ctx, ProcessHandle, llbuild_pid_t pid) { c->pStarted(launchOf(ctx), pid); }
void QDelegate::processHadError(ProcessContext* ctx, ProcessHandle, const llvm::Twine& m) { c->pError(launchOf(ctx), m); }
void QDelegate::processHadOutput(ProcessContext* ctx, ProcessHandle, StringRef d) { c->pOutput(launchOf(ctx), d); }
void QDelegate::processFinished(ProcessContext* ctx, ProcessHandle, const ProcessResult& r) { c->pFinished(launchOf(ctx), r); }

// ------------------------------------------------------------------------------------------------ reporting

static std::string replayArgs(const CasePlan& p) {
  return g_argsForReplay + " --profile " + p.profile + " --seed " + num((long long)p.seed) + " --case " + num(p.index);
}
static std::string describe(const CasePlan& p) {
  std::string s = "{\"profile\":" + vf::jstr(p.profile) + ",\"seed\":" + num((long long)p.seed) + ",\"case\":" + num(p.index) +
                  ",\"queue\":" + vf::jstr(p.lanes ? "lanes" : "serial") + ",\"lanes\":" + num(p.lanes) + ",\"alg\":" + num(p.alg) +
                  ",\"jobs\":" + num((long long)p.jobs.size()) + ",\"launches\":" + num((long long)p.launches.size()) +
                  ",\"teardown\":" + vf::jstr(p.early ? "destroy-right-after-submit" : "destroy-right-after-quiescence") +
                  ",\"cancelMode\":" + num(p.cancelMode) + ",\"flags\":" + vf::jstr(p.flags) + "}";
  return s;
}
static void viol(const CasePlan& p, const std::string& key, const std::string& detailJson) {
  bump("violations");
  int& n = g_out.keyCount[key];
  if (++n > 3) { ++g_out.suppressed; return; }
  g_out.text += "{\"viol\":" + vf::jstr(key) + ",\"witness\":{\"case\":" + describe(p) + ",\"replay_args\":" + vf::jstr(replayArgs(p)) +
                ",\"detail\":" + detailJson + "}}\n";
}
static std::string launchJson(const Case& c, int l) {
  const LaunchPlan& p = c.plan.launches[l];
  std::string ev = "[";
  int n = 0;
  for (const Ev& e : c.log.v)
    if (e.launch == l && e.kind != E_POUT) {
      if (n++) ev += ",";
      ev += std::string("\"") + kEvName[e.kind] + "(" + num(e.a) + "," + num(e.b) + "," + num(e.c) + ")@t" + num(e.tid) + "\"";
    }
  ev += "]";
  std::string env = "[";
  for (size_t i = 0; i < p.env.size(); ++i) env += (i ? "," : "") + vf::jstr(p.env[i].first + "=" + p.env[i].second.substr(0, 60));
  env += "]";
  return "{\"launch\":" + num(l) + ",\"class\":" + vf::jstr(p.cls) + ",\"kind\":" + num(p.kind) + ",\"spec\":" + vf::jstr(p.spec) +
         ",\"ownDelegate\":" + num(p.ownDelegate) + ",\"canSafelyInterrupt\":" + num(p.canInt) + ",\"inheritEnvironment\":" + num(p.inherit) +
         ",\"controlEnabled\":" + num(p.control) + ",\"requestedEnv\":" + env + ",\"expectedBytes\":" + num((long long)p.outBytes) +
         ",\"receivedBytes\":" + num((long long)c.lrt[l].recv) + ",\"errors\":" + vf::jstr(c.lrt[l].errs) + ",\"events\":" + ev + "}";
}

// ------------------------------------------------------------------------------------------------ offline monitors

static const char* statusName(int s) {
  switch (s) {
  case (int)ProcessStatus::Succeeded: return "Succeeded";
  case (int)ProcessStatus::Failed: return "Failed";
  case (int)ProcessStatus::Cancelled: return "Cancelled";
  case (int)ProcessStatus::Skipped: return "Skipped";
  default: return "Unknown";
  }
}

static bool isReserved(const std::string& k) {
  return k == "LLBUILD_BUILD_ID" || k == "LLBUILD_LANE_ID" || k == "LLBUILD_TASK_ID" || k == "LLBUILD_CONTROL_FD";
}
static bool allDigits(const std::string& s) {
  if (s.empty()) return false;
  for (char ch : s) if (ch < '0' || ch > '9') return false;
  return true;
}
static bool allHex(const std::string& s) {
  if (s.empty()) return false;
  for (char ch : s) if (!((ch >= '0' && ch <= '9') || (ch >= 'a' && ch <= 'f') || (ch >= 'A' && ch <= 'F'))) return false;
  return true;
}

struct JobObs { int submit = 0, qs = 0, qf = 0, bs = 0, be = 0; int lane = -1; long iqs = -1, iqf = -1, ibs = -1, ibe = -1; int tbs = 0, tqs = 0, tqf = 0; };
struct LaunchObs {
  int xcall = 0, xret = 0, ps = 0, pf = 0, compl_ = 0, pout = 0, perr = 0;
  long ixcall = -1, ixret = -1, ips = -1, ipf = -1, icompl = -1, ilastOut = -1, ifirstOut = -1;
  int64_t pid = -1, pfStatus = -99, pfExit = 0, pfPid = -1, cStatus = -99, cExit = 0, cPid = -1;
};

static void analyze(Case& c, int threadsBefore, int threadsAfter, int leftover, const std::string& leftoverWhich, bool dtorReturned) {
  const CasePlan& P = c.plan;
  const std::vector<Ev>& V = c.log.v;
  const int lanes = P.lanes ? P.lanes : 1;
  std::vector<JobObs> J(P.jobs.size());
  std::vector<LaunchObs> L(P.launches.size());
  long iCancelCall = -1, iCancelRet = -1, iDtorCall = -1, iDtorRet = -1;
  int inflight = 0, maxInflight = 0;
  std::map<int, int> laneBusy;  // lane -> job
  bool laneViol = false, limitViol = false;

  for (long i = 0; i < (long)V.size(); ++i) {
    const Ev& e = V[i];
    switch (e.kind) {
    case E_SUBMIT: J[e.job].submit++; break;
    case E_QSTART: J[e.job].qs++; J[e.job].iqs = i; J[e.job].tqs = e.tid; break;
    case E_QFIN: J[e.job].qf++; J[e.job].iqf = i; J[e.job].tqf = e.tid; break;
    case E_BSTART: {
      JobObs& o = J[e.job];
      o.bs++; o.ibs = i; o.lane = (int)e.a; o.tbs = e.tid;
      ++inflight;
      if (inflight > maxInflight) maxInflight = inflight;
      if (inflight > lanes && !limitViol) {
        limitViol = true;
        viol(P, std::string(P.lanes ? "lane queue" : "serial queue") + ": more job bodies in flight than lanes",
             "{\"inflight\":" + num(inflight) + ",\"lanes\":" + num(lanes) + ",\"at_event\":" + num(i) + "}");
      }
      if ((int)e.a < 0 || (int)e.a >= lanes) {
        if (!laneViol) viol(P, "laneID() outside [0, lanes)", "{\"lane\":" + num(e.a) + ",\"lanes\":" + num(lanes) + "}");
        laneViol = true;
      }
      auto it = laneBusy.find((int)e.a);
      if (it != laneBusy.end() && !laneViol) {
        laneViol = true;
        viol(P, "two job bodies in flight on the same lane id", "{\"lane\":" + num(e.a) + ",\"jobs\":[" + num(it->second) + "," + num(e.job) + "]}");
      }
      laneBusy[(int)e.a] = e.job;
      break;
    }
    case E_BEND: {
      JobObs& o = J[e.job];
      o.be++; o.ibe = i;
      --inflight;
      auto it = laneBusy.find((int)e.a);
      if (it != laneBusy.end() && it->second == e.job) laneBusy.erase(it);
      break;
    }
    case E_XCALL: L[e.launch].xcall++; L[e.launch].ixcall = i; break;
    case E_XRET: L[e.launch].xret++; L[e.launch].ixret = i; break;
    case E_PSTART: L[e.launch].ps++; L[e.launch].ips = i; L[e.launch].pid = e.a; break;
    case E_PERR: L[e.launch].perr++; break;
    case E_POUT: L[e.launch].pout++; L[e.launch].ilastOut = i; if (L[e.launch].ifirstOut < 0) L[e.launch].ifirstOut = i; break;
    case E_PFIN: L[e.launch].pf++; L[e.launch].ipf = i; L[e.launch].pfStatus = e.a; L[e.launch].pfExit = e.b; L[e.launch].pfPid = e.c; break;
    case E_COMPL: L[e.launch].compl_++; L[e.launch].icompl = i; L[e.launch].cStatus = e.a; L[e.launch].cExit = e.b; L[e.launch].cPid = e.c; break;
    case E_CANCEL_CALL: if (iCancelCall < 0) iCancelCall = i; break;
    case E_CANCEL_RET: if (iCancelRet < 0) iCancelRet = i; break;
    case E_DTOR_CALL: iDtorCall = i; break;
    case E_DTOR_RET: iDtorRet = i; break;
    }
  }
  bump("events", V.size());
  bump("max_inflight_sum", maxInflight);
  if (maxInflight >= lanes && lanes > 1) bump("cases_reaching_lane_limit");

  // ---- M-once: every submitted job body ran exactly once, before the destructor returned
  int lost = 0, dup = 0;
  std::string lostIds;
  for (size_t j = 0; j < J.size(); ++j) {
    const JobObs& o = J[j];
    if (!o.submit) continue;  // never submitted (its submitter did not run): reported through that one
    bump("jobs_submitted");
    if (o.bs > 1 || o.be > 1) {
      if (!dup++) viol(P, std::string(P.lanes ? "lane queue" : "serial queue") + ": job executed more than once",
                       "{\"job\":" + num((long long)j) + ",\"bodyStarts\":" + num(o.bs) + "}");
    } else if (o.bs == 0 || o.be == 0) {
      if (lost++ < 8) lostIds += (lostIds.empty() ? "" : ",") + num((long long)j);
    } else {
      bump("jobs_executed_once");
      if (dtorReturned && iDtorRet >= 0 && o.ibe > iDtorRet)
        viol(P, "job body finished after the queue destructor returned", "{\"job\":" + num((long long)j) + "}");
    }
    if (P.lanes) {  // lane queue reports every job to the delegate; the pairing is promised in ExecutionQueue.h
      if (o.bs == 1 && o.be == 1 && (o.qs != 1 || o.qf != 1 || !(o.iqs < o.ibs && o.ibe < o.iqf)))
        viol(P, "queueJobStarted/queueJobFinished not exactly once around the job body",
             "{\"job\":" + num((long long)j) + ",\"started\":" + num(o.qs) + ",\"finished\":" + num(o.qf) + "}");
    } else if (o.qs != o.qf) {
      viol(P, "queueJobStarted without matching queueJobFinished", "{\"job\":" + num((long long)j) + "}");
    }
  }
  if (lost && dtorReturned) {
    bool addedByJob = false, addedDuringDtor = false;
    for (size_t j = 0; j < J.size(); ++j)
      if (J[j].submit && J[j].bs == 0) {
        if (P.jobs[j].parent >= 0) addedByJob = true;
        for (long i = 0; i < (long)V.size(); ++i)
          if (V[i].kind == E_SUBMIT && V[i].job == (int)j && iDtorCall >= 0 && i > iDtorCall) addedDuringDtor = true;
      }
    std::string k = std::string(P.lanes ? "lane queue" : "serial queue") + ": submitted job never executed before the queue was destroyed";
    if (addedByJob && addedDuringDtor) k += " (job added by a running job while the destructor was draining)";
    viol(P, k, "{\"lost\":" + num(lost) + ",\"first_lost_jobs\":[" + lostIds + "]}");
  }

  // ---- per launch
  std::set<std::string> buildIds;
  for (size_t l = 0; l < L.size(); ++l) {
    const LaunchObs& o = L[l];
    const LaunchPlan& p = P.launches[l];
    if (!o.xcall) continue;
    bump("launches");
    const bool noCancel = iCancelCall < 0;
    const bool complBeforeCancel = noCancel || (o.icompl >= 0 && o.icompl < iCancelCall);
    const bool calledAfterCancelRet = iCancelRet >= 0 && o.ixcall > iCancelRet;
    const bool realPid = o.ps > 0 && o.pid > 0;
    auto LV = [&](const std::string& key) { viol(P, key, launchJson(c, (int)l)); };

    if (o.compl_ != 1) { LV(o.compl_ ? "completion callback fired more than once for one launch" : "completion callback never fired for a launch"); continue; }
    if (o.ps != o.pf || o.ps > 1) LV("processStarted/processFinished not paired exactly once (" + num(o.ps) + "/" + num(o.pf) + ")");
    if (o.ps == 0) {
      bump("launches_without_processStarted");
      if (complBeforeCancel) LV("launch completed without processStarted although no cancellation was in progress");
    }
    if (o.ps == 1 && o.pf == 1) {
      if (!(o.ips < o.ipf && o.ipf < o.icompl)) LV("processStarted / processFinished / completion callback out of order");
      if (o.pout && (o.ifirstOut < o.ips)) LV("output delivered before processStarted");
      if (o.pout && o.ilastOut > o.ipf) LV("output delivered after processFinished");
    }
    if (o.pout && o.ilastOut > o.icompl) LV("output delivered after the completion callback");
    if (calledAfterCancelRet) {
      bump("launches_after_cancel");
      if (realPid) LV("process started after cancelAllJobs() returned");
      if (o.cStatus == (int)ProcessStatus::Succeeded) LV("launch after cancellation reported Succeeded");
      if (o.cStatus == (int)ProcessStatus::Cancelled) bump("launches_after_cancel_cancelled");
      continue;
    }
    if (realPid && iCancelRet >= 0 && o.ips > iCancelRet) LV("process started after cancelAllJobs() returned");

    // expected fate
    int st = (int)o.cStatus;
    bump(std::string("status_") + statusName(st));
    bool cancelMayHit = !complBeforeCancel;
    bool fdFault = P.fdSlots >= 0;
    bool relaxed = P.injected && o.perr > 0;
    if (relaxed) bump("injected_management_errors");
    if (p.kind != LK_Child) {
      bump("spawn_error_launches");
      if (o.ps == 1 && o.pid != -1) LV("spawn of a non-runnable program reported a pid");
      if (st == (int)ProcessStatus::Failed) bump("spawn_error_failed");
      else if (!(cancelMayHit && st == (int)ProcessStatus::Cancelled)) LV(std::string("spawn error reported as ") + statusName(st));
      if (c.lrt[l].recv) LV("output delivered for a process that was never spawned");
      feature("spawnerr|" + num(p.kind) + "|" + num(P.lanes));
      continue;
    }
    if (o.ps == 1 && o.pid == -1) {  // management failure before the child existed
      bump("children_not_spawned");
      bool ok = (fdFault && st == (int)ProcessStatus::Failed) || (cancelMayHit && st == (int)ProcessStatus::Cancelled) || (relaxed && st == (int)ProcessStatus::Failed);
      if (!ok) LV(std::string("runnable child not spawned (pid -1) reported as ") + statusName(st) + " with no injected fault");
      if (fdFault && st == (int)ProcessStatus::Failed) bump("fd_exhaustion_failures");
      if (c.lrt[l].recv) LV("output delivered for a process that was never spawned");
      continue;
    }
    if (o.ps == 0) continue;  // cancelled before spawn (judged above)
    bump("real_children");
    if (o.cPid != o.pid && !relaxed) LV("ProcessResult.pid differs from the pid given to processStarted");
    bool released = o.ixret >= 0 && o.ixret < o.icompl;
    if (released) bump("lane_released_observed");
    if (iCancelCall >= 0 && o.ips < iCancelCall && o.icompl > iCancelCall) {
      bump("children_alive_at_cancel");
      if (p.hang) bump(p.needsKill ? "hanging_children_needing_sigkill_reaped" : "hanging_children_interrupted_and_reaped");
      if (p.hang && p.needsKill && released) bump(P.early ? "released_children_needing_sigkill_alive_when_the_queue_is_destroyed_after_cancel" : "released_children_needing_sigkill_reaped");
    }

    // status
    int want;
    if (p.hang) want = (int)ProcessStatus::Cancelled;
    else if (p.sig) want = (p.sig == SIGINT || p.sig == SIGKILL) ? (int)ProcessStatus::Cancelled : (int)ProcessStatus::Failed;
    else want = p.exitCode == 0 ? (int)ProcessStatus::Succeeded : (int)ProcessStatus::Failed;
    bool plannedFate = (st == want);
    bool killedByCancel = cancelMayHit && st == (int)ProcessStatus::Cancelled;
    if (p.hang && !cancelMayHit) LV("child that never exits on its own completed without any cancellation");  // harness self-check
    if (!plannedFate && !killedByCancel && !(relaxed && st == (int)ProcessStatus::Failed)) {
      std::string fate = p.hang ? "hang" : p.sig ? "signal " + num(p.sig) : "exit " + num(p.exitCode);
      std::string cls = p.sig ? ((p.sig == SIGINT || p.sig == SIGKILL) ? "death by SIGINT/SIGKILL" : "death by a fatal signal") : (p.exitCode ? "non-zero exit" : "exit 0");
      LV("status does not reflect the child's fate: " + cls + " reported as " + statusName(st) + (cancelMayHit ? " (cancellation in progress)" : ""));
      (void)fate;
    }
    if (o.pfStatus != o.cStatus) LV("processFinished and the completion callback disagree on the status");
    // exit code (raw wait status or decoded; both preserve it)
    if (plannedFate && !killedByCancel && !relaxed) {
      int ec = (int)o.cExit;
      if (!p.sig && !p.hang) {
        bool raw = WIFEXITED(ec) && WEXITSTATUS(ec) == p.exitCode;
        if (!(raw || ec == p.exitCode)) LV("exit code not preserved");
        else bump(raw ? "exit_code_raw_wait_status" : "exit_code_decoded");
      } else if (p.sig) {
        bool raw = WIFSIGNALED(ec) && WTERMSIG(ec) == p.sig;
        if (!(raw || ec == p.sig || ec == 128 + p.sig)) LV("terminating signal not preserved in the exit code");
      }
    }
    // output
    const LaunchRt& r = c.lrt[l];
    bump("output_bytes", r.recv);
    bump("output_callbacks", o.pout);
    if (!p.isEnv) {
      if (r.mismatchAt >= 0) LV("output bytes differ from what the child wrote (first difference at offset " + std::string(r.mismatchAt < 4096 ? "<4096" : ">=4096") + ")");
      else if (r.recv > p.outBytes) LV("more output delivered than the child wrote");
      else if (r.recv < p.outBytes && plannedFate && !killedByCancel && !relaxed && !p.hang)
        LV("output truncated: child wrote all its output and ended as planned but fewer bytes were delivered" + std::string(released ? " (lane released)" : ""));
      else if (r.recv < p.outBytes) bump("output_prefix_of_cancelled_child");
      if (p.hang && r.recv == p.outBytes) bump("hang_child_full_output");
    }
    // environment
    if (p.isEnv && plannedFate) {
      bump("env_children");
      std::map<std::string, std::string> env;
      bool sawBegin = false, sawEnd = false;
      std::string ctl;
      {
        size_t pos = 0;
        bool in = false;
        while (pos < r.envbuf.size()) {
          size_t nl = r.envbuf.find('\n', pos);
          if (nl == std::string::npos) nl = r.envbuf.size();
          std::string line = r.envbuf.substr(pos, nl - pos);
          pos = nl + 1;
          if (line == "ENV{") { in = true; sawBegin = true; continue; }
          if (line == "}ENV") { in = false; sawEnd = true; continue; }
          if (in) {
            std::string un;
            for (size_t i = 0; i < line.size(); ++i) {
              if (line[i] == '\\' && i + 1 < line.size()) { un += line[i + 1] == 'n' ? '\n' : line[i + 1]; ++i; }
              else un += line[i];
            }
            line.swap(un);
            size_t eq = line.find('=');
            if (eq != std::string::npos && !env.count(line.substr(0, eq))) env[line.substr(0, eq)] = line.substr(eq + 1);
          } else if (line.rfind("CTLFD=", 0) == 0) ctl = line.substr(6);
        }
      }
      if (!sawBegin || !sawEnd || ctl.empty()) { LV("environment dump of the child incomplete"); continue; }
      int lane = J[p.job].lane;
      std::map<std::string, std::string> req, base;
      for (auto& kv : p.env) if (!req.count(kv.first)) req[kv.first] = kv.second;
      std::set<std::string> baseDup;
      const std::vector<std::string>& be = P.explicitBase ? P.baseEnv : g_environSnapshot;
      for (auto& s : be) {
        size_t eq = s.find('=');
        std::string k = s.substr(0, eq), v = eq == std::string::npos ? "" : s.substr(eq + 1);
        if (base.count(k)) baseDup.insert(k); else base[k] = v;
      }
      auto EV = [&](const std::string& key, const std::string& k) {
        viol(P, key, "{\"variable\":" + vf::jstr(k) + ",\"child_value\":" + vf::jstr(env.count(k) ? env[k] : "<unset>") + ",\"lane\":" + num(lane) +
                         ",\"launch\":" + launchJson(c, (int)l) + "}");
      };
      // queue-provided variables win over everything
      if (!env.count("LLBUILD_BUILD_ID") || !allDigits(env["LLBUILD_BUILD_ID"])) EV("LLBUILD_BUILD_ID not the queue's numeric build id (requested/inherited value won)", "LLBUILD_BUILD_ID");
      else buildIds.insert(env["LLBUILD_BUILD_ID"]);
      if (!env.count("LLBUILD_LANE_ID") || env["LLBUILD_LANE_ID"] != num(lane)) EV("LLBUILD_LANE_ID is not the lane the job ran on", "LLBUILD_LANE_ID");
      bool taskShadow = (req.count("LLBUILD_TASK_ID") && env["LLBUILD_TASK_ID"] == req["LLBUILD_TASK_ID"]) ||
                        (p.inherit && base.count("LLBUILD_TASK_ID") && !req.count("LLBUILD_TASK_ID") && env["LLBUILD_TASK_ID"] == base["LLBUILD_TASK_ID"]);
      if (!env.count("LLBUILD_TASK_ID") || !allHex(env["LLBUILD_TASK_ID"]) || taskShadow)
        EV(std::string("LLBUILD_TASK_ID is not the task id of the launch: ") + (req.count("LLBUILD_TASK_ID") ? "requested" : "inherited") + " value took precedence", "LLBUILD_TASK_ID");
      if (p.control) {
        if (!env.count("LLBUILD_CONTROL_FD") || !allDigits(env["LLBUILD_CONTROL_FD"]) || ctl != "open")
          EV(std::string("LLBUILD_CONTROL_FD is not the control descriptor passed to the child: ") +
                 (req.count("LLBUILD_CONTROL_FD") ? "requested value took precedence" : (p.inherit && base.count("LLBUILD_CONTROL_FD")) ? "inherited value took precedence" : "missing or not open"),
             "LLBUILD_CONTROL_FD");
      } else bump("env_control_disabled");
      // requested > inherited
      for (auto& kv : req) {
        if (isReserved(kv.first)) continue;
        if (!env.count(kv.first) || env[kv.first] != kv.second) EV("requested environment variable not passed to the child with the requested value", kv.first);
      }
      if (p.inherit) {
        for (auto& kv : base) {
          if (isReserved(kv.first) || req.count(kv.first) || baseDup.count(kv.first) || kv.first.empty()) continue;
          if (!env.count(kv.first) || env[kv.first] != kv.second) EV("inherited environment variable missing or changed although not overridden", kv.first);
        }
      } else {
        for (auto& kv : env) {
          if (isReserved(kv.first) || req.count(kv.first)) continue;
          EV("variable present in the child although inheritEnvironment is false and it was not requested", kv.first);
          break;
        }
      }
      feature("env|" + num(p.inherit) + "|" + num(p.control) + "|" + num(P.explicitBase) + "|" + num(p.reservedEnv) + "|" + num((long long)req.size() > 0));
    }
    feature("child|" + p.cls + "|" + statusName(st) + "|" + num(P.lanes) + "|" + num(released) + "|" + num(cancelMayHit) + "|" + num(p.ownDelegate));
  }
  if (buildIds.size() > 1) viol(P, "children of one queue saw different LLBUILD_BUILD_ID values", "{\"values\":" + num((long long)buildIds.size()) + "}");

  // ---- quiescence
  if (dtorReturned) {
    if (leftover != 0)
      viol(P, "a child process was left unreaped (or still running) after the queue was destroyed and every completion was delivered",
           "{\"children\":" + num(leftover) + ",\"pid_state\":" + vf::jstr(leftoverWhich) + "}");
    if (threadsAfter != threadsBefore)
      viol(P, "threads left behind after the queue was destroyed and every completion was delivered",
           "{\"threads_before\":" + num(threadsBefore) + ",\"threads_after\":" + num(threadsAfter) + "}");
  }
  feature("case|" + P.profile + "|" + num(P.lanes) + "|" + num(P.alg) + "|" + num(P.early) + "|" + num(P.cancelMode) + "|" + P.flags + "|" + num(maxInflight >= lanes));
  if (iCancelCall >= 0) bump("cases_with_cancel");
}

// ------------------------------------------------------------------------------------------------ generator

static const int kVolumes[] = {0, 1, 4096, 65536, 1048576};

struct Gen {
  vf::Rng rng;
  CasePlan& P;
  bool thorough;
  Gen(uint64_t seed, CasePlan& p, bool th) : rng(seed), P(p), thorough(th) {}

  int pickExit() {
    static const int fav[] = {0, 0, 0, 0, 1, 2, 3, 126, 127, 128, 130, 137, 255, 254, 42};
    if (rng.chance(2, 3)) return fav[rng.below(sizeof fav / sizeof fav[0])];
    return (int)rng.below(256);
  }
  uint64_t pickVolume(bool allowHuge) {
    uint64_t r = rng.below(100);
    if (r < 15) return 0;
    if (r < 30) return 1;
    if (r < 60) return 4096;
    if (r < 66) return 4095 + rng.below(3);
    if (r < 90 || !allowHuge) return 65536 + (rng.chance(1, 4) ? rng.below(100) : 0);
    return 1048576;
  }
  // emits t<tag>, then writes `v` bytes over stdout/stderr in a pattern
  std::string volumeOps(LaunchPlan& L, uint64_t v) {
    std::string s;
    unsigned mode = (unsigned)rng.below(4);
    if (v == 0) return s;
    if (mode == 0) s += "o" + num((long long)v) + ",";
    else if (mode == 1) s += "e" + num((long long)v) + ",";
    else {
      unsigned parts = 2 + (unsigned)rng.below(5);
      uint64_t left = v;
      for (unsigned i = 0; i < parts && left; ++i) {
        uint64_t k = (i + 1 == parts) ? left : std::max<uint64_t>(1, left / (parts - i));
        s += std::string((i + mode) % 2 ? "e" : "o") + num((long long)k) + ",";
        left -= k;
      }
    }
    L.outBytes += v;
    return s;
  }
  void endOps(LaunchPlan& L, std::string& s) {
    // final fate: exit code or self-signal
    if (rng.chance(1, 5)) {
      static const int sigs[] = {SIGTERM, SIGSEGV, SIGINT, SIGKILL, SIGABRT};
      L.sig = sigs[rng.below(5)];
      s += "k" + num(L.sig);
      L.cls += "+sig" + num(L.sig);
    } else {
      L.exitCode = pickExit();
      s += "x" + num(L.exitCode);
      L.cls += L.exitCode ? "+exitN" : "+exit0";
    }
  }
  LaunchPlan& newLaunch(int job) {
    P.launches.emplace_back();
    LaunchPlan& L = P.launches.back();
    L.id = (int)P.launches.size() - 1;
    L.job = job;
    L.tag = (unsigned)rng.below(250) + 1;
    L.canInt = !rng.chance(1, 6);
    L.control = !rng.chance(1, 5);
    L.inherit = !rng.chance(1, 4);
    // the queue's own delegate is only used by jobs that launch a single process (context -> launch mapping)
    L.ownDelegate = !(P.jobs[job].launches.empty() && rng.chance(1, 3));
    P.jobs[job].launches.push_back(L.id);
    return L;
  }
  bool jobCanLaunch(int job) {
    const JobPlan& j = P.jobs[job];
    if (j.launches.empty()) return true;
    if (j.launches.size() >= 3) return false;
    return P.launches[j.launches[0]].ownDelegate;  // queue-delegate launches stay alone in their job
  }
  int pickLaunchJob() {
    for (int tries = 0; tries < 50; ++tries) {
      int j = (int)rng.below(P.jobs.size());
      if (jobCanLaunch(j)) return j;
    }
    for (size_t j = 0; j < P.jobs.size(); ++j) if (jobCanLaunch((int)j)) return (int)j;
    return 0;
  }

  void volumeChild(int job, bool allowHuge) {
    LaunchPlan& L = newLaunch(job);
    uint64_t v = pickVolume(allowHuge);
    L.cls = "vol" + num((long long)(v >= 1048576 ? 1048576 : v >= 65536 ? 65536 : v >= 4095 ? 4096 : v));
    std::string s = "t" + num(L.tag) + ",";
    s += volumeOps(L, v);
    endOps(L, s);
    L.spec = s;
  }
  void closeEarlyChild(int job) {
    LaunchPlan& L = newLaunch(job);
    L.cls = "closeearly";
    std::string s = "t" + num(L.tag) + ",";
    s += volumeOps(L, rng.chance(1, 2) ? 100 : 5000);
    s += "c,s" + num((long long)(2 + rng.below(25))) + ",";
    endOps(L, s);
    L.spec = s;
  }
  void releaseChild(int job, int variant, int maxSleepMs) {
    LaunchPlan& L = newLaunch(job);
    L.control = variant == 5 ? false : true;
    std::string s = "t" + num(L.tag) + ",";
    s += volumeOps(L, rng.chance(1, 2) ? (uint64_t)rng.below(300) : 4096);
    switch (variant) {
    case 0: s += "r,"; L.cls = "release"; L.wantsRelease = true; break;
    case 4: s += "R4,"; L.cls = "release-bytewise"; L.wantsRelease = true; break;
    case 1: s += "R1,"; L.cls = "release-wrong-id"; break;
    case 2: s += "R2,"; L.cls = "release-wrong-version"; break;
    case 3: s += "R3,"; L.cls = "release-overlong"; break;
    case 5: s += "r,"; L.cls = "release-control-disabled"; break;
    case 6: s += "C,"; L.cls = "close-control-early"; break;
    }
    s += "s" + num((long long)(1 + rng.below(maxSleepMs))) + ",";
    s += volumeOps(L, rng.chance(1, 3) ? 70000 : (uint64_t)rng.below(2000));
    endOps(L, s);
    L.spec = s;
  }
  void envChild(int job, int reservedMode) {
    LaunchPlan& L = newLaunch(job);
    L.cls = "env";
    L.isEnv = true;
    L.spec = "E,x0";
    L.exitCode = 0;
    static const char* keys[] = {"QM_A", "QM_B", "QM_SHARED", "PATH", "HOME", "QM_EMPTY", "QM_EQ", "LANG", "QM_LONG", "QM_NL", "QM_BS"};
    std::set<std::string> used;
    unsigned n = (unsigned)rng.below(6);
    for (unsigned i = 0; i < n; ++i) {
      std::string k = keys[rng.below(11)];
      if (!used.insert(k).second) continue;
      std::string v = k == "QM_EMPTY" ? "" : k == "QM_EQ" ? "a=b=c" : k == "QM_LONG" ? std::string(3000, 'z') : k == "QM_NL" ? "line1\nQM_FAKE=line2\n" : k == "QM_BS" ? "a\\b\\n" : "req-" + num((long long)rng.below(1000));
      L.env.push_back({k, v});
    }
    // queue-owned LLBUILD_BUILD_ID / LLBUILD_LANE_ID in the requested environment must lose
    if (rng.chance(1, 3)) L.env.push_back({"LLBUILD_LANE_ID", "requested-lane"});
    if (rng.chance(1, 4)) L.env.push_back({"LLBUILD_BUILD_ID", "requested-build"});
    if (reservedMode == 1) {
      L.reservedEnv = true;
      if (rng.chance(1, 2)) L.env.push_back({"LLBUILD_TASK_ID", "requested-task"});
      else L.env.push_back({"LLBUILD_CONTROL_FD", "9999"});
    }
    if (reservedMode == 2) L.reservedEnv = true;  // the base environment carries them
  }
  void badExe(int job) {
    LaunchPlan& L = newLaunch(job);
    L.kind = 1 + (int)rng.below(5);
    L.cls = "badexe" + num(L.kind);
  }
  void hangChild(int job, bool allowKillOnly, bool forceReleasedKill = false) {
    LaunchPlan& L = newLaunch(job);
    std::string s = "t" + num(L.tag) + ",";
    unsigned r = (unsigned)rng.below(forceReleasedKill ? 5 : 10);
    // half of the children that only SIGKILL can stop first give their lane back over the control channel: after a cancellation
    // nothing but the escalation timer stands between such a child and a queue destructor that waits for it
    bool released = allowKillOnly && r < 5 && (forceReleasedKill || rng.chance(1, 2));
    if (allowKillOnly && r < 3) {
      s += "i,";
      if (released) { s += "r,"; L.control = true; L.wantsRelease = true; }
      s += volumeOps(L, rng.chance(1, 2) ? 10 : 0);
      s += "h";
      L.hang = true; L.needsKill = true; L.cls = released ? "released-ignore-sigint-hang" : "ignore-sigint-hang";
    } else if (allowKillOnly && r < 5) {
      L.canInt = false;
      if (released) { s += "r,"; L.control = true; L.wantsRelease = true; }
      s += volumeOps(L, 10);
      s += "h";
      L.hang = true; L.needsKill = true; L.cls = released ? "released-not-interruptible-hang" : "not-interruptible-hang";
    } else if (r < 8) {
      L.canInt = true;
      if (rng.chance(1, 4)) {   // connected to the console: silent (its output would land in the harness's own stdout), same process group as the harness
        L.console = true; L.control = false;
        s += "h";
        L.hang = true; L.cls = "console-hang";
      } else {
      s += volumeOps(L, rng.chance(1, 3) ? 4096 : (uint64_t)rng.below(50));
      s += "h";
      L.hang = true; L.cls = "hang";
      }
    } else {
      L.canInt = true;
      s += volumeOps(L, (uint64_t)rng.below(50));
      s += "s" + num((long long)(20 + rng.below(200))) + ",";
      endOps(L, s);
      L.cls = "sleeper" + L.cls;
    }
    L.spec = s;
  }

  // forest of jobs; returns nothing, fills P.jobs/P.roots
  void jobs(int n, int pctChild, int budgetUsPerLane) {
    static const char* names[] = {"a", "b", "c", "cc", "link", "z", "a", "m", "compile", ""};
    P.jobs.resize(n);
    uint64_t total = 0;
    for (int i = 0; i < n; ++i) {
      JobPlan& j = P.jobs[i];
      j.id = i;
      j.name = std::string(names[rng.below(10)]) + (rng.chance(1, 2) ? num((long long)rng.below(20)) : "");
      if (j.name.empty()) j.name = "j";
      unsigned r = (unsigned)rng.below(100);
      j.durUs = r < 70 ? 0 : r < 92 ? 1 + (int)rng.below(200) : 200 + (int)rng.below(1800);
      total += j.durUs;
      j.high = rng.chance(1, 4);
    }
    uint64_t budget = uint64_t(budgetUsPerLane) * (P.lanes ? P.lanes : 1);
    if (total > budget)
      for (auto& j : P.jobs) j.durUs = (int)(uint64_t(j.durUs) * budget / total);
    int nroots = std::max(1, n * (100 - pctChild) / 100);
    for (int i = 0; i < n; ++i) {
      if (i < nroots || !rng.chance(pctChild, 100)) P.roots.push_back(i);
      else {
        int par = (int)rng.below(i);
        P.jobs[i].parent = par;
        P.jobs[par].adds.push_back(i);
      }
    }
  }
  void queueConfig(int serialPct) {
    static const int ls[] = {1, 2, 3, 8};
    P.lanes = rng.chance(serialPct, 100) ? 0 : ls[rng.below(4)];
    P.alg = (int)rng.below(2);
    if (P.lanes == 1 && rng.chance(1, 3)) P.zeroLaneSuggestion = true;
  }
};

static void generate(CasePlan& P, const std::string& profile, uint64_t seed, int index, bool thorough) {
  P.profile = profile;
  P.seed = seed;
  P.index = index;
  uint64_t h = vf::fnv(profile) ^ (seed * 0x9E3779B97F4A7C15ull) ^ (uint64_t(index) * 0xD1B54A32D192ED03ull);
  Gen g(h, P, thorough);
  vf::Rng& rng = g.rng;

  if (profile == "jobs") {
    g.queueConfig(17);
    unsigned r = (unsigned)rng.below(100);
    int n = r < 60 ? 50 + (int)rng.below(250) : r < 92 ? 300 + (int)rng.below(700) : 2000;
    g.jobs(n, 45, thorough ? 120000 : 40000);
    P.submitters = (int)rng.below(3);
    P.early = rng.chance(1, 2);
    if (rng.chance(3, 10)) {
      if (rng.chance(1, 2)) { P.cancelMode = 1; P.cancelK = 1 + (int)rng.below(n / 2); }
      else { P.cancelMode = 3; P.jobs[rng.below(n)].cancelHere = true; if (rng.chance(1, 3)) P.jobs[rng.below(n)].cancelHere = true; }
    }
    P.flags = "s" + num(P.submitters);
    return;
  }
  if (profile == "procs" || profile == "storm" || profile == "inject") {
    g.queueConfig(15);
    int n = profile == "inject" ? 6 + (int)rng.below(6) : 50 + (int)rng.below(150);
    g.jobs(n, 40, 20000);
    int nl = profile == "inject" ? 3 + (int)rng.below(3) : 10 + (int)rng.below(30);
    bool huge = false;
    for (int i = 0; i < nl; ++i) {
      int job = g.pickLaunchJob();
      unsigned r = (unsigned)rng.below(100);
      if (profile == "inject") { g.volumeChild(job, false); continue; }
      if (r < 55) { bool allow = !huge && rng.chance(1, 3); size_t before = P.launches.size(); g.volumeChild(job, allow); if (P.launches[before].outBytes >= 1048576) huge = true; }
      else if (r < 67) g.closeEarlyChild(job);
      else if (r < 85) { static const int vs[] = {0, 0, 0, 4, 1, 2, 3, 5, 6}; g.releaseChild(job, vs[rng.below(9)], 25); }
      else if (r < 93) g.envChild(job, 0);
      else g.badExe(job);
    }
    P.submitters = (int)rng.below(2);
    P.early = rng.chance(1, 3);
    P.storm = profile == "storm";
    P.injected = profile == "inject";
    if (P.injected) { P.early = false; P.lanes = P.lanes ? std::min(P.lanes, 2) : 0; }
    // some completions submit a follow-up job (only when the queue outlives every completion)
    if (!P.early && !P.injected)
      for (auto& L : P.launches)
        if (rng.chance(1, 4)) {
          JobPlan j;
          j.id = (int)P.jobs.size();
          j.name = "post" + num(L.id);
          j.viaCompletion = true;
          j.high = rng.chance(1, 2);
          j.parent = L.job;
          P.jobs.push_back(j);
          L.complJob = j.id;
        }
    P.flags = std::string(P.storm ? "storm" : P.injected ? "inject" : "plain");
    return;
  }
  if (profile == "cancel" || profile == "cancelkill" || profile == "cancelcompl") {
    g.queueConfig(15);
    int n = 30 + (int)rng.below(70);
    g.jobs(n, 40, 20000);
    int nl = 8 + (int)rng.below(20);
    bool killOnly = profile == "cancelkill";
    int kills = 0;
    for (int i = 0; i < nl; ++i) {
      int job = g.pickLaunchJob();
      unsigned r = (unsigned)rng.below(100);
      if (r < 50) { size_t b = P.launches.size(); g.hangChild(job, killOnly && kills < 2); if (P.launches[b].needsKill) ++kills; }
      else if (r < 80) g.volumeChild(job, false);
      else if (r < 90) g.releaseChild(job, rng.chance(1, 2) ? 0 : 4, 60);
      else g.badExe(job);
    }
    // hanging children need a cancellation that is certain to come, and lanes for it to be reached: use the thread
    // modes keyed on process starts / body starts (K small), or a cancelling job among the roots
    int hangs = 0;
    for (auto& L : P.launches) hangs += L.hang;
    unsigned m = (unsigned)rng.below(4);
    if (m == 0) { P.cancelMode = 1; P.cancelK = n / 3 + (int)rng.below(std::max(1, n - n / 3)); }
    else if (m == 1) { P.cancelMode = 2; P.cancelK = nl / 3 + (int)rng.below(std::max(1, nl - nl / 3)); }
    else if (m == 2) { P.cancelMode = 2; P.cancelK = 1 + (int)rng.below(3); }
    else { P.cancelMode = 1; P.cancelK = 1 + (int)rng.below(std::max(1, n / 4)); }
    // with hang children every lane may be blocked before K is reached: the canceller also fires when all lanes
    // are occupied by hang children (handled at run time through the K-or-stall rule)
    P.early = killOnly ? rng.chance(1, 2) : rng.chance(1, 3);
    if (rng.chance(1, 3)) P.escalationDelayUs = 2000 + (int)rng.below(30000);
    P.submitters = (int)rng.below(2);
    if (profile == "cancelcompl") {
      P.early = false;
      for (auto& L : P.launches)
        if (rng.chance(1, 2)) {
          JobPlan j;
          j.id = (int)P.jobs.size();
          j.name = "post" + num(L.id);
          j.viaCompletion = true;
          j.parent = L.job;
          P.jobs.push_back(j);
          L.complJob = j.id;
        }
    }
    P.flags = profile + (hangs ? "+hang" : "");
    return;
  }
  if (profile == "releasekill") {
    // children that gave their lane back and that only SIGKILL can stop; everything else finishes, the canceller fires on the
    // stall rule, and the queue is destroyed at once: the lanes are idle, so only the escalation timer can end those children
    static const int ls[] = {1, 2, 3};
    P.lanes = ls[rng.below(3)];
    P.alg = (int)rng.below(2);
    int n = 4 + (int)rng.below(8);
    g.jobs(n, 30, 3000);
    int nk = 1 + (int)rng.below(2);
    for (int i = 0; i < nk; ++i) g.hangChild(g.pickLaunchJob(), true, true);
    int nv = (int)rng.below(4);
    for (int i = 0; i < nv; ++i) g.volumeChild(g.pickLaunchJob(), false);
    P.cancelMode = 1; P.cancelK = 1000000;   // never reached: the stall rule fires once only the hanging children are left
    P.early = rng.chance(3, 4);
    if (rng.chance(1, 2)) P.escalationDelayUs = 2000 + (int)rng.below(30000);
    P.flags = "releasekill+hang";
    return;
  }
  if (profile == "faults") {
    g.queueConfig(15);
    int n = 20 + (int)rng.below(40);
    g.jobs(n, 30, 10000);
    int nl = 6 + (int)rng.below(14);
    for (int i = 0; i < nl; ++i) {
      int job = g.pickLaunchJob();
      if (rng.chance(1, 2)) g.badExe(job); else g.volumeChild(job, false);
    }
    if (rng.chance(1, 2)) { P.fdSlots = (int)rng.below(7); P.early = false; }
    else P.early = rng.chance(1, 3);
    P.flags = P.fdSlots >= 0 ? "fdlimit" + num(P.fdSlots) : "badexe";
    return;
  }
  if (profile == "release") {
    // released-lane children outliving their job; the queue is destroyed right after the last completion (W) or
    // while they are still running (E, the delegate spends time inside processFinished)
    static const int ls[] = {1, 2, 3, 8};
    P.lanes = ls[rng.below(4)];
    P.alg = (int)rng.below(2);
    int n = 8 + (int)rng.below(30);
    g.jobs(n, 30, 5000);
    int nl = 2 + (int)rng.below(8);
    for (int i = 0; i < nl; ++i) g.releaseChild(g.pickLaunchJob(), rng.chance(1, 4) ? 4 : 0, 30);
    P.early = rng.chance(1, 2);
    if (P.early)
      for (auto& L : P.launches) L.slowFinishUs = 500 + (int)rng.below(3000);
    // the completion of a released-lane child submits a follow-up job; with E the queue is already being destroyed then, and the
    // job still has to run before the destructor returns
    for (auto& L : P.launches)
      if (rng.chance(1, 3)) {
        JobPlan j;
        j.id = (int)P.jobs.size();
        j.name = "post" + num(L.id);
        j.viaCompletion = true;
        j.high = rng.chance(1, 2);
        j.parent = L.job;
        P.jobs.push_back(j);
        L.complJob = j.id;
      }
    P.flags = "release";
    return;
  }
  if (profile == "env" || profile == "envreserved") {
    g.queueConfig(20);
    int n = 10 + (int)rng.below(30);
    g.jobs(n, 30, 5000);
    P.explicitBase = rng.chance(2, 3);
    bool reserved = profile == "envreserved";
    bool baseReserved = reserved && rng.chance(1, 2);
    if (baseReserved) P.explicitBase = true;
    if (P.explicitBase) {
      P.baseEnv = {"QM_BASE1=b1", "QM_SHARED=from-base", "PATH=/usr/bin:/bin", "QM_BASE_EMPTY=", "QM_BASE_EQ=x=y", "HOME=/nonexistent"};
      if (rng.chance(1, 2)) P.baseEnv.push_back("LLBUILD_LANE_ID=base-lane");
      if (rng.chance(1, 2)) P.baseEnv.push_back("LLBUILD_BUILD_ID=base-build");
      if (baseReserved) {
        if (rng.chance(1, 2)) P.baseEnv.push_back("LLBUILD_TASK_ID=base-task"); else P.baseEnv.push_back("LLBUILD_CONTROL_FD=9998");
      }
    }
    int nl = 4 + (int)rng.below(10);
    for (int i = 0; i < nl; ++i) g.envChild(g.pickLaunchJob(), reserved ? (baseReserved ? 2 : 1) : 0);
    if (baseReserved) for (auto& L : P.launches) L.inherit = true;
    P.early = rng.chance(1, 4);
    P.flags = profile + (P.explicitBase ? "+base" : "+environ");
    return;
  }
  fprintf(stderr, "unknown profile %s\n", profile.c_str());
  exit(2);
}

// ------------------------------------------------------------------------------------------------ watchdog & storm

static std::atomic<bool> g_stormOn{false};
static std::atomic<bool> g_exit{false};
static std::atomic<uint64_t> g_stormSignals{0};
static char g_hangMsg[8192];
static std::atomic<int> g_hangMsgLen{0};
static std::mutex g_hangMu;  // protects g_hangMsg against the main thread updating it

static void setHangContext(const CasePlan& p, const char* phase) {
  g_phase.store(phase);
  std::string k = std::string("hang: no event for the watchdog period while ") + phase + " (" + (p.lanes ? "lane queue" : "serial queue") + ", profile " + p.profile + ")";
  std::string s = "{\"viol\":" + vf::jstr(k) + ",\"witness\":{\"case\":" + describe(p) + ",\"replay_args\":" + vf::jstr(replayArgs(p)) + "}}\n";
  std::lock_guard<std::mutex> g(g_hangMu);
  size_t n = std::min(s.size(), sizeof g_hangMsg - 1);
  memcpy(g_hangMsg, s.data(), n);
  g_hangMsgLen.store((int)n);
}

static void watchdogMain() {
  sigset_t ss;
  sigemptyset(&ss);
  sigaddset(&ss, SIGUSR1);
  pthread_sigmask(SIG_BLOCK, &ss, nullptr);
  while (!g_exit.load()) {
    sleep_us(200000);
    if (!g_caseActive.load()) continue;
    uint64_t last = g_lastEvent.load();
    uint64_t now = now_ns();
    if (now > last && (now - last) / 1000000 > g_watchdogMs) {
      std::lock_guard<std::mutex> g(g_hangMu);
      ssize_t r = write(1, g_hangMsg, (size_t)g_hangMsgLen.load());
      (void)r;
      _exit(3);
    }
  }
}

static void usr1Handler(int) {}

static void stormMain() {
  std::vector<int> tids;
  int self = mytid();
  int pid = getpid();
  unsigned round = 0;
  while (!g_exit.load()) {
    if (!g_stormOn.load()) { sleep_us(2000); continue; }
    if (round++ % 8 == 0) {
      tids.clear();
      DIR* d = opendir("/proc/self/task");
      if (d) {
        while (dirent* e = readdir(d))
          // every thread except this one and the main thread: the main thread only submits, waits on condition variables
          // and joins; a signal taken inside pthread_join's internal free() deadlocks the clang-14 TSan runtime itself
          // (CallUserSignalHandler -> SlotLock while FreeBlock holds the slot), which is not llbuild's doing.
          if (e->d_name[0] != '.') { int t = atoi(e->d_name); if (t != self && t != pid) tids.push_back(t); }
        closedir(d);
      }
    }
    for (int t : tids)
      if (syscall(SYS_tgkill, pid, t, SIGUSR1) == 0) g_stormSignals.fetch_add(1, std::memory_order_relaxed);
    sleep_us(150);
  }
}

// ------------------------------------------------------------------------------------------------ running one case

static void runCase(const std::string& profile, uint64_t seed, int index, bool thorough, int baselineThreads) {
  std::unique_ptr<Case> cp(new Case);
  Case& c = *cp;
  generate(c.plan, profile, seed, index, thorough);
  CasePlan& P = c.plan;
  c.del.c = &c;
  c.lrt.resize(P.launches.size());
  for (auto& j : P.jobs) c.descs.emplace_back(new JobDesc(&c, j.id, j.name));
  for (auto& l : P.launches) c.ldel.emplace_back(new LaunchDelegate(&c, l.id));
  const int nJobs = (int)P.jobs.size(), nLaunches = (int)P.launches.size();
  c.log.v.reserve(size_t(nJobs) * 6 + size_t(nLaunches) * 300 + 64);

  fprintf(stderr, "@case %d\n", index);
  g_lastEvent.store(now_ns());
  g_escalationDelayUs.store(P.escalationDelayUs);
  setHangContext(P, "creating the queue");
  g_caseActive.store(1);

  const char* const* basep = nullptr;
  if (P.explicitBase) {
    for (auto& s : P.baseEnv) c.baseEnvp.push_back(s.c_str());
    c.baseEnvp.push_back(nullptr);
    basep = c.baseEnvp.data();
  }
  std::unique_ptr<ExecutionQueue> serialHolder;
  if (P.lanes) c.q = createLaneBasedExecutionQueue(c.del, P.zeroLaneSuggestion ? 0 : P.lanes, P.alg ? SchedulerAlgorithm::FIFO : SchedulerAlgorithm::NamePriority, QualityOfService::Normal, basep);
  else { serialHolder = createSerialQueue(c.del, basep); c.q = serialHolder.release(); }

  // descriptor exhaustion: plug the holes, then leave exactly fdSlots free slots
  std::vector<int> plugs;
  rlimit oldLim{};
  if (P.fdSlots >= 0) {
    int maxfd = 2;
    DIR* d = opendir("/proc/self/fd");
    int dfd = d ? dirfd(d) : -1;
    if (d) {
      while (dirent* e = readdir(d)) if (e->d_name[0] != '.') { int f = atoi(e->d_name); if (f != dfd && f > maxfd) maxfd = f; }
      closedir(d);
    }
    for (;;) {
      int f = open("/dev/null", O_RDONLY | O_CLOEXEC);
      if (f < 0) break;
      if (f > maxfd) { close(f); break; }
      plugs.push_back(f);
    }
    getrlimit(RLIMIT_NOFILE, &oldLim);
    rlimit nl = oldLim;
    nl.rlim_cur = (rlim_t)(maxfd + 1 + P.fdSlots);
    setrlimit(RLIMIT_NOFILE, &nl);
  }
  if (P.storm) g_stormOn.store(true);

  // canceller: fires after K body starts / process starts, or as soon as nothing has moved for 30 ms (all lanes
  // may be blocked by children that never exit on their own)
  std::thread canceller;
  if (P.cancelMode == 1 || P.cancelMode == 2) {
    Case* self = &c;
    canceller = std::thread([self]() {
      const CasePlan& P = self->plan;
      uint64_t lastMove = now_ns();
      int lastB = -1, lastP = -1;
      for (;;) {
        int b = self->bstarts.load(), p = self->pstarts.load();
        if (self->finished.load()) return;
        if ((P.cancelMode == 1 ? b : p) >= P.cancelK) break;
        if (b != lastB || p != lastP) { lastB = b; lastP = p; lastMove = now_ns(); }
        else if (now_ns() - lastMove > 30000000ull && (b > 0)) break;
        sleep_us(50);
      }
      self->cancel();
    });
  }

  setHangContext(P, "submitting jobs");
  {
    std::vector<std::thread> subs;
    std::vector<std::vector<int>> parts(P.submitters + 1);
    for (size_t i = 0; i < P.roots.size(); ++i) parts[i % parts.size()].push_back(P.roots[i]);
    Case* self = &c;
    for (int s = 1; s <= P.submitters; ++s)
      subs.emplace_back([self, &parts, s]() { for (int j : parts[s]) self->submit(j); });
    for (int j : parts[0]) c.submit(j);
    for (auto& t : subs) t.join();
  }

  bool dtorReturned = false;
  auto destroy = [&]() {
    setHangContext(P, "inside the queue destructor");
    c.log.add(E_DTOR_CALL, -1, -1);
    delete c.q;
    c.log.add(E_DTOR_RET, -1, -1);
    dtorReturned = true;
  };
  auto waitAll = [&](bool jobsToo) {
    std::unique_lock<std::mutex> lk(c.pm);
    c.pcv.wait(lk, [&]() { return (!jobsToo || c.jobsDone >= nJobs) && c.launchesDone >= nLaunches; });
  };

  if (P.early) {
    // E: the canceller (if any) must not race the destructor: a method call on an object being destroyed is a misuse
    if (canceller.joinable()) { setHangContext(P, "waiting for the cancellation trigger"); canceller.join(); }
    destroy();
    // every job body must be over now; completions of released-lane children may still be on their way
    setHangContext(P, "waiting for completion callbacks after the destructor returned");
    bool allJobs;
    { std::lock_guard<std::mutex> g(c.pm); allJobs = c.jobsDone >= nJobs; }
    if (allJobs) waitAll(false);
    else {
      // jobs were lost: launches of lost jobs will never be called; wait only for launches that were called
      for (;;) {
        int called = 0, done = 0;
        { std::lock_guard<std::mutex> g(c.log.m); for (auto& e : c.log.v) { called += e.kind == E_XCALL; done += e.kind == E_COMPL; } }
        if (done >= called) break;
        sleep_us(1000);
      }
    }
  } else {
    setHangContext(P, "waiting for every job body and completion callback");
    waitAll(true);
    c.finished.store(true);
    if (canceller.joinable()) canceller.join();
    destroy();
  }
  c.finished.store(true);
  if (canceller.joinable()) canceller.join();

  g_stormOn.store(false);
  if (P.fdSlots >= 0) {
    setrlimit(RLIMIT_NOFILE, &oldLim);
    for (int f : plugs) close(f);
  }
  // quiescence: background threads exit right after their completion callback; allow them a moment
  setHangContext(P, "waiting for quiescence");
  int threadsAfter = count_threads();
  for (int i = 0; i < 10000 && threadsAfter != baselineThreads; ++i) { sleep_us(1000); threadsAfter = count_threads(); g_lastEvent.store(now_ns()); }
  std::string which;
  int leftover = count_helper_children(&which);
  g_caseActive.store(0);

  {
    std::lock_guard<std::mutex> g(c.log.m);  // everything is quiescent; the lock only documents the access rule
    analyze(c, baselineThreads, threadsAfter, leftover, which, dtorReturned);
  }
  bump("cases");
  bump("escalation_thread_starts_delayed", (uint64_t)g_escalationDelayed.exchange(0));
  bump("jobs_planned", nJobs);
  if (g_sample.empty() && nLaunches > 2) {
    g_sample = "{\"case\":" + describe(P) + ",\"first_launch\":" + launchJson(c, 0) + "}";
  }
}

static void queueHook(void*, llbuild::basic::verif::QueuePoint pt) {
  if (pt == llbuild::basic::verif::QueuePoint::EscalationThreadStart) {
    int us = g_escalationDelayUs.load();
    if (us > 0) { g_escalationDelayed.fetch_add(1); sleep_us(us); }
  }
}

// ------------------------------------------------------------------------------------------------ main

int main(int argc, char** argv) {
  vf::Args a(argc, argv);
  if (!a.has("profile") || !a.has("child") || !a.has("dir")) {
    fprintf(stderr, "usage: queuemon --profile P --seed S (--from A --count N | --case I) --child <qchild> --dir <scratch> [--thorough] [--watchdog-ms M] [--bgmax N]\n");
    return 2;
  }
  g_child = a.s("child");
  g_dir = a.s("dir");
  g_watchdogMs = a.u("watchdog-ms", 60000);
  std::string profile = a.s("profile");
  uint64_t seed = a.u("seed", 1);
  bool thorough = a.has("thorough");
  g_argsForReplay = std::string(thorough ? "--thorough" : "") + (a.has("bgmax") ? " --bgmax " + a.s("bgmax") : "");

  // process-wide settings, before any thread exists
  llbuild::basic::verif::setQueueHook(queueHook, nullptr);
  setenv("LLBUILD_TEST", "1", 1);  // shortens the SIGKILL escalation after cancelAllJobs() from 10 s to 1 s
  if (a.has("bgmax")) setenv("LLBUILD_BACKGROUND_TASK_MAX", a.s("bgmax").c_str(), 1);
  setenv("QM_SHARED", "from-environ", 1);
  setenv("QM_INHERITED", "inherited-value", 1);
  for (char** p = environ; *p; ++p) g_environSnapshot.push_back(*p);
  rlimit core{0, 0};
  setrlimit(RLIMIT_CORE, &core);
  signal(SIGPIPE, SIG_IGN);
  struct sigaction sa;
  memset(&sa, 0, sizeof sa);
  sa.sa_handler = usr1Handler;  // deliberately without SA_RESTART
  sigaction(SIGUSR1, &sa, nullptr);

  mkdir(g_dir.c_str(), 0777);
  g_notexec = g_dir + "/not-executable";
  g_isdir = g_dir + "/a-directory";
  { FILE* f = fopen(g_notexec.c_str(), "w"); if (f) { fputs("#!/bin/sh\nexit 0\n", f); fclose(f); } chmod(g_notexec.c_str(), 0644); }
  mkdir(g_isdir.c_str(), 0777);

  std::thread wd(watchdogMain);
  std::thread storm(stormMain);
  sleep_us(20000);
  int baseline = count_threads();

  int from = (int)a.u("from", 0), count = (int)a.u("count", 1);
  if (a.has("case")) { from = (int)a.u("case", 0); count = 1; }
  for (int i = from; i < from + count; ++i) {
    runCase(profile, seed, i, thorough, baseline);
    if (!g_out.text.empty()) { fwrite(g_out.text.data(), 1, g_out.text.size(), stdout); fflush(stdout); g_out.text.clear(); }
  }
  g_exit.store(true);
  wd.join();
  storm.join();

  std::string s = "{\"summary\":{";
  bump("storm_signals", g_stormSignals.load());
  bump("suppressed_duplicate_violations", g_out.suppressed);
  for (auto& kv : g_sum) s += vf::jstr(kv.first) + ":" + num((long long)kv.second) + ",";
  s += "\"distinct\":[";
  bool first = true;
  for (uint32_t d : g_distinct) { s += (first ? "" : ",") + num(d); first = false; }
  s += "],\"sample\":" + (g_sample.empty() ? std::string("null") : g_sample) + "}}\n";
  fwrite(s.data(), 1, s.size(), stdout);
  fflush(stdout);
  return 0;
}
