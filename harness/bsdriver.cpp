// bsdriver: thin client of BuildSystemFrontend used by the build-system monitor. Writes a JSONL event log of its
// delegate callbacks and of every FileSystem::remove() call; can build a target or a single node, twice in one
// process, cancel on the N-th event, keep going after failures, or only print command signatures.
#include "common.h"
#include "llbuild/Basic/FileSystem.h"
#include "llbuild/BuildSystem/BuildKey.h"
#include "llbuild/BuildSystem/BuildSystemFrontend.h"
#include "llbuild/BuildSystem/Command.h"
#include "llbuild/BuildSystem/BuildNode.h"
#include "llbuild/BuildSystem/Tool.h"
#include "llvm/Support/MemoryBuffer.h"
#include "llvm/Support/SourceMgr.h"

#include <atomic>
#include <mutex>
#include <unistd.h>

using namespace llbuild;
using namespace llbuild::buildsystem;

static std::mutex gMu;
static FILE* gEv = nullptr;
static std::atomic<long> gEventNo{0};
static long gCancelAt = -1;
static bool gKeepGoing = false, gSignaturesOnly = false;
class Delegate;
static Delegate* gDelegate = nullptr;

static void emit(const std::string& json);

class LoggingFS : public basic::FileSystem {
  std::unique_ptr<basic::FileSystem> impl;
public:
  explicit LoggingFS(std::unique_ptr<basic::FileSystem> fs) : impl(std::move(fs)) {}
  bool createDirectory(const std::string& p) override { return impl->createDirectory(p); }
  bool createDirectories(const std::string& p) override { return impl->createDirectories(p); }
  std::unique_ptr<llvm::MemoryBuffer> getFileContents(const std::string& p) override { return impl->getFileContents(p); }
  bool remove(const std::string& p) override { bool r = impl->remove(p); emit("{\"ev\":\"fs_remove\",\"path\":" + vf::jstr(p) + ",\"ok\":" + (r ? "true" : "false") + "}"); return r; }
  basic::FileChecksum getFileChecksum(const std::string& p) override { return impl->getFileChecksum(p); }
  basic::FileInfo getFileInfo(const std::string& p) override { return impl->getFileInfo(p); }
  basic::FileInfo getLinkInfo(const std::string& p) override { return impl->getLinkInfo(p); }
  bool createSymlink(const std::string& a, const std::string& b) override { return impl->createSymlink(a, b); }
};

class Delegate : public BuildSystemFrontendDelegate {
public:
  Delegate(llvm::SourceMgr& sm) : BuildSystemFrontendDelegate(sm, "basic", 0) {}
  std::unique_ptr<Tool> lookupTool(StringRef) override { return nullptr; }
  void cycleDetected(const std::vector<core::Rule*>& items) override {
    emit("{\"ev\":\"cycle\",\"msg\":" + vf::jstr(BuildSystemInvocation::formatDetectedCycle(items)) + "}");
  }
  void hadCommandFailure() override { emit("{\"ev\":\"hadCommandFailure\"}"); BuildSystemFrontendDelegate::hadCommandFailure(); if (!gKeepGoing) cancel(); }
  void commandPreparing(Command* c) override {
    char b[32]; snprintf(b, sizeof b, "%016llx", (unsigned long long)c->getSignature().value);
    emit("{\"ev\":\"preparing\",\"cmd\":" + vf::jstr(c->getName().str()) + ",\"sig\":\"" + b + "\"}");
  }
  bool shouldCommandStart(Command* c) override { emit("{\"ev\":\"shouldStart\",\"cmd\":" + vf::jstr(c->getName().str()) + "}"); return !gSignaturesOnly; }
  void commandStarted(Command* c) override { emit("{\"ev\":\"started\",\"cmd\":" + vf::jstr(c->getName().str()) + "}"); }
  void commandFinished(Command* c, basic::ProcessStatus st) override { emit("{\"ev\":\"finished\",\"cmd\":" + vf::jstr(c->getName().str()) + ",\"status\":" + std::to_string((int)st) + "}"); }
  void commandHadError(Command* c, StringRef d) override { emit("{\"ev\":\"error\",\"cmd\":" + vf::jstr(c ? c->getName().str() : "") + ",\"msg\":" + vf::jstr(d.str()) + "}"); BuildSystemFrontendDelegate::commandHadError(c, d); }
  void commandHadNote(Command* c, StringRef d) override { emit("{\"ev\":\"note\",\"cmd\":" + vf::jstr(c ? c->getName().str() : "") + ",\"msg\":" + vf::jstr(d.str()) + "}"); }
  void commandHadWarning(Command* c, StringRef d) override { emit("{\"ev\":\"warning\",\"cmd\":" + vf::jstr(c ? c->getName().str() : "") + ",\"msg\":" + vf::jstr(d.str()) + "}"); }
  void commandFoundDiscoveredDependency(Command* c, StringRef path, DiscoveredDependencyKind k) override {
    emit("{\"ev\":\"discovered\",\"cmd\":" + vf::jstr(c->getName().str()) + ",\"path\":" + vf::jstr(path.str()) + ",\"kind\":" + std::to_string((int)k) + "}");
  }
  void commandCannotBuildOutputDueToMissingInputs(Command* c, Node* out, ArrayRef<BuildKey> inputs) override {
    std::string l; for (auto& k : inputs) l += (k.isNode() ? k.getNodeName().str() : std::string("?")) + " ";
    emit("{\"ev\":\"missingInputs\",\"cmd\":" + vf::jstr(c ? c->getName().str() : "") + ",\"inputs\":" + vf::jstr(l) + "}");
    BuildSystemFrontendDelegate::commandCannotBuildOutputDueToMissingInputs(c, out, inputs);
  }
  void determinedRuleNeedsToRun(core::Rule* r, core::Rule::RunReason reason, core::Rule* in) override {
    auto desc = [](core::Rule* x) { if (!x) return std::string(); auto k = BuildKey::fromData(x->key); return k.isCommand() ? "cmd:" + k.getCommandName().str() : k.isNode() ? "node:" + k.getNodeName().str() : std::string("other"); };
    emit("{\"ev\":\"needsToRun\",\"rule\":" + vf::jstr(desc(r)) + ",\"reason\":" + std::to_string((int)reason) + ",\"input\":" + vf::jstr(desc(in)) + "}");
  }
  void commandProcessHadOutput(Command*, ProcessHandle, StringRef) override {}
  void errorMsg(const std::string& m) { emit("{\"ev\":\"frontendError\",\"msg\":" + vf::jstr(m) + "}"); }
};

static void emit(const std::string& json) {
  long n = gEventNo++;
  {
    std::lock_guard<std::mutex> g(gMu);
    if (gEv) { fprintf(gEv, "%s\n", json.c_str()); fflush(gEv); }
  }
  if (gCancelAt >= 0 && n == gCancelAt && gDelegate) { { std::lock_guard<std::mutex> g(gMu); if (gEv) { fprintf(gEv, "{\"ev\":\"cancelIssued\"}\n"); fflush(gEv); } } gDelegate->cancel(); }
}

int main(int argc, char** argv) {
  vf::Args a(argc, argv);
  BuildSystemInvocation inv;
  inv.buildFilePath = a.s("f", "build.llbuild");
  inv.dbPath = a.has("no-db") ? "" : a.s("db", "build.db");
  inv.useSerialBuild = !a.has("jobs");
  if (a.has("jobs")) inv.schedulerLanes = (uint32_t)a.u("jobs", 4);
  if (a.has("chdir")) { if (chdir(a.s("chdir").c_str()) != 0) { perror("chdir"); return 2; } }
  gCancelAt = a.has("cancel-on-event") ? (long)a.u("cancel-on-event", 0) : -1;
  gKeepGoing = a.has("keep-going");
  gSignaturesOnly = a.has("signatures");
  if (gSignaturesOnly) inv.dbPath = "";
  std::string evp = a.s("events", "");
  if (!evp.empty()) gEv = fopen(evp.c_str(), "a");
  llvm::SourceMgr sm;
  Delegate del(sm);
  gDelegate = &del;
  BuildSystemFrontend fe(del, inv, std::unique_ptr<basic::FileSystem>(new LoggingFS(basic::createLocalFileSystem())));
  int rounds = a.has("twice") ? 2 : 1;
  bool ok = true;
  for (int r = 0; r < rounds; ++r) {
    emit("{\"ev\":\"buildBegin\",\"round\":" + std::to_string(r) + "}");
    bool res = a.has("node") ? fe.buildNode(a.s("node")) : fe.build(a.s("target", ""));
    emit(std::string("{\"ev\":\"buildEnd\",\"ok\":") + (res ? "true" : "false") + ",\"errors\":" + std::to_string(del.getNumErrors()) + ",\"failed\":" + std::to_string(del.getNumFailedCommands()) + "}");
    ok = ok && res;
    if (a.has("between-cmd") && r == 0) { if (system(a.s("between-cmd").c_str()) != 0) {} }
  }
  if (gEv) fclose(gEv);
  return ok ? 0 : 1;
}
