/* Helper child for the C16 queue/subprocess monitor (harness/queuemon.cpp).
 * Its behaviour is its first argument: a comma separated list of operations executed in order.
 *
 *   tN   set the pattern tag (default 0)
 *   oN   write N pattern bytes to stdout          eN   write N pattern bytes to stderr
 *        (byte g of the merged stream is pat(tag, g), g counts bytes over both descriptors)
 *   sN   sleep N milliseconds                     h    sleep forever (until killed)
 *   xN   exit with code N                         kN   send signal N to itself
 *   c    close stdout and stderr                  C    close the control descriptor
 *   i    ignore SIGINT
 *   r    release the lane: "llbuild.1\n<LLBUILD_TASK_ID>\n" on LLBUILD_CONTROL_FD
 *   R1   same with a wrong task id   R2  wrong protocol version   R3  over-long message without newline
 *   R4   correct release written one byte at a time
 *   E    print the environment block (ENV{ ... }ENV) and whether the control descriptor is open
 * Falling off the end exits 0.  Must be linked statically (it has to start with no free descriptor slots).
 */
#include <errno.h>
#include <fcntl.h>
#include <signal.h>
#include <stdio.h>
#include <stdlib.h>
#include <string.h>
#include <time.h>
#include <unistd.h>

extern char **environ;

static unsigned long long g_off = 0;
static unsigned g_tag = 0;

static unsigned char pat(unsigned tag, unsigned long long g) {
  return (unsigned char)((g ^ (g >> 7) ^ (tag * 31u)) + (g >> 13) + tag);
}

static void wr_all(int fd, const void *p, size_t n) {
  const char *c = (const char *)p;
  while (n) {
    ssize_t k = write(fd, c, n);
    if (k < 0) {
      if (errno == EINTR) continue;
      return; /* EPIPE / EBADF: nothing more we can do */
    }
    c += k;
    n -= (size_t)k;
  }
}

static void emit(int fd, unsigned long long n) {
  static unsigned char buf[65536];
  while (n) {
    size_t k = n > sizeof buf ? sizeof buf : (size_t)n;
    for (size_t i = 0; i < k; ++i) buf[i] = pat(g_tag, g_off + i);
    wr_all(fd, buf, k);
    g_off += k;
    n -= k;
  }
}

static void msleep(unsigned long ms) {
  struct timespec ts;
  ts.tv_sec = ms / 1000;
  ts.tv_nsec = (long)(ms % 1000) * 1000000L;
  while (nanosleep(&ts, &ts) == -1 && errno == EINTR) {
  }
}

static int ctlfd(void) {
  const char *s = getenv("LLBUILD_CONTROL_FD");
  if (!s || !*s) return -1;
  char *end;
  long v = strtol(s, &end, 10);
  if (*end || v < 0) return -1;
  return (int)v;
}

static void release(int mode) {
  int fd = ctlfd();
  const char *id = getenv("LLBUILD_TASK_ID");
  char msg[512];
  if (fd < 0) return;
  if (!id) id = "";
  switch (mode) {
  case 1: snprintf(msg, sizeof msg, "llbuild.1\nnot-%s\n", "me"); break;
  case 2: snprintf(msg, sizeof msg, "llbuild.9\n%s\n", id); break;
  case 3: snprintf(msg, sizeof msg, "0123456789abcdef0123456789abcdef0123456789"); break;
  default: snprintf(msg, sizeof msg, "llbuild.1\n%s\n", id); break;
  }
  if (mode == 4) {
    for (size_t i = 0; msg[i]; ++i) {
      wr_all(fd, msg + i, 1);
      if (i % 3 == 0) msleep(1);
    }
  } else {
    wr_all(fd, msg, strlen(msg));
  }
}

static void print_env(void) {
  /* one write per line keeps lines whole even when the reader is slow; content is parsed, not compared bytewise */
  const char *b = "\nENV{\n", *e = "}ENV\n";
  wr_all(1, b, strlen(b));
  for (char **p = environ; *p; ++p) {
    /* backslash and newline are escaped so that one entry is one line */
    size_t n = strlen(*p), k = 0;
    char *line = (char *)malloc(2 * n + 2);
    if (!line) _exit(97);
    for (size_t i = 0; i < n; ++i) {
      char ch = (*p)[i];
      if (ch == '\\') { line[k++] = '\\'; line[k++] = '\\'; }
      else if (ch == '\n') { line[k++] = '\\'; line[k++] = 'n'; }
      else line[k++] = ch;
    }
    line[k++] = '\n';
    wr_all(1, line, k);
    free(line);
  }
  wr_all(1, e, strlen(e));
  int fd = ctlfd();
  const char *st = "CTLFD=none\n";
  if (fd >= 0) st = (fcntl(fd, F_GETFD) != -1) ? "CTLFD=open\n" : "CTLFD=closed\n";
  wr_all(1, st, strlen(st));
}

int main(int argc, char **argv) {
  signal(SIGPIPE, SIG_IGN);
  if (argc < 2) return 0;
  char *spec = strdup(argv[1]);
  for (char *tok = strtok(spec, ","); tok; tok = strtok(NULL, ",")) {
    char op = tok[0];
    unsigned long long n = strtoull(tok + 1, NULL, 10);
    switch (op) {
    case 't': g_tag = (unsigned)n; break;
    case 'o': emit(1, n); break;
    case 'e': emit(2, n); break;
    case 's': msleep((unsigned long)n); break;
    case 'h': for (;;) msleep(1000); break;
    case 'x': _exit((int)n);
    case 'k':
      signal((int)n, SIG_DFL);
      kill(getpid(), (int)n);
      msleep(5000); /* the signal is fatal; never reached for the signals the harness uses */
      _exit(99);
    case 'c': close(1); close(2); break;
    case 'C': { int fd = ctlfd(); if (fd >= 0) close(fd); break; }
    case 'i': signal(SIGINT, SIG_IGN); break;
    case 'r': release(0); break;
    case 'R': release((int)n); break;
    case 'E': print_env(); break;
    default: _exit(98);
    }
  }
  return 0;
}
