// C11 (parser part): round trip and corruption monitor for MakefileDepsParser and DependencyInfoParser.
//
// Every input is presented without terminator in a buffer whose last byte is the last byte of a readable page, the next
// page being PROT_NONE: a read one byte past the end faults, is caught here, recorded as an over-read violation and the
// run continues (--heap uses an exact-size malloc buffer instead, so AddressSanitizer prints the stack of an over-read).
//
// Round trip: path lists are written with the documented escaping ("\ ", "\#", "\\", "$$"; everything else raw) in every
// layout (1..3 rules, several dependencies per line, " \"-newline continuations with LF and CRLF, LF / CRLF line ends,
// with / without final newline); the unescaped words handed to actOnRuleDependency must be the list, byte for byte, in
// order, with no error() call. Dependency-info: version + (opcode, NUL-free operand) records must come back in order.
// Corruptions are judged only when the result is malformed under the documented format (see classify*), everything else is
// counted as don't-care.
#include "common.h"
#include "llbuild/Core/DependencyInfoParser.h"
#include "llbuild/Core/MakefileDepsParser.h"

#include <algorithm>
#include <set>

// distinct 64-bit hashes, counted by sort + unique at the end (8 bytes per insertion instead of a tree node)
struct HashBag {
  std::vector<uint64_t> v;
  void insert(uint64_t h) { v.push_back(h); if (v.size() >= (1u << 24)) compact(); }
  void compact() { std::sort(v.begin(), v.end()); v.erase(std::unique(v.begin(), v.end()), v.end()); }
  size_t size() { compact(); return v.size(); }
};
#include <setjmp.h>
#include <signal.h>
#include <sys/mman.h>
#include <unistd.h>

using namespace llbuild;
using namespace llbuild::core;
using vf::jstr;

// Leaving the parser through siglongjmp after a caught over-read leaks its heap-grown word buffer: not a finding.
extern "C" const char* __asan_default_options() { return "detect_leaks=0"; }

// ------------------------------------------------------------------ guarded input buffer
static char* region = nullptr;
static size_t regionSize = 1 << 20, pageSize = 4096;
static bool heapMode = false;
static sigjmp_buf jmpEnv;
static volatile sig_atomic_t armed = 0;
static char* heapBuf = nullptr;

static void onFault(int sig, siginfo_t* si, void*) {
  char* addr = (char*)si->si_addr;
  if (armed && addr >= region + regionSize && addr < region + regionSize + pageSize) { armed = 0; siglongjmp(jmpEnv, 1); }
  signal(sig, SIG_DFL);  // a fault anywhere else is a crash: let it happen again with the default action
}
static void setupGuard() {
  pageSize = (size_t)sysconf(_SC_PAGESIZE);
  region = (char*)mmap(nullptr, regionSize + pageSize, PROT_READ | PROT_WRITE, MAP_PRIVATE | MAP_ANONYMOUS, -1, 0);
  if (region == MAP_FAILED || mprotect(region + regionSize, pageSize, PROT_NONE) != 0) { perror("mmap"); _exit(2); }
  struct sigaction sa;
  memset(&sa, 0, sizeof sa);
  sa.sa_sigaction = onFault;
  sa.sa_flags = SA_SIGINFO | SA_NODEFER;
  sigaction(SIGSEGV, &sa, nullptr);
  sigaction(SIGBUS, &sa, nullptr);
}
static StringRef place(const std::string& s) {
  if (heapMode) {
    free(heapBuf);
    heapBuf = (char*)malloc(s.size() ? s.size() : 1);   // size 0: a one byte block, the parser is given length 0
    memcpy(heapBuf, s.data(), s.size());
    return StringRef(s.size() ? heapBuf : heapBuf + 1, s.size());
  }
  if (s.size() > regionSize) { fprintf(stderr, "input too large\n"); _exit(2); }
  char* p = region + regionSize - s.size();
  memcpy(p, s.data(), s.size());
  return StringRef(p, s.size());
}

// ------------------------------------------------------------------ recorders
struct MkRec : MakefileDepsParser::ParseActions {
  std::vector<std::string> deps, errors, targets;
  std::vector<unsigned> depsPerRule;
  unsigned starts = 0, ends = 0;
  bool inRule = false, protocolBroken = false;
  void error(StringRef m, uint64_t pos) override { errors.push_back(m.str() + " @" + std::to_string(pos)); }
  void actOnRuleStart(StringRef, StringRef un) override { if (inRule) protocolBroken = true; inRule = true; ++starts; targets.push_back(un.str()); depsPerRule.push_back(0); }
  void actOnRuleDependency(StringRef, StringRef un) override { if (!inRule) protocolBroken = true; else ++depsPerRule.back(); deps.push_back(un.str()); }
  void actOnRuleEnd() override { if (!inRule) protocolBroken = true; inRule = false; ++ends; }
};
struct DiRec : DependencyInfoParser::ParseActions {
  std::vector<std::pair<int, std::string>> events;  // opcode, operand
  std::vector<std::string> errors;
  void error(const char* m, uint64_t pos) override { errors.push_back(std::string(m) + " @" + std::to_string(pos)); }
  void actOnVersion(StringRef s) override { events.emplace_back(0x00, s.str()); }
  void actOnInput(StringRef s) override { events.emplace_back(0x10, s.str()); }
  void actOnOutput(StringRef s) override { events.emplace_back(0x40, s.str()); }
  void actOnMissing(StringRef s) override { events.emplace_back(0x11, s.str()); }
};

// returns false when the parser read past the end of the buffer
static bool parseMk(const std::string& input, bool ignoreSubsequent, MkRec& rec) {
  StringRef d = place(input);
  if (!heapMode) {
    if (sigsetjmp(jmpEnv, 1)) return false;
    armed = 1;
  }
  MakefileDepsParser(d, rec, ignoreSubsequent).parse();
  armed = 0;
  return true;
}
static bool parseDi(const std::string& input, DiRec& rec) {
  StringRef d = place(input);
  if (!heapMode) {
    if (sigsetjmp(jmpEnv, 1)) return false;
    armed = 1;
  }
  DependencyInfoParser(d, rec).parse();
  armed = 0;
  return true;
}

// ------------------------------------------------------------------ reporting
static unsigned long nViol = 0;
static std::map<std::string, unsigned long> violCount;
static std::map<std::string, std::string> smallestHex;   // key -> smallest input (hex)
static std::map<std::string, std::string> smallestExtra;
static void report(const std::string& key, const std::string& input, const std::string& extraJson) {
  ++nViol;
  ++violCount[key];
  std::string h = vf::hex(input);
  auto it = smallestHex.find(key);
  if (it == smallestHex.end() || h.size() < it->second.size()) { smallestHex[key] = h; smallestExtra[key] = extraJson; }
}
static std::string listJson(const std::vector<std::string>& v) {
  std::string o = "[";
  for (size_t i = 0; i < v.size(); ++i) o += (i ? "," : "") + jstr(v[i]);
  return o + "]";
}

// ------------------------------------------------------------------ Makefile-style generator
static std::string escapeMk(const std::string& p) {
  std::string o;
  for (char c : p) {
    if (c == ' ' || c == '#' || c == '\\') { o += '\\'; o += c; }
    else if (c == '$') o += "$$";
    else o += c;
  }
  return o;
}
static std::string genPathMk(vf::Rng& r) {
  static const char special[] = {' ', '#', '$', '\\', ':', '%', '"', '\'', '/', '.', '-', '_', '=', '~', '(', ')', '*', '?', '[', '|', ';', '&', '<', '!', '@', '+', ','};
  for (;;) {
    size_t n = r.chance(1, 10) ? 1 : 1 + r.below(r.chance(1, 20) ? 300 : 16);
    std::string s(n, 0);
    unsigned style = r.below(4);
    for (size_t i = 0; i < n; ++i) {
      unsigned char c;
      unsigned w = r.below(10);
      if (style == 0) c = "abc/."[r.below(5)];
      else if (w < 4) c = (unsigned char)special[r.below(style == 1 ? 5 : sizeof special)];
      else if (w < 5) c = (unsigned char)(0x80 + r.below(0x80));
      else if (w < 6 && style == 3) c = (unsigned char)(1 + r.below(0x7f));
      else c = (unsigned char)('a' + r.below(26));
      if (c == 0 || c == '\t' || c == '\r' || c == '\n') c = 'x';   // not expressible in the format
      s[i] = (char)c;
    }
    if (s[0] == ':') continue;   // a word cannot begin with a colon (the colon ends the previous token); not expressible
    return s;
  }
}
struct MkFile {
  std::string bytes;
  std::vector<std::vector<std::string>> rules;   // dependency lists
  std::vector<size_t> escapeStarts;              // offsets of backslashes that begin an escape or continuation, and of the first '$' of "$$"
  std::vector<size_t> depStarts;                 // offsets where a dependency word begins
  size_t firstColon = 0, firstTargetLen = 0;
  bool special = false;
};
static void emitWord(MkFile& f, const std::string& path) {
  for (char c : path) {
    if (c == ' ' || c == '#' || c == '\\') { f.escapeStarts.push_back(f.bytes.size()); f.bytes += '\\'; f.bytes += c; f.special = true; }
    else if (c == '$') { f.escapeStarts.push_back(f.bytes.size()); f.bytes += "$$"; f.special = true; }
    else { if (c == ':' || (unsigned char)c >= 0x80) f.special = true; f.bytes += c; }
  }
}
static void emitContinuation(MkFile& f, vf::Rng& r, bool crlf, bool allowNoSpace) {
  // " \<newline>" as compilers write it; for LF also the form without the space, which make defines as a separator too
  if (!(allowNoSpace && !crlf && r.chance(1, 5))) f.bytes += std::string(1 + r.below(2), ' ');
  f.escapeStarts.push_back(f.bytes.size());
  f.bytes += crlf ? "\\\r\n" : "\\\n";
  f.bytes += std::string(r.below(4), ' ');
}
static MkFile genMkFile(vf::Rng& r) {
  MkFile f;
  unsigned nrules = r.chance(2, 3) ? 1 : 2 + r.below(2);
  bool crlf = r.chance(1, 4), finalNewline = r.chance(2, 3);
  static const char* tnames[] = {"out.o", "a/b/main.o", "x", "my\\ out.o", "t$$x", "lib-1.2_3.a", "\\#gen.o"};
  for (unsigned ri = 0; ri < nrules; ++ri) {
    std::string t = tnames[r.below(sizeof tnames / sizeof *tnames)];
    if (ri == 0) f.firstTargetLen = t.size();
    f.bytes += t;
    if (r.chance(1, 8)) f.bytes += " ";
    if (ri == 0) f.firstColon = f.bytes.size();
    f.bytes += ':';
    std::vector<std::string> deps;
    unsigned nd = r.chance(1, 12) ? 0 : 1 + r.below(r.chance(1, 10) ? 40 : 6);
    for (unsigned di = 0; di < nd; ++di) {
      // separator before the word (after the colon, the word may follow directly)
      unsigned w = r.below(10);
      if (w < 3) emitContinuation(f, r, crlf, di > 0);
      else if (di == 0 && w == 3) {}
      else f.bytes += std::string(1 + r.below(3), ' ');
      std::string p = genPathMk(r);
      f.depStarts.push_back(f.bytes.size());
      emitWord(f, p);
      deps.push_back(p);
    }
    f.rules.push_back(deps);
    if (r.chance(1, 10)) f.bytes += " ";
    bool last = ri + 1 == nrules;
    if (!last || finalNewline) {
      f.bytes += crlf ? "\r\n" : "\n";
      if (!last && r.chance(1, 3)) f.bytes += crlf ? "\r\n" : "\n";
    }
  }
  return f;
}

struct Counters {
  unsigned long mkRoundTrips = 0, mkIgnoreRoundTrips = 0, mkCorruptJudged = 0, mkCorruptDontCare = 0, mkDeps = 0, mkOverReads = 0;
  unsigned long diRoundTrips = 0, diCorruptJudged = 0, diCorruptDontCare = 0, diRecords = 0, diOverReads = 0, errorCallsSeen = 0;
  std::map<std::string, unsigned long> byClass;
};
static Counters C;
static HashBag distinct;

static void checkMkRoundTrip(const MkFile& f, bool ignoreSubsequent) {
  MkRec rec;
  std::vector<std::string> want;
  size_t nr = ignoreSubsequent ? 1 : f.rules.size();
  for (size_t i = 0; i < nr; ++i) want.insert(want.end(), f.rules[i].begin(), f.rules[i].end());
  std::string extra = "{\"expected\":" + listJson(want) + ",\"ignoreSubsequentOutputs\":" + (ignoreSubsequent ? "true" : "false") + "}";
  if (!parseMk(f.bytes, ignoreSubsequent, rec)) { ++C.mkOverReads; report("MakefileDepsParser reads past the end of the input buffer (well-formed file)", f.bytes, extra); return; }
  (ignoreSubsequent ? C.mkIgnoreRoundTrips : C.mkRoundTrips)++;
  C.mkDeps += want.size();
  C.errorCallsSeen += rec.errors.size();
  std::string got = "{\"expected\":" + listJson(want) + ",\"got\":" + listJson(rec.deps) + ",\"errors\":" + listJson(rec.errors) + ",\"ignoreSubsequentOutputs\":" + (ignoreSubsequent ? "true" : "false") + "}";
  if (!rec.errors.empty()) { report("makefile round trip: error() called on a well-formed dependency file (" + rec.errors[0].substr(0, rec.errors[0].find(" @")) + ")", f.bytes, got); return; }
  if (rec.deps != want) {
    const char* how = rec.deps.size() < want.size() ? "dependencies dropped" : rec.deps.size() > want.size() ? "extra dependencies" : "a path came back changed";
    report(std::string("makefile round trip: actOnRuleDependency words differ from the written list (") + how + ")", f.bytes, got);
    return;
  }
  if (rec.protocolBroken || rec.inRule || rec.starts != nr || rec.ends != nr) { report("makefile round trip: rule start/end callbacks not paired one per rule", f.bytes, got); return; }
  for (size_t i = 0; i < nr; ++i)
    if (rec.depsPerRule[i] != f.rules[i].size()) { report("makefile round trip: dependencies attributed to the wrong rule", f.bytes, got); return; }
  if (f.special) distinct.insert(vf::fnv(f.bytes, ignoreSubsequent ? 3 : 5));
}

// must the parser report an error on this prefix of a well-formed file? 1 yes, -1 don't care
static int classifyMkPrefix(const MkFile& f, size_t keep, const char*& why) {
  if (keep == 0) return -1;
  const std::string& b = f.bytes;
  size_t k = 0;
  while (k < keep && b[keep - 1 - k] == '\\') ++k;
  if (k % 2) { why = "cut inside an escape (file ends in a backslash)"; return 1; }
  k = 0;
  while (k < keep && b[keep - 1 - k] == '$') ++k;
  if (k % 2) { why = "cut inside '$$' (file ends in a lone '$')"; return 1; }
  if (keep <= f.firstColon) { why = "cut before the colon of the first rule"; return 1; }
  return -1;
}
static void checkMkCorrupt(const std::string& input, const char* why, int expect) {
  MkRec rec;
  std::string extra = std::string("{\"corruption\":") + jstr(why) + "}";
  if (!parseMk(input, false, rec)) {
    ++C.mkOverReads;
    bool bs = !input.empty() && input.back() == '\\';
    report(std::string("MakefileDepsParser reads past the end of the input buffer (") + (bs ? "input ends in a backslash" : "other input") + ")", input, extra);
    return;
  }
  C.errorCallsSeen += rec.errors.size();
  if (expect < 0) { ++C.mkCorruptDontCare; return; }
  ++C.mkCorruptJudged;
  ++C.byClass[std::string("mk: ") + why];
  distinct.insert(vf::fnv(input, 17));
  if (rec.errors.empty())
    report(std::string("makefile: malformed dependency file accepted without error() (") + why + ")", input,
           "{\"corruption\":" + jstr(why) + ",\"dependencies_reported\":" + listJson(rec.deps) + "}");
}
static void mkCorruptions(vf::Rng& r, const MkFile& f) {
  const char* why = "";
  // 1. cut right after the backslash / first '$' of an escape
  if (!f.escapeStarts.empty()) {
    size_t off = f.escapeStarts[r.below(f.escapeStarts.size())];
    int e = classifyMkPrefix(f, off + 1, why);
    checkMkCorrupt(f.bytes.substr(0, off + 1), e > 0 ? why : "cut", e);
  }
  // 2. colon of the first rule replaced by a space
  {
    std::string s = f.bytes;
    s[f.firstColon] = ' ';
    checkMkCorrupt(s, "missing ':' after the first target", 1);
  }
  // 3. lone '$' in front of a dependency word
  if (!f.depStarts.empty()) {
    size_t off = f.depStarts[r.below(f.depStarts.size())];
    std::string s = f.bytes;
    s.insert(off, "$");
    checkMkCorrupt(s, "lone '$' in the prerequisites", 1);
  }
  // 4. truncation at a random position
  {
    size_t keep = r.below(f.bytes.size());
    int e = classifyMkPrefix(f, keep, why);
    checkMkCorrupt(f.bytes.substr(0, keep), e > 0 ? why : "random cut leaving a well-formed prefix", e);
  }
}

// ------------------------------------------------------------------ dependency-info generator
struct DiFile {
  std::string bytes;
  std::vector<std::pair<int, std::string>> records;  // including the version record
  std::vector<size_t> boundaries;                      // offsets where a record starts (and the end)
};
static std::string genOperand(vf::Rng& r) {
  size_t n = r.chance(1, 8) ? 1 : 1 + r.below(r.chance(1, 20) ? 400 : 24);
  std::string s(n, 0);
  unsigned style = r.below(3);
  for (size_t i = 0; i < n; ++i) {
    unsigned char c = style == 0 ? (unsigned char)(1 + r.below(255)) : style == 1 ? (unsigned char)"/usr/lib/a.dylib \\#$:\n\r\t\x10\x11\x40\xff"[r.below(28)] : (unsigned char)('a' + r.below(26));
    if (c == 0) c = 1;
    s[i] = (char)c;
  }
  return s;
}
static DiFile genDiFile(vf::Rng& r) {
  DiFile f;
  static const int ops[] = {0x10, 0x11, 0x40};
  f.records.emplace_back(0x00, r.chance(1, 2) ? std::string("ld64-253.3") : genOperand(r));
  unsigned n = r.chance(1, 10) ? 0 : 1 + r.below(r.chance(1, 10) ? 60 : 8);
  for (unsigned i = 0; i < n; ++i) f.records.emplace_back(ops[r.below(3)], genOperand(r));
  for (auto& rec : f.records) {
    f.boundaries.push_back(f.bytes.size());
    f.bytes += (char)rec.first;
    f.bytes += rec.second;
    f.bytes += '\0';
  }
  f.boundaries.push_back(f.bytes.size());
  return f;
}
static std::string evJson(const std::vector<std::pair<int, std::string>>& ev) {
  std::string o = "[";
  for (size_t i = 0; i < ev.size() && i < 12; ++i) o += (i ? "," : "") + ("[" + std::to_string(ev[i].first) + "," + jstr(ev[i].second) + "]");
  return o + "]";
}
static void checkDiValid(const std::string& bytes, const std::vector<std::pair<int, std::string>>& want, const char* what) {
  DiRec rec;
  if (!parseDi(bytes, rec)) { ++C.diOverReads; report("DependencyInfoParser reads past the end of the input buffer (well-formed file)", bytes, "{}"); return; }
  ++C.diRoundTrips;
  C.diRecords += want.size();
  C.errorCallsSeen += rec.errors.size();
  std::string got = "{\"what\":" + jstr(what) + ",\"expected\":" + evJson(want) + ",\"got\":" + evJson(rec.events) + ",\"errors\":" + listJson(rec.errors) + "}";
  if (!rec.errors.empty()) { report("dependency-info round trip: error() called on a well-formed file (" + rec.errors[0].substr(0, rec.errors[0].find(" @")) + ")", bytes, got); return; }
  if (rec.events != want) { report("dependency-info round trip: records reported differ from the records written", bytes, got); return; }
  if (want.size() > 1) distinct.insert(vf::fnv(bytes, 23));
}
static void checkDiCorrupt(const std::string& input, const char* why, int expect) {
  DiRec rec;
  if (!parseDi(input, rec)) {
    ++C.diOverReads;
    bool nulOp = !input.empty() && input.back() == 0;
    report(std::string("DependencyInfoParser reads past the end of the input buffer (") + (nulOp ? "last byte is a NUL in opcode position" : "other input") + ")", input,
           std::string("{\"corruption\":") + jstr(why) + "}");
    return;
  }
  C.errorCallsSeen += rec.errors.size();
  if (expect < 0) { ++C.diCorruptDontCare; return; }
  ++C.diCorruptJudged;
  ++C.byClass[std::string("di: ") + why];
  distinct.insert(vf::fnv(input, 29));
  if (rec.errors.empty())
    report(std::string("dependency-info: malformed file accepted without error() (") + why + ")", input, "{\"corruption\":" + jstr(why) + ",\"records_reported\":" + evJson(rec.events) + "}");
}
static void diCorruptions(vf::Rng& r, const DiFile& f) {
  // a. truncation
  size_t keep = r.chance(1, 6) ? f.boundaries[r.below(f.boundaries.size())] + r.below(2) : r.below(f.bytes.size());
  if (keep > f.bytes.size()) keep = f.bytes.size();
  if (keep == f.bytes.size()) keep = f.bytes.size() - 1;
  std::string s = f.bytes.substr(0, keep);
  if (keep == 0) checkDiCorrupt(s, "empty file (no version record, no terminator)", 1);
  else if (s.back() != 0) checkDiCorrupt(s, "truncated: missing NUL terminator", 1);
  else if (keep == 1) checkDiCorrupt(s, "truncated after the version opcode", 1);
  else {  // cut exactly after a record: a well-formed shorter file
    std::vector<std::pair<int, std::string>> want;
    for (size_t i = 0; i + 1 < f.boundaries.size() && f.boundaries[i + 1] <= keep; ++i) want.push_back(f.records[i]);
    checkDiValid(s, want, "prefix cut at a record boundary");
  }
  // b. first record is not the version record
  s = f.bytes;
  s[0] = 0x10;
  checkDiCorrupt(s, "first record is not the version record", 1);
  // c. record with an empty operand at a record boundary
  size_t b = f.boundaries[1 + r.below(f.boundaries.size() - 1)];
  static const char ops[] = {0x10, 0x11, 0x40};
  s = f.bytes;
  s.insert(b, std::string(1, ops[r.below(3)]) + std::string(1, '\0'));
  checkDiCorrupt(s, "record with an empty operand", 1);
  // d. second version record
  s = f.bytes;
  s.insert(b, std::string(1, '\0') + "v2" + std::string(1, '\0'));
  checkDiCorrupt(s, "duplicate version record", 1);
  // e. stray NUL at a record boundary (at the very end: an opcode without operand and terminator)
  s = f.bytes;
  size_t b2 = r.chance(1, 2) ? f.bytes.size() : b;
  s.insert(b2, std::string(1, '\0'));
  checkDiCorrupt(s, b2 == f.bytes.size() ? "stray NUL after the last record" : "stray NUL between records", 1);
  // f. unknown opcode: reported by this parser, but not judged (the format's opcode set is not documented as closed)
  s = f.bytes;
  if (f.boundaries.size() > 2) { s[f.boundaries[1]] = 0x7e; checkDiCorrupt(s, "unknown opcode", -1); }
}

int main(int argc, char** argv) {
  vf::Args a(argc, argv);
  uint64_t seed = a.u("seed", 1), cases = a.u("cases", 1000);
  heapMode = a.has("heap");
  if (!heapMode) setupGuard();

  if (a.has("one")) {  // replay of one input: --one <hex> --parser mk|mk-ignore|di
    std::string in = vf::unhex(a.s("one")), p = a.s("parser", "mk");
    if (p == "di") {
      DiRec rec;
      bool ok = parseDi(in, rec);
      printf("{\"replay\":{\"over_read\":%s,\"errors\":%s,\"records\":%s}}\n", ok ? "false" : "true", listJson(rec.errors).c_str(), evJson(rec.events).c_str());
    } else {
      MkRec rec;
      bool ok = parseMk(in, p == "mk-ignore", rec);
      printf("{\"replay\":{\"over_read\":%s,\"errors\":%s,\"dependencies\":%s}}\n", ok ? "false" : "true", listJson(rec.errors).c_str(), listJson(rec.deps).c_str());
    }
    return 0;
  }

  // the fixed inputs the suspected defects were seen on, and the literal examples of the format documentation
  {
    MkFile f;
    f.bytes = "a.o: b\\ c \\\n d$$e x\\#y z\\\\w q:r\n";
    f.rules.push_back({"b c", "d$e", "x#y", "z\\w", "q:r"});
    f.special = true;
    f.firstColon = 3;
    checkMkRoundTrip(f, false);
    checkMkCorrupt("a.o: b\\", "cut inside an escape (file ends in a backslash)", 1);
    checkMkCorrupt("a.o: b \\", "cut inside an escape (file ends in a backslash)", 1);
    checkMkCorrupt("a.o\\", "cut inside an escape (file ends in a backslash)", 1);
    checkMkCorrupt("\\", "cut inside an escape (file ends in a backslash)", 1);
    checkDiValid(std::string("\0v\0\x10" "a\0", 6), {{0, "v"}, {0x10, "a"}}, "literal");
    checkDiCorrupt(std::string("\0v\0\0", 4), "stray NUL after the last record", 1);
    checkDiCorrupt(std::string("\0", 1), "truncated after the version opcode", 1);
  }

  vf::Rng r(seed);
  std::string sampleMk, sampleDi;
  for (uint64_t c = 0; c < cases; ++c) {
    unsigned w = c % 10;
    if (w < 6) {
      MkFile f = genMkFile(r);
      checkMkRoundTrip(f, false);
      if (w == 0) checkMkRoundTrip(f, true);
      if (w < 2) mkCorruptions(r, f);
      if (sampleMk.empty() && f.special && f.rules.size() == 2 && f.bytes.size() < 120 && f.bytes.find("\\\n") != std::string::npos) sampleMk = f.bytes;
    } else {
      DiFile f = genDiFile(r);
      checkDiValid(f.bytes, f.records, "generated file");
      if (w >= 8) diCorruptions(r, f);
      if (sampleDi.empty() && f.records.size() == 3 && f.bytes.size() < 80) sampleDi = f.bytes;
    }
  }

  for (auto& kv : smallestHex)
    printf("{\"viol\":%s,\"witness\":{\"input_hex\":\"%s\",\"input\":%s,\"detail\":%s,\"count_in_shard\":%lu}}\n", jstr(kv.first).c_str(), kv.second.c_str(),
           jstr(vf::unhex(kv.second).substr(0, 400)).c_str(), smallestExtra[kv.first].empty() ? "{}" : smallestExtra[kv.first].c_str(), violCount[kv.first]);
  auto mapJson = [](const std::map<std::string, unsigned long>& m) {
    std::string o = "{";
    for (auto& kv : m) o += jstr(kv.first) + ":" + std::to_string(kv.second) + ",";
    if (o.size() > 1) o.pop_back();
    return o + "}";
  };
  unsigned long judged = C.mkRoundTrips + C.mkIgnoreRoundTrips + C.mkCorruptJudged + C.diRoundTrips + C.diCorruptJudged;
  printf("{\"summary\":{\"cases\":%llu,\"judged\":%lu,\"mk_round_trips\":%lu,\"mk_round_trips_first_rule_only\":%lu,\"mk_dependencies_compared\":%lu,\"mk_corruptions_judged\":%lu,"
         "\"mk_corruptions_dont_care\":%lu,\"mk_over_reads\":%lu,\"di_round_trips\":%lu,\"di_records_compared\":%lu,\"di_corruptions_judged\":%lu,\"di_corruptions_dont_care\":%lu,"
         "\"di_over_reads\":%lu,\"error_calls_seen\":%lu,\"distinct\":%zu,\"violations\":%lu,\"by_corruption\":%s,\"viol_counts\":%s,\"sample_mk\":%s,\"sample_di_hex\":\"%s\"}}\n",
         (unsigned long long)cases, judged, C.mkRoundTrips, C.mkIgnoreRoundTrips, C.mkDeps, C.mkCorruptJudged, C.mkCorruptDontCare, C.mkOverReads, C.diRoundTrips, C.diRecords,
         C.diCorruptJudged, C.diCorruptDontCare, C.diOverReads, C.errorCallsSeen, distinct.size(), nViol, mapJson(C.byClass).c_str(), mapJson(violCount).c_str(),
         jstr(sampleMk).c_str(), vf::hex(sampleDi).c_str());
  return 0;
}
