// C13 monitor: observe getFileInfo/getLinkInfo in the three file-system modes before and after a
// generated transition of one path, and compare with an oracle computed from raw stat()/lstat().
#include "common.h"
#include "llbuild/Basic/FileInfo.h"
#include "llbuild/Basic/FileSystem.h"

#include <fcntl.h>
#include <sys/stat.h>
#include <unistd.h>
#include <dirent.h>
#include <set>

using namespace llbuild::basic;
using vf::jstr;

enum Kind { Missing = 0, File, Dir, LinkToFile, Dangling, NKinds };
static const char* kindName[] = {"missing", "file", "dir", "symlink-to-file", "dangling-symlink"};

struct Raw {  // what stat or lstat says
  bool exists = false;
  uint64_t dev = 0, ino = 0, size = 0, sec = 0, nsec = 0;
  unsigned fmt = 0;
  std::string content;  // file bytes (follow) or link target (lstat of a link); empty for dir/missing
};

static std::string root;
static uint64_t nextMtime = 1000000000;

static std::string readAll(const std::string& p) {
  std::string o;
  FILE* f = fopen(p.c_str(), "rb");
  if (!f) return o;
  char buf[65536];
  size_t n;
  while ((n = fread(buf, 1, sizeof buf, f)) > 0) o.append(buf, n);
  fclose(f);
  return o;
}

static Raw rawOf(const std::string& p, bool asLink) {
  Raw r;
  struct stat st;
  if ((asLink ? lstat(p.c_str(), &st) : stat(p.c_str(), &st)) != 0) return r;
  r.exists = true;
  r.dev = st.st_dev; r.ino = st.st_ino; r.size = st.st_size;
  r.sec = st.st_mtim.tv_sec; r.nsec = st.st_mtim.tv_nsec;
  r.fmt = st.st_mode & S_IFMT;
  if (r.fmt == S_IFREG) r.content = readAll(p);
  else if (r.fmt == S_IFLNK) { char b[4096]; ssize_t n = readlink(p.c_str(), b, sizeof b); if (n > 0) r.content.assign(b, n); }
  return r;
}

static void writeFile(const std::string& p, const std::string& c, bool truncate = true) {
  int fd = open(p.c_str(), O_WRONLY | O_CREAT | (truncate ? O_TRUNC : 0), 0644);
  if (fd < 0) { perror("open"); _exit(2); }
  size_t off = 0;
  while (off < c.size()) { ssize_t n = write(fd, c.data() + off, c.size() - off); if (n <= 0) { perror("write"); _exit(2); } off += n; }
  close(fd);
}
static void setMtime(const std::string& p, uint64_t sec, uint64_t nsec) {
  struct timespec ts[2] = {{(time_t)sec, (long)nsec}, {(time_t)sec, (long)nsec}};
  if (utimensat(AT_FDCWD, p.c_str(), ts, AT_SYMLINK_NOFOLLOW) != 0) { perror("utimensat"); _exit(2); }
}
static void rmrf(const std::string& p) {
  struct stat st;
  if (lstat(p.c_str(), &st) != 0) return;
  if (S_ISDIR(st.st_mode)) {
    DIR* d = opendir(p.c_str());
    while (auto* e = readdir(d)) { std::string n = e->d_name; if (n != "." && n != "..") rmrf(p + "/" + n); }
    closedir(d);
    rmdir(p.c_str());
  } else unlink(p.c_str());
}

static std::string genContent(vf::Rng& r, size_t n) {
  std::string s(n, 0);
  uint64_t x = r.next();
  for (size_t i = 0; i < n; ++i) { x = x * 6364136223846793005ull + 1442695040888963407ull; s[i] = (char)(x >> 56); }
  return s;
}
static size_t genSize(vf::Rng& r) {
  static const std::vector<size_t> sizes = {0, 1, 2, 13, 4095, 4096, 4097, 16383, 16384, 16385, 32768, 40000};
  if (r.chance(1, 60)) return 1 << 20;
  return r.pick(sizes);
}

struct State { Kind kind; std::string content; uint64_t sec, nsec; };

static void materialize(const std::string& p, const std::string& tgt, const State& s) {
  rmrf(p); rmrf(tgt);
  switch (s.kind) {
  case Missing: break;
  case File: writeFile(p, s.content); setMtime(p, s.sec, s.nsec); break;
  case Dir: mkdir(p.c_str(), 0755); setMtime(p, s.sec, s.nsec); break;
  case LinkToFile: writeFile(tgt, s.content); setMtime(tgt, s.sec, s.nsec);
    if (symlink(tgt.c_str(), p.c_str()) != 0) { perror("symlink"); _exit(2); } setMtime(p, s.sec, s.nsec); break;
  case Dangling: if (symlink((tgt + ".nowhere").c_str(), p.c_str()) != 0) { perror("symlink"); _exit(2); } setMtime(p, s.sec, s.nsec); break;
  default: break;
  }
}

static std::string fiStr(const FileInfo& i) {
  char b[256];
  snprintf(b, sizeof b, "{dev:%llu,ino:%llu,mode:%llo,size:%llu,mt:%llu.%09llu,ck:", (unsigned long long)i.device, (unsigned long long)i.inode,
           (unsigned long long)i.mode, (unsigned long long)i.size, (unsigned long long)i.modTime.seconds, (unsigned long long)i.modTime.nanoseconds);
  return std::string(b) + vf::hex(i.checksum.bytes, 32) + "}";
}

static int kindClass(const Raw& r) { return !r.exists ? 0 : r.fmt == S_IFREG ? 1 : r.fmt == S_IFDIR ? 2 : r.fmt == S_IFLNK ? 3 : 4; }

int main(int argc, char** argv) {
  vf::Args a(argc, argv);
  uint64_t seed = a.u("seed", 1), cases = a.u("cases", 1000);
  root = a.s("dir", "");
  if (root.empty()) { fprintf(stderr, "need --dir\n"); return 2; }
  mkdir(root.c_str(), 0755);
  vf::Rng r(seed);

  std::unique_ptr<FileSystem> fss[3] = {createLocalFileSystem(), DeviceAgnosticFileSystem::from(createLocalFileSystem()),
                                        ChecksumOnlyFileSystem::from(createLocalFileSystem())};
  static const char* modeName[] = {"default", "device-agnostic", "checksum-only"};
  static const char* transName[] = {"untouched", "rewrite-same-size-keep-mtime", "rewrite-different-size", "touch-mtime-only",
                                    "replace-by-rename-same-content-mtime", "delete", "change-kind", "rewrite-same-size-new-mtime",
                                    "retarget-link-same-length"};
  unsigned long judged = 0, mustDiffer = 0, mustEqual = 0, dontCare = 0, viol = 0, missingChecks = 0, digestChecks = 0;
  std::set<uint64_t> distinct;
  std::map<std::string, unsigned long> byTrans;
  std::string sample;

  for (uint64_t c = 0; c < cases; ++c) {
    std::string p = root + "/p" + std::to_string(c % 7), tgt = root + "/t" + std::to_string(c % 7);
    State A;
    A.kind = (Kind)r.below(NKinds);
    A.content = genContent(r, genSize(r));
    if (A.kind == File && r.chance(1, 8)) A.content = r.chance(1, 2) ? tgt : tgt + ".nowhere";   // the very bytes a symbolic link here would hold as its target
    A.sec = r.chance(1, 20) ? 0 : nextMtime + r.below(1000); A.nsec = r.chance(1, 4) ? 0 : r.below(1000000000);
    materialize(p, tgt, A);
    int trans = (int)r.below(9);

    FileInfo f1[3], l1[3], f1b[3], l1b[3], f2[3], l2[3];
    for (int m = 0; m < 3; ++m) { f1[m] = fss[m]->getFileInfo(p); l1[m] = fss[m]->getLinkInfo(p); }
    Raw sA = rawOf(p, false), lA = rawOf(p, true);
    for (int m = 0; m < 3; ++m) { f1b[m] = fss[m]->getFileInfo(p); l1b[m] = fss[m]->getLinkInfo(p); }

    // apply the transition
    std::string filePath = A.kind == LinkToFile ? tgt : p;  // where the bytes live
    bool hasBytes = A.kind == File || A.kind == LinkToFile;
    std::string what = transName[trans];
    switch (trans) {
    case 0: break;
    case 1: case 7:
      if (hasBytes && !A.content.empty()) {
        std::string c2 = A.content; size_t pos = r.chance(1, 3) ? c2.size() - 1 : r.below(c2.size()); c2[pos] ^= (char)(1 + r.below(255));
        writeFile(filePath, c2, false);
        if (trans == 1) setMtime(filePath, A.sec, A.nsec); else setMtime(filePath, A.sec + 1 + r.below(5), r.below(1000000000));
      } else what += "(noop)";
      break;
    case 2:
      if (hasBytes) { std::string c2 = genContent(r, A.content.size() + 1 + r.below(3)); if (r.chance(1, 2) && A.content.size() > 1) c2 = A.content.substr(0, A.content.size() - 1);
        writeFile(filePath, c2); setMtime(filePath, A.sec, A.nsec); } else what += "(noop)";
      break;
    case 3:
      if (A.kind != Missing) { std::string q = (A.kind == LinkToFile && r.chance(1, 2)) ? tgt : p;
        if (r.chance(1, 2)) setMtime(q, A.sec, A.nsec + 1 > 999999999 ? 0 : A.nsec + 1); else setMtime(q, A.sec + 1 + r.below(100), A.nsec); }
      else what += "(noop)";
      break;
    case 4:
      if (hasBytes) { std::string tmp = filePath + ".new"; writeFile(tmp, A.content); setMtime(tmp, A.sec, A.nsec);
        // keep the old inode alive so the kernel cannot hand the same number to the replacement
        std::string keep = filePath + ".old"; rmrf(keep); link(filePath.c_str(), keep.c_str()); rename(tmp.c_str(), filePath.c_str()); unlink(keep.c_str()); }
      else what += "(noop)";
      break;
    case 5: rmrf(p); break;
    case 6: {
      State B = A; B.kind = (Kind)((A.kind + 1 + r.below(NKinds - 1)) % NKinds);
      if (r.chance(1, 2)) B.content = genContent(r, r.chance(1, 2) ? A.content.size() : genSize(r));
      if (r.chance(1, 2)) { B.sec = A.sec + r.below(3); }
      // a link replaced by a regular file holding exactly the link's target string (same size, same bytes, another type), and the reverse
      if ((A.kind == LinkToFile || A.kind == Dangling) && B.kind == File && r.chance(1, 2)) B.content = A.kind == Dangling ? tgt + ".nowhere" : tgt;
      if (A.kind == File && (A.content == tgt || A.content == tgt + ".nowhere")) { B.kind = A.content == tgt ? LinkToFile : Dangling; if (B.kind == LinkToFile) B.content = genContent(r, genSize(r)); }
      materialize(p, tgt, B); what += std::string("->") + kindName[B.kind];
      break; }
    case 8:
      if (A.kind == LinkToFile || A.kind == Dangling) { // link now points elsewhere, same target-string length, same link mtime
        std::string t2 = tgt; t2[t2.size() - 1] = t2[t2.size() - 1] == 'X' ? 'Y' : 'X';
        if (A.kind == Dangling) t2 += ".nowhere"; else { writeFile(t2, r.chance(1, 2) ? A.content : genContent(r, A.content.size())); setMtime(t2, A.sec, A.nsec); }
        unlink(p.c_str()); if (symlink(t2.c_str(), p.c_str()) != 0) { perror("symlink"); _exit(2); } setMtime(p, A.sec, A.nsec);
      } else what += "(noop)";
      break;
    }
    for (int m = 0; m < 3; ++m) { f2[m] = fss[m]->getFileInfo(p); l2[m] = fss[m]->getLinkInfo(p); }
    Raw sB = rawOf(p, false), lB = rawOf(p, true);
    byTrans[transName[trans]]++;

    auto report = [&](const std::string& key, int m, bool asLink, const Raw& ra, const Raw& rb, const FileInfo& x, const FileInfo& y) {
      ++viol;
      printf("{\"viol\":%s,\"witness\":{\"case\":%llu,\"seed\":%llu,\"mode\":\"%s\",\"call\":\"%s\",\"kindA\":\"%s\",\"transition\":%s,"
             "\"rawA\":\"exists=%d ino=%llu size=%llu mt=%llu.%09llu fmt=%o\",\"rawB\":\"exists=%d ino=%llu size=%llu mt=%llu.%09llu fmt=%o\","
             "\"contentEqual\":%s,\"obsA\":%s,\"obsB\":%s}}\n",
             jstr(key).c_str(), (unsigned long long)c, (unsigned long long)seed, modeName[m], asLink ? "getLinkInfo" : "getFileInfo", kindName[A.kind],
             jstr(what).c_str(), ra.exists, (unsigned long long)ra.ino, (unsigned long long)ra.size, (unsigned long long)ra.sec, (unsigned long long)ra.nsec, ra.fmt,
             rb.exists, (unsigned long long)rb.ino, (unsigned long long)rb.size, (unsigned long long)rb.sec, (unsigned long long)rb.nsec, rb.fmt,
             ra.content == rb.content ? "true" : "false", jstr(fiStr(x)).c_str(), jstr(fiStr(y)).c_str());
    };

    for (int m = 0; m < 3; ++m) {
      for (int asLink = 0; asLink < 2; ++asLink) {
        const Raw& ra = asLink ? lA : sA; const Raw& rb = asLink ? lB : sB;
        const FileInfo& x = asLink ? l1[m] : f1[m]; const FileInfo& xb = asLink ? l1b[m] : f1b[m]; const FileInfo& y = asLink ? l2[m] : f2[m];
        std::string tag = std::string(modeName[m]) + " " + (asLink ? "getLinkInfo" : "getFileInfo") + " ";
        // untouched re-observation
        ++judged; ++mustEqual;
        if (x != xb) report(tag + "untouched path compares unequal (kind " + kindName[A.kind] + ")", m, asLink, ra, ra, x, xb);
        // missing sentinel
        ++missingChecks;
        if (ra.exists && x.isMissing()) report(tag + "isMissing() true for an existing object of kind " + kindName[A.kind], m, asLink, ra, ra, x, x);
        if (!ra.exists && !x.isMissing()) report(tag + "isMissing() false for a missing path", m, asLink, ra, ra, x, x);
        if (rb.exists && y.isMissing()) report(tag + "isMissing() true for an existing object after " + what, m, asLink, rb, rb, y, y);
        bool exD = ra.exists != rb.exists, szD = ra.size != rb.size, mtD = ra.sec != rb.sec || ra.nsec != rb.nsec,
             idD = ra.dev != rb.dev || ra.ino != rb.ino, ctD = ra.content != rb.content, kdD = kindClass(ra) != kindClass(rb);
        int expect;  // 1 must differ, 0 must equal, -1 not judged
        if (m == 0) expect = (exD || szD || mtD || idD) ? 1 : (trans == 0 ? 0 : -1);
        else if (m == 1) expect = (exD || szD || mtD) ? 1 : (!ctD && !kdD ? 0 : -1);
        else expect = (exD || kdD || szD || ctD) ? 1 : 0;
        if (m == 2 && kindClass(ra) == 2 && kindClass(rb) == 2 && szD) expect = -1;  // directory sizes are a file-system artefact
        if (expect < 0) { ++dontCare; continue; }
        ++judged;
        const char* cls = exD ? "existence" : kdD ? "kind" : szD ? "size" : (m == 2 && ctD) ? "content(same size)" : mtD ? "mtime" : idD ? "inode" : "nothing";
        if (expect == 1) { ++mustDiffer; if (x == y) report(tag + "change of " + cls + " not detected (kinds " + std::to_string(kindClass(ra)) + "->" + std::to_string(kindClass(rb)) + ")", m, asLink, ra, rb, x, y); }
        else { ++mustEqual; if (x != y) report(tag + "observations differ although only " + (mtD ? "mtime" : idD ? "inode" : "nothing") + " changed (kind class " + std::to_string(kindClass(ra)) + ")", m, asLink, ra, rb, x, y); }
        distinct.insert(vf::fnv(tag + what + cls + kindName[A.kind] + (expect ? "D" : "E")));
      }
    }
    // digest function: content-only
    if (hasBytes && (c % 4) == 0) {
      ++digestChecks;
      std::string q1 = root + "/d1", q2 = root + "/d2";
      writeFile(q1, A.content); writeFile(q2, A.content); setMtime(q2, 5, 5);
      FileChecksum c1 = FileChecksum::getChecksumForPath(q1), c2 = FileChecksum::getChecksumForPath(q2);
      if (c1 != c2) { ++viol; printf("{\"viol\":\"getChecksumForPath: same content in two files gives different digests\",\"witness\":{\"case\":%llu,\"seed\":%llu,\"size\":%zu,\"d1\":\"%s\",\"d2\":\"%s\"}}\n",
          (unsigned long long)c, (unsigned long long)seed, A.content.size(), vf::hex(c1.bytes, 32).c_str(), vf::hex(c2.bytes, 32).c_str()); }
      std::string c3s = A.content; if (c3s.empty()) c3s = "x"; else c3s[r.below(c3s.size())] ^= 0x40;
      writeFile(q2, c3s);
      FileChecksum c3 = FileChecksum::getChecksumForPath(q2);
      if (c1 == c3) { ++viol; printf("{\"viol\":\"getChecksumForPath: different contents give the same digest\",\"witness\":{\"case\":%llu,\"seed\":%llu,\"size\":%zu,\"d1\":\"%s\",\"d2\":\"%s\"}}\n",
          (unsigned long long)c, (unsigned long long)seed, A.content.size(), vf::hex(c1.bytes, 32).c_str(), vf::hex(c3.bytes, 32).c_str()); }
    }
    if (sample.empty() && trans == 1 && hasBytes && A.content.size() > 1)
      sample = std::string("kind=") + kindName[A.kind] + " size=" + std::to_string(A.content.size()) + " transition=" + what + " checksum-only obsA=" + fiStr(f1[2]) + " obsB=" + fiStr(f2[2]);
    nextMtime += 1000;
  }
  for (int i = 0; i < 7; ++i) { rmrf(root + "/p" + std::to_string(i)); rmrf(root + "/t" + std::to_string(i)); }
  std::string bt = "{";
  for (auto& kv : byTrans) bt += jstr(kv.first) + ":" + std::to_string(kv.second) + ",";
  if (bt.size() > 1) bt.pop_back();
  bt += "}";
  printf("{\"summary\":{\"cases\":%llu,\"judged\":%lu,\"must_differ\":%lu,\"must_equal\":%lu,\"not_judged\":%lu,\"missing_checks\":%lu,\"digest_checks\":%lu,"
         "\"distinct_classes\":%zu,\"violations\":%lu,\"by_transition\":%s,\"sample\":%s}}\n",
         (unsigned long long)cases, judged, mustDiffer, mustEqual, dontCare, missingChecks, digestChecks, distinct.size(), viol, bt.c_str(), jstr(sample).c_str());
  return 0;
}
