// C14 (predicate part): pathIsPrefixedByPath(path, root) against a three-valued reference.
//
// The property: a path qualifies when it "lexically lies at or beneath one of the roots by whole path components, a root
// spelled with or without a trailing separator behaving the same". Several lexical readings are possible (doubled
// separators literal or collapsed, "." kept or dropped, ".." kept or resolved). The reference evaluates all of them:
//   MUST      every reading says "at or beneath" and no doubled separator occurs in either string  -> result must be true
//   MUST-NOT  every reading says "not beneath"                                                      -> result must be false
//   otherwise don't care (counted, never judged).
// Also don't care: an empty string on either side (no components at all), and a relative *path* (the tool rejects relative
// paths before it consults the predicate, so the predicate's answer for them cannot reach the property).
#include "common.h"
#include "llbuild/BuildSystem/BuildSystem.h"

#include <algorithm>
#include <set>

// distinct 64-bit hashes, counted by sort + unique at the end (8 bytes per insertion instead of a tree node)
struct HashBag {
  std::vector<uint64_t> v;
  void insert(uint64_t h) { v.push_back(h); if (v.size() >= (1u << 24)) compact(); }
  void compact() { std::sort(v.begin(), v.end()); v.erase(std::unique(v.begin(), v.end()), v.end()); }
  size_t size() { compact(); return v.size(); }
};

using llbuild::buildsystem::pathIsPrefixedByPath;
using vf::jstr;

typedef std::vector<std::string> Comps;

// Reading levels: 0 literal (empty components kept), 1 separators collapsed, 2 also "." dropped, 3 also ".." resolved.
static Comps split(const std::string& s, int level, bool isRoot) {
  Comps c;
  std::string t = s;
  // trailing separators never add a component: one is dropped for the literal reading of a root and of a path,
  // all of them for the collapsing readings
  if (level == 0) { if (t.size() > 1 && t.back() == '/') t.pop_back(); }
  else while (t.size() > 1 && t.back() == '/') t.pop_back();
  (void)isRoot;
  size_t i = 0;
  if (!t.empty() && t[0] == '/') {
    c.push_back("/");  // root directory marker: absolute and relative strings never match each other
    i = 1;
    if (level >= 1) while (i < t.size() && t[i] == '/') ++i;
    if (i >= t.size()) return c;
  }
  std::string cur;
  for (; i <= t.size(); ++i) {
    if (i == t.size() || t[i] == '/') {
      if (cur.empty() && level >= 1) { cur.clear(); continue; }
      if (cur == "." && level >= 2) { cur.clear(); continue; }
      if (cur == ".." && level >= 3) {
        if (!c.empty() && c.back() != "/" && c.back() != "..") c.pop_back();
        else if (c.empty() || c.back() == "..") c.push_back("..");
        /* ".." directly under the root directory stays at the root */
        cur.clear();
        continue;
      }
      c.push_back(cur);
      cur.clear();
    } else cur += t[i];
  }
  return c;
}
static bool compPrefix(const Comps& root, const Comps& path) {
  if (root.size() > path.size()) return false;
  for (size_t i = 0; i < root.size(); ++i)
    if (root[i] != path[i]) return false;
  return true;
}
// 1 must, 0 must-not, -1 don't care
static int expectation(const std::string& path, const std::string& root) {
  if (path.empty() || root.empty()) return -1;
  if (path[0] != '/') return -1;
  bool all = true, none = true;
  for (int lv = 0; lv < 4; ++lv) {
    bool p = compPrefix(split(root, lv, true), split(path, lv, false));
    all = all && p;
    none = none && !p;
  }
  bool doubled = path.find("//") != std::string::npos || root.find("//") != std::string::npos;
  if (all && !doubled) return 1;
  if (none) return 0;
  return -1;
}

static unsigned long nViol = 0;
static std::map<std::string, unsigned long> violCount;
static std::map<std::string, std::pair<std::string, std::string>> smallest;  // key -> smallest witness
static HashBag distinctPairs;  // judged pairs, by hash
static void judge(const std::string& path, const std::string& root, unsigned long& must, unsigned long& mustNot, unsigned long& dontCare,
                  std::set<uint64_t>& classes) {
  int e = expectation(path, root);
  bool got = pathIsPrefixedByPath(path, root);
  if (e < 0) { ++dontCare; return; }
  distinctPairs.insert(vf::fnv(root, vf::fnv(path) * 31 + 7));
  bool rootSep = root.back() == '/', pathSep = path.back() == '/';
  const char* rel = path.size() > root.size() ? "path longer than root" : path.size() == root.size() ? "same length" : "path shorter than root";
  bool rootAbs = root[0] == '/';
  classes.insert(vf::fnv(std::string(rel) + (rootSep ? "R" : "r") + (pathSep ? "P" : "p") + (rootAbs ? "A" : "a") + (e ? "M" : "N") +
                         (path.find("/.") != std::string::npos ? "D" : "d") + (path.find("//") != std::string::npos ? "2" : "1")));
  if (e == 1) ++must; else ++mustNot;
  if ((e == 1) == got) return;
  std::string key;
  if (e == 1)
    key = std::string("pathIsPrefixedByPath answers false for a path at or beneath the root (root ") +
          (root == "/" ? "is the root directory '/'" : rootSep ? "ends with a separator" : "has no trailing separator") + ", " + rel + ")";
  else
    key = std::string("pathIsPrefixedByPath answers true for a path that is not beneath the root under any reading (root ") +
          (rootSep ? "ends with a separator" : "has no trailing separator") + ", " + rel + (rootAbs ? "" : ", relative root") + ")";
  ++nViol;
  ++violCount[key];
  auto it = smallest.find(key);
  if (it == smallest.end() || path.size() + root.size() < it->second.first.size() + it->second.second.size()) smallest[key] = std::make_pair(path, root);
}

static const char* compAlphabet[] = {"foo", "foobar", "fo", "bar", "r", "a", "b", ".", "..", "a b", "foo.o", "", "x"};
static std::string genPath(vf::Rng& r) {
  std::string s;
  if (r.chance(5, 6)) s = "/";
  if (r.chance(1, 25)) s += "/";
  unsigned n = r.below(5);
  for (unsigned i = 0; i < n; ++i) {
    if (i) s += "/";
    s += compAlphabet[r.below(sizeof compAlphabet / sizeof *compAlphabet)];
  }
  if (n && r.chance(1, 3)) s += "/";
  if (r.chance(1, 20)) s += "/";
  if (r.chance(1, 60)) s = "";
  return s;
}
static std::string derive(vf::Rng& r, const std::string& root) {  // a path close to the root: beneath it, beside it, above it
  std::string p = root;
  switch (r.below(9)) {
  case 0: break;
  case 1: if (!p.empty() && p.back() == '/') p.pop_back(); else p += "/"; break;
  case 2: case 3: {  // beneath
    if (p.empty() || p.back() != '/') p += "/";
    unsigned n = 1 + r.below(3);
    for (unsigned i = 0; i < n; ++i) { if (i) p += "/"; p += compAlphabet[r.below(sizeof compAlphabet / sizeof *compAlphabet)]; }
    if (r.chance(1, 4)) p += "/";
    break;
  }
  case 4: {  // sibling sharing a textual prefix: /r/foo -> /r/foobar
    if (!p.empty() && p.back() == '/' && r.chance(1, 2)) p.pop_back();
    p += r.chance(1, 2) ? "bar" : "x/y";
    break;
  }
  case 5: if (!p.empty()) p.erase(p.size() - 1 - r.below(p.size() > 3 ? 3 : p.size())); break;   // above / truncated
  case 6: if (!p.empty()) p[r.below(p.size())] = "/ab."[r.below(4)]; break;                   // one character changed
  case 7: if (!p.empty()) p.insert(r.below(p.size() + 1), r.chance(1, 2) ? "/" : "./"); break;  // doubled separator or "."
  default: if (!p.empty() && p[0] == '/') p.erase(0, 1); else p = "/" + p; break;              // absolute <-> relative
  }
  return p;
}

int main(int argc, char** argv) {
  vf::Args a(argc, argv);
  uint64_t seed = a.u("seed", 1), cases = a.u("cases", 0), exLen = a.u("exhaustive", 0), shard = a.u("shard", 0), nshards = a.u("shards", 1);
  unsigned long must = 0, mustNot = 0, dontCare = 0, exPairs = 0, rndPairs = 0;
  std::set<uint64_t> classes;

  if (a.has("path") && a.has("root")) {  // replay of one pair (hex)
    std::string p = vf::unhex(a.s("path")), r = vf::unhex(a.s("root"));
    judge(p, r, must, mustNot, dontCare, classes);
    printf("{\"pair\":{\"path\":%s,\"root\":%s,\"expect\":%d,\"got\":%d}}\n", jstr(p).c_str(), jstr(r).c_str(), expectation(p, r), (int)pathIsPrefixedByPath(p, r));
  }

  // self-check of the reference on the pairs the unit tests and the property text fix
  {
    struct { const char* p; const char* r; int e; } fixed[] = {
        {"/foo/bar", "/foo", 1}, {"/foo", "/foo", 1}, {"/foo/", "/foo", 1}, {"/foo", "/foo/", 1}, {"/bar", "/foo", 0}, {"/foobar", "/foo", 0},
        {"/foo/bar", "/foo/", 1}, {"/foobar", "/foo/", 0}, {"/foo//bar", "/foo", -1}, {"/r/../x", "/r", -1}, {"/a/./b", "/a/b", -1}, {"/a/b", "a", 0},
        {"a/b", "a", -1}, {"/a", "", -1}, {"/x", "/", 1}, {"/", "/", 1}, {"/fo", "/foo", 0}, {"/a/b", "/a/b/c", 0}};
    for (auto& f : fixed)
      if (expectation(f.p, f.r) != f.e) { fprintf(stderr, "reference self-check failed on (%s, %s): %d\n", f.p, f.r, expectation(f.p, f.r)); return 2; }
  }

  // exhaustive: all strings over {'/', 'a', 'b', '.'} up to exLen characters, roots partitioned over the shards
  if (exLen) {
    std::vector<std::string> all(1, "");
    size_t lo = 0;
    for (uint64_t l = 0; l < exLen; ++l) {
      size_t hi = all.size();
      for (size_t i = lo; i < hi; ++i)
        for (char ch : {'/', 'a', 'b', '.'}) all.push_back(all[i] + ch);
      lo = hi;
    }
    for (size_t ri = shard; ri < all.size(); ri += nshards)
      for (size_t pi = 0; pi < all.size(); ++pi) { judge(all[pi], all[ri], must, mustNot, dontCare, classes); ++exPairs; }
  }

  vf::Rng r(seed);
  for (uint64_t c = 0; c < cases; ++c) {
    std::string root = genPath(r);
    std::string path = r.chance(3, 4) ? derive(r, root) : genPath(r);
    judge(path, root, must, mustNot, dontCare, classes);
    ++rndPairs;
  }

  for (auto& kv : smallest)
    printf("{\"viol\":%s,\"witness\":{\"path\":%s,\"root\":%s,\"path_hex\":\"%s\",\"root_hex\":\"%s\",\"count_in_shard\":%lu}}\n", jstr(kv.first).c_str(),
           jstr(kv.second.first).c_str(), jstr(kv.second.second).c_str(), vf::hex(kv.second.first).c_str(), vf::hex(kv.second.second).c_str(), violCount[kv.first]);
  std::string vc = "{";
  for (auto& kv : violCount) vc += jstr(kv.first) + ":" + std::to_string(kv.second) + ",";
  if (vc.size() > 1) vc.pop_back();
  vc += "}";
  printf("{\"summary\":{\"pairs\":%lu,\"exhaustive_pairs\":%lu,\"random_pairs\":%lu,\"must\":%lu,\"must_not\":%lu,\"dont_care\":%lu,\"judged\":%lu,\"distinct_pairs\":%zu,\"classes\":%zu,"
         "\"violations\":%lu,\"viol_counts\":%s}}\n",
         exPairs + rndPairs, exPairs, rndPairs, must, mustNot, dontCare, must + mustNot, distinctPairs.size(), classes.size(), nViol, vc.c_str());
  return 0;
}
