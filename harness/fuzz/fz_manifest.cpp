// C19 libFuzzer target: llbuild::ninja::Parser and ManifestLoader over an in-memory file table carved
// from the fuzz input, so that include / subninja (self-inclusion and mutual recursion included) are
// exercised without touching the disk.
//
// File table: a line that starts with `#@file ` starts a new file whose name is the rest of that line;
// everything before the first such line is the main file `build.ninja`. At most 16 files; a name that
// occurs twice resolves to its first occurrence. A plain manifest is therefore a one-file table.
//
// Pass A  Parser(StringRef) with actions that only read the tokens, over an EXACT-SIZE copy of the main
//         file (`new char[n]`, no terminator: Parser/Lexer take a StringRef and document none).
// Pass B  ManifestLoader("/w", "build.ninja", actions). Files are handed over as llvm::MemoryBuffer,
//         whose interface documents "you can read one character past the end of the file, and that
//         this character will read as '\0'"; that contract is honoured (n bytes + one NUL, allocation
//         of exactly n+1 bytes, so the terminator is readable and the byte after it is a red zone).
//         Each buffer is freed when the loader drops it, as a real client's file buffer is; afterwards
//         every string reachable from the Manifest is read (dangling references become ASan reports).
//
// The "file system" is finite and small, so that one execution stays cheap: readFile() fails (returns
// null, as for a file that cannot be opened) for unknown names, when kMaxDepth (8) files are already
// open, and after kMaxLoads (32) loads in one run. That bounds the work include fan-out can legitimately
// cause (two self-includes per file would otherwise mean 2^depth parses).
//
// Pass C  Only when pass B was refused a file for depth (and then for one input in sixteen): the same table is loaded again by a file system
//         that serves exactly ONE descending chain (a load succeeds only while no file has been closed
//         yet), without a depth limit of its own up to maxChain() loads (default 100000, environment
//         FZ_MAX_CHAIN). Work is linear in the depth the LOADER allows; a loader that recurses without
//         bound on a file that (directly or indirectly) includes itself exhausts the stack, which
//         checks/c19.py fixes at the usual 8 MB (`ulimit -s 8192`).
#include "fz_common.h"

#include "llbuild/Ninja/Lexer.h"
#include "llbuild/Ninja/Manifest.h"
#include "llbuild/Ninja/ManifestLoader.h"
#include "llbuild/Ninja/Parser.h"

#include "llvm/Support/MemoryBuffer.h"

#include <string>
#include <vector>

using namespace llbuild;
using namespace llbuild::ninja;

namespace {

const size_t kMaxFiles = 16;
const size_t kMaxDepth = 8;
const size_t kMaxLoads = 32;
size_t maxChain() {
  static size_t v = 0;
  if (!v) {
    const char* e = getenv("FZ_MAX_CHAIN");
    v = e ? strtoull(e, nullptr, 10) : 0;
    if (!v) v = 100000;
  }
  return v;
}
size_t g_open = 0;  // TableBuffers currently alive = files the loader has open
const char kMarker[] = "#@file ";
const size_t kMarkerLen = sizeof(kMarker) - 1;

struct File {
  std::string name;
  std::string content;
};

void carve(const uint8_t* data, size_t size, std::vector<File>& files) {
  files.clear();
  files.push_back(File{"build.ninja", std::string()});
  size_t pos = 0;
  while (pos < size) {
    size_t eol = pos;
    while (eol < size && data[eol] != '\n') ++eol;
    size_t next = eol < size ? eol + 1 : eol;
    if (size - pos >= kMarkerLen && memcmp(data + pos, kMarker, kMarkerLen) == 0 && files.size() < kMaxFiles) {
      files.push_back(File{std::string((const char*)data + pos + kMarkerLen, eol - pos - kMarkerLen), std::string()});
    } else {
      files.back().content.append((const char*)data + pos, next - pos);
    }
    pos = next;
  }
}

// ---------------------------------------------------------------- pass A: Parser with reading actions

void readToken(const Token& t) { fz::touch(t.start, t.length); }

struct ReadingParseActions : public ParseActions {
  int dummy = 0;
  size_t callbacks = 0;
  void error(StringRef message, const Token& at) override {
    ++callbacks;
    fz::touch(message.data(), message.size());
    readToken(at);
  }
  void initialize(Parser*) override {}
  void actOnBeginManifest(StringRef name) override { fz::touch(name.data(), name.size()); }
  void actOnEndManifest() override {}
  void actOnBindingDecl(const Token& name, const Token& value) override { ++callbacks; readToken(name); readToken(value); }
  void actOnDefaultDecl(ArrayRef<Token> names) override { ++callbacks; for (auto& t : names) readToken(t); }
  void actOnIncludeDecl(bool, const Token& path) override { ++callbacks; readToken(path); }
  BuildResult actOnBeginBuildDecl(const Token& name, ArrayRef<Token> outputs, ArrayRef<Token> inputs,
                                  unsigned numExplicitInputs, unsigned numImplicitInputs) override {
    ++callbacks;
    readToken(name);
    for (auto& t : outputs) readToken(t);
    for (auto& t : inputs) readToken(t);
    if ((size_t)numExplicitInputs + numImplicitInputs > inputs.size())
      fz::violation("parser: explicit + implicit input counts exceed the number of input tokens");
    return &dummy;
  }
  void actOnBuildBindingDecl(BuildResult, const Token& name, const Token& value) override { ++callbacks; readToken(name); readToken(value); }
  void actOnEndBuildDecl(BuildResult, const Token& start) override { readToken(start); }
  PoolResult actOnBeginPoolDecl(const Token& name) override { ++callbacks; readToken(name); return &dummy; }
  void actOnPoolBindingDecl(PoolResult, const Token& name, const Token& value) override { ++callbacks; readToken(name); readToken(value); }
  void actOnEndPoolDecl(PoolResult, const Token& start) override { readToken(start); }
  RuleResult actOnBeginRuleDecl(const Token& name) override { ++callbacks; readToken(name); return &dummy; }
  void actOnRuleBindingDecl(RuleResult, const Token& name, const Token& value) override { ++callbacks; readToken(name); readToken(value); }
  void actOnEndRuleDecl(RuleResult, const Token& start) override { readToken(start); }
};

// ---------------------------------------------------------------- pass B: ManifestLoader over the table

class TableBuffer : public llvm::MemoryBuffer {
  char* mem;
  std::string name;

public:
  TableBuffer(const std::string& content, StringRef bufferName) : name(bufferName.str()) {
    size_t n = content.size();
    mem = new char[n + 1];
    if (n) memcpy(mem, content.data(), n);
    mem[n] = 0;
    init(mem, mem + n, /*RequiresNullTerminator=*/true);
    ++g_open;
  }
  ~TableBuffer() override { delete[] mem; --g_open; }
  StringRef getBufferIdentifier() const override { return name; }
  BufferKind getBufferKind() const override { return MemoryBuffer_Malloc; }
};

struct LoaderActions : public ManifestLoaderActions {
  const std::vector<File>& files;
  const bool chainMode;
  ManifestLoader* loader = nullptr;
  size_t loads = 0, refusedDepth = 0, refusedBudget = 0, unknown = 0, errors = 0, deepest = 0;

  LoaderActions(const std::vector<File>& files, bool chainMode) : files(files), chainMode(chainMode) {}

  void initialize(ManifestLoader* l) override { loader = l; }

  void error(StringRef filename, StringRef message, const Token& at) override {
    ++errors;
    fz::touch(filename.data(), filename.size());
    fz::touch(message.data(), message.size());
    readToken(at);
  }

  std::unique_ptr<llvm::MemoryBuffer> readFile(StringRef path, StringRef forFilename, const Token* forToken) override {
    fz::touch(path.data(), path.size());
    fz::touch(forFilename.data(), forFilename.size());
    if (forToken) readToken(*forToken);
    if (chainMode) {
      // one descending chain: succeed only while nothing has been closed yet
      if (g_open != deepest) { ++refusedDepth; return nullptr; }
      if (loads >= maxChain()) { ++refusedBudget; return nullptr; }
    } else {
      if (g_open >= kMaxDepth) { ++refusedDepth; return nullptr; }
      if (loads >= kMaxLoads) { ++refusedBudget; return nullptr; }
    }
    StringRef rel = path;
    if (rel.startswith("/w/")) rel = rel.substr(3);
    for (const File& f : files) {
      if (StringRef(f.name) == rel || StringRef(f.name) == path) {
        ++loads;
        std::unique_ptr<llvm::MemoryBuffer> b(new TableBuffer(f.content, path));
        if (g_open > deepest) deepest = g_open;
        return b;
      }
    }
    ++unknown;
    return nullptr;
  }
};

void readString(const std::string& s) { fz::touch(s.data(), s.size()); }

void walk(const Manifest& m) {
  for (const Scope* s = &m.getRootScope(); s; s = s->getParent()) {
    for (auto& e : s->getBindings()) { fz::touch(e.getKey().data(), e.getKey().size()); readString(e.getValue()); }
    for (auto& e : s->getRules()) {
      fz::touch(e.getKey().data(), e.getKey().size());
      readString(e.getValue()->getName());
      for (auto& p : e.getValue()->getParameters()) { fz::touch(p.getKey().data(), p.getKey().size()); readString(p.getValue()); }
    }
  }
  for (auto& e : m.getNodes()) {
    fz::touch(e.getKey().data(), e.getKey().size());
    readString(e.getValue()->getCanonicalPath());
    readString(e.getValue()->getScreenPath());
  }
  for (auto& e : m.getPools()) { readString(e.getValue()->getName()); fz::g_sink += e.getValue()->getDepth(); }
  for (const Node* n : m.getDefaultTargets()) readString(n->getScreenPath());
  for (const Command* c : m.getCommands()) {
    const Rule* r = c->getRule();
    readString(r->getName());
    for (auto& p : r->getParameters()) readString(p.getValue());
    for (const Node* n : c->getOutputs()) readString(n->getScreenPath());
    for (const Node* n : c->getInputs()) readString(n->getScreenPath());
    if ((size_t)c->getNumExplicitInputs() + c->getNumImplicitInputs() > c->getInputs().size())
      fz::violation("loader: explicit + implicit input counts exceed the number of inputs of a command");
    for (auto& p : c->getParameters()) { fz::touch(p.getKey().data(), p.getKey().size()); readString(p.getValue()); }
    readString(c->getCommandString());
    readString(c->getDescription());
    readString(c->getDepsFile());
    readString(c->getRspFile());
    readString(c->getRspFileContent());
    if (c->getExecutionPool()) readString(c->getExecutionPool()->getName());
  }
}

}  // namespace

extern "C" int LLVMFuzzerTestOneInput(const uint8_t* data, size_t size) {
  std::vector<File> files;
  carve(data, size, files);

  {  // pass A
    fz::ExactBuf buf((const uint8_t*)files[0].content.data(), files[0].content.size());
    ReadingParseActions actions;
    Parser parser(StringRef(buf.p, buf.n), actions);
    parser.parse();
  }

  bool depthRefused = false;
  {  // pass B
    g_open = 0;
    LoaderActions actions(files, /*chainMode=*/false);
    std::unique_ptr<Manifest> manifest;
    {
      ManifestLoader loader("/w", "build.ninja", actions);
      manifest = loader.load();
    }
    if (manifest) walk(*manifest);
    depthRefused = actions.refusedDepth != 0;
  }

  // Pass C costs as many parses as the loader allows nesting levels, so it runs for one in sixteen of the
  // inputs that qualify (chosen by a hash of the input, i.e. deterministically).
  uint32_t h = 2166136261u;
  for (size_t i = 0; i < size; ++i) h = (h ^ data[i]) * 16777619u;
  if (depthRefused && ((h >> 7) & 15) == 0) {  // pass C
    g_open = 0;
    LoaderActions actions(files, /*chainMode=*/true);
    std::unique_ptr<Manifest> manifest;
    {
      ManifestLoader loader("/w", "build.ninja", actions);
      manifest = loader.load();
    }
    if (manifest) walk(*manifest);
  }
  return 0;
}
