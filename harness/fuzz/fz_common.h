// Shared by the C19 libFuzzer targets (harness/fuzz/fz_*.cpp).
//
// * ExactBuf: an exact-size heap copy of the fuzz input (`new char[n]`, no terminator), so that a
//   read of the byte at buffer.end() lands in an AddressSanitizer red zone.
// * violation(): monitor verdicts are reported as one line `VERIF-VIOLATION <key>` on stderr followed
//   by abort(), which makes libFuzzer save the input as a crash artifact; checks/c19.py re-runs the
//   artifact alone and turns that line into the violation key.
// * touch(): reads every byte of a range handed to a callback, the way a real client would when it
//   prints or copies the text; a range outside live memory becomes an ASan report.
#ifndef VERIF_FZ_COMMON_H
#define VERIF_FZ_COMMON_H

#include <cstdarg>
#include <cstdint>
#include <cstdio>
#include <cstdlib>
#include <cstring>

namespace fz {

struct ExactBuf {
  char* p;
  size_t n;
  ExactBuf(const uint8_t* data, size_t size) : p(new char[size]), n(size) {
    if (size) memcpy(p, data, size);
  }
  // n bytes followed by `extra` zero bytes (only for interfaces that document a terminator).
  ExactBuf(const char* data, size_t size, size_t extra) : p(new char[size + extra]), n(size) {
    if (size) memcpy(p, data, size);
    for (size_t i = 0; i < extra; ++i) p[size + i] = 0;
  }
  ~ExactBuf() { delete[] p; }
  ExactBuf(const ExactBuf&) = delete;
  ExactBuf& operator=(const ExactBuf&) = delete;
  const char* begin() const { return p; }
  const char* end() const { return p + n; }
};

[[noreturn]] inline void violation(const char* fmt, ...) {
  char msg[512];
  va_list ap;
  va_start(ap, fmt);
  vsnprintf(msg, sizeof msg, fmt, ap);
  va_end(ap);
  fprintf(stderr, "VERIF-VIOLATION %s\n", msg);
  fflush(stderr);
  abort();
}

static volatile unsigned g_sink;

inline void touch(const char* p, size_t n) {
  unsigned s = 0;
  for (size_t i = 0; i < n; ++i) s += (unsigned char)p[i];
  g_sink += s;
}

}  // namespace fz
#endif
