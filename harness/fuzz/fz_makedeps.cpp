// C19 libFuzzer target: llbuild::core::MakefileDepsParser over an exact-size buffer.
//
// Input layout: data[0] & 1 = ignoreSubsequentOutputs, data[1..] = the dependency file text.
// MakefileDepsParser(StringRef, ...) documents no terminator, so the text is an exact-size
// `new char[n]` copy (a truncated .d file, e.g. one ending in a backslash, is what an interrupted
// compiler leaves behind).
//
// Monitor: the raw word slices handed to the callbacks lie inside the buffer and are readable, the
// unescaped words are readable, error positions are <= n, and the number of callbacks is bounded by
// the input size (each callback consumes at least one byte or ends a rule).
#include "fz_common.h"

#include "llbuild/Core/MakefileDepsParser.h"

using namespace llbuild;
using namespace llbuild::core;

namespace {
struct Actions : public MakefileDepsParser::ParseActions {
  const char* begin;
  const char* end;
  size_t n;
  size_t callbacks = 0;

  void bump() {
    if (++callbacks > 4 * n + 16)
      fz::violation("makedeps: more callbacks than 4n+16 for an n-byte buffer (no progress)");
  }
  void slice(StringRef s, const char* what) {
    if (s.size() && (s.begin() < begin || s.end() > end || s.begin() > s.end()))
      fz::violation("makedeps: %s slice handed to the callback is outside the buffer", what);
    fz::touch(s.data(), s.size());
  }
  void error(StringRef message, uint64_t position) override {
    bump();
    fz::touch(message.data(), message.size());
    if (position > n) fz::violation("makedeps: error position is beyond the end of the buffer");
  }
  void actOnRuleStart(StringRef name, StringRef unescapedWord) override {
    bump();
    slice(name, "rule name");
    fz::touch(unescapedWord.data(), unescapedWord.size());
  }
  void actOnRuleDependency(StringRef dependency, StringRef unescapedWord) override {
    bump();
    slice(dependency, "dependency");
    fz::touch(unescapedWord.data(), unescapedWord.size());
  }
  void actOnRuleEnd() override { bump(); }
};
}  // namespace

extern "C" int LLVMFuzzerTestOneInput(const uint8_t* data, size_t size) {
  unsigned control = size ? data[0] : 0;
  fz::ExactBuf buf(size ? data + 1 : data, size ? size - 1 : 0);
  Actions actions;
  actions.begin = buf.begin();
  actions.end = buf.end();
  actions.n = buf.n;
  MakefileDepsParser parser(StringRef(buf.p, buf.n), actions, (control & 1) != 0);
  parser.parse();
  return 0;
}
