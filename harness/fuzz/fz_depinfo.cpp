// C19 libFuzzer target: llbuild::core::DependencyInfoParser over an exact-size buffer.
//
// The whole fuzz input is the file. DependencyInfoParser(StringRef, ...) documents no terminator
// beyond the one it validates itself (the file must END WITH a NUL byte, which is part of the n
// bytes), so the data is an exact-size `new char[n]` copy.
//
// Monitor: operands handed to the callbacks lie inside the buffer, error positions are <= n, messages
// are readable C strings, and the number of callbacks is bounded by the input size (every record
// consumes at least two bytes).
#include "fz_common.h"

#include "llbuild/Core/DependencyInfoParser.h"

using namespace llbuild;
using namespace llbuild::core;

namespace {
struct Actions : public DependencyInfoParser::ParseActions {
  const char* begin;
  const char* end;
  size_t n;
  size_t callbacks = 0;

  void bump() {
    if (++callbacks > n + 4)
      fz::violation("depinfo: more callbacks than n+4 for an n-byte buffer (no progress)");
  }
  void operand(StringRef s) {
    bump();
    if (s.begin() < begin || s.end() > end || s.begin() > s.end())
      fz::violation("depinfo: operand handed to the callback is outside the buffer");
    fz::touch(s.data(), s.size());
  }
  void error(const char* message, uint64_t position) override {
    bump();
    fz::touch(message, strlen(message));
    if (position > n) fz::violation("depinfo: error position is beyond the end of the buffer");
  }
  void actOnVersion(StringRef s) override { operand(s); }
  void actOnInput(StringRef s) override { operand(s); }
  void actOnOutput(StringRef s) override { operand(s); }
  void actOnMissing(StringRef s) override { operand(s); }
};
}  // namespace

extern "C" int LLVMFuzzerTestOneInput(const uint8_t* data, size_t size) {
  fz::ExactBuf buf(data, size);
  Actions actions;
  actions.begin = buf.begin();
  actions.end = buf.end();
  actions.n = buf.n;
  DependencyInfoParser parser(StringRef(buf.p, buf.n), actions);
  parser.parse();
  return 0;
}
