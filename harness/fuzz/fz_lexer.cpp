// C19 libFuzzer target: llbuild::ninja::Lexer over an exact-size buffer, all four lexing modes,
// with an online monitor of the token stream.
//
// Input layout: data[0] is a control byte, data[1..] is the manifest text handed to the lexer.
//   control & 3        initial LexingMode (None, IdentifierSpecific, PathString, VariableString)
//   control & 4        switch mode before every token (mode = hash(control, token index) & 3)
// Lexer(StringRef) documents no terminator ("StringRef ... need not be null terminated"), so the text
// is an exact-size `new char[n]` copy: a read of buffer.end() is an ASan red-zone hit.
//
// Monitor (what the property promises, nothing more):
//   * every token lies inside the buffer; tokens are ordered and do not overlap;
//   * the bytes between two consecutive tokens are only what Lexer::lex() itself skips there:
//     blanks (space, \t, \v, \f) and `$`-newline continuations (`$\n`, `$\r\n`, and the `\r` that
//     getNextChar() folds into a preceding `\n`);
//   * EndOfFile is produced only with start == buffer.end(), and is then produced "continually";
//   * lexing makes progress: at most n + 2 tokens for n bytes.
#include "fz_common.h"

#include "llbuild/Ninja/Lexer.h"

using namespace llbuild;
using namespace llbuild::ninja;

static bool isBlank(unsigned char c) { return c == ' ' || c == '\t' || c == '\v' || c == '\f'; }

// gap := ( blank | '$' '\n' '\r'? | '$' '\r' '\n' )*
static bool gapIsSkippable(const char* p, const char* e) {
  while (p != e) {
    unsigned char c = (unsigned char)*p;
    if (isBlank(c)) { ++p; continue; }
    if (c != '$') return false;
    if (e - p >= 2 && p[1] == '\n') {
      p += 2;
      if (p != e && *p == '\r') ++p;
      continue;
    }
    if (e - p >= 3 && p[1] == '\r' && p[2] == '\n') { p += 3; continue; }
    return false;
  }
  return true;
}

static Lexer::LexingMode modeOf(unsigned v) {
  switch (v & 3) {
  case 0: return Lexer::LexingMode::None;
  case 1: return Lexer::LexingMode::IdentifierSpecific;
  case 2: return Lexer::LexingMode::PathString;
  default: return Lexer::LexingMode::VariableString;
  }
}

extern "C" int LLVMFuzzerTestOneInput(const uint8_t* data, size_t size) {
  unsigned control = size ? data[0] : 0;
  fz::ExactBuf buf(size ? data + 1 : data, size ? size - 1 : 0);
  const char* const begin = buf.begin();
  const char* const end = buf.end();
  const size_t n = buf.n;

  Lexer lexer(StringRef(buf.p, buf.n));
  lexer.setMode(modeOf(control));
  const bool switching = (control & 4) != 0;
  uint32_t h = 2166136261u ^ control;

  const char* prevEnd = begin;
  size_t count = 0;
  for (;;) {
    if (switching) {
      h = (h ^ (uint32_t)count) * 16777619u;
      lexer.setMode(modeOf(h >> 13));
    }
    Token tok;
    memset(&tok, 0, sizeof tok);
    lexer.lex(tok);
    ++count;
    if (count > n + 2)
      fz::violation("lexer: more than n+2 tokens for an n-byte buffer (no progress)");
    if (tok.start < begin || tok.start > end)
      fz::violation("lexer: token starts outside the buffer");
    if ((size_t)(end - tok.start) < (size_t)tok.length)
      fz::violation("lexer: token extends past the end of the buffer");
    if (tok.start < prevEnd)
      fz::violation("lexer: token overlaps the previous token");
    if (!gapIsSkippable(prevEnd, tok.start)) {
      fprintf(stderr, "gap of %zu bytes at offset %zu before a %s token\n", (size_t)(tok.start - prevEnd), (size_t)(prevEnd - begin),
              tok.getKindName());
      fz::violation("lexer: bytes between tokens are not blanks or $-newline continuations");
    }
    fz::touch(tok.start, tok.length);
    if (tok.tokenKind == Token::Kind::EndOfFile) {
      if (tok.start != end)
        fz::violation("lexer: EndOfFile reported before the end of the buffer");
      break;
    }
    prevEnd = tok.start + tok.length;
  }
  // "Return the next token from the file or EOF continually when the end of the file is reached."
  for (int i = 0; i < 2; ++i) {
    Token tok;
    memset(&tok, 0, sizeof tok);
    lexer.lex(tok);
    if (tok.tokenKind != Token::Kind::EndOfFile)
      fz::violation("lexer: a token other than EndOfFile follows EndOfFile");
    if (tok.start != end)
      fz::violation("lexer: repeated EndOfFile is not at the end of the buffer");
  }
  return 0;
}
