// Small helpers shared by the /verif C++ harnesses: PRNG, JSON escaping, argument parsing.
#ifndef VERIF_COMMON_H
#define VERIF_COMMON_H

#include <cstdint>
#include <cstdio>
#include <cstdlib>
#include <cstring>
#include <map>
#include <string>
#include <vector>

namespace vf {

struct Rng {
  uint64_t s;
  explicit Rng(uint64_t seed) : s(seed * 0x9E3779B97F4A7C15ull + 0x1234567ull) { next(); next(); }
  uint64_t next() {
    // splitmix64
    uint64_t z = (s += 0x9E3779B97F4A7C15ull);
    z = (z ^ (z >> 30)) * 0xBF58476D1CE4E5B9ull;
    z = (z ^ (z >> 27)) * 0x94D049BB133111EBull;
    return z ^ (z >> 31);
  }
  uint64_t below(uint64_t n) { return n ? next() % n : 0; }
  bool chance(unsigned num, unsigned den) { return below(den) < num; }
  template <class T> const T& pick(const std::vector<T>& v) { return v[below(v.size())]; }
};

inline uint64_t fnv(const void* p, size_t n, uint64_t h = 1469598103934665603ull) {
  const unsigned char* c = (const unsigned char*)p;
  for (size_t i = 0; i < n; ++i) { h ^= c[i]; h *= 1099511628211ull; }
  return h;
}
inline uint64_t fnv(const std::string& s, uint64_t h = 1469598103934665603ull) { return fnv(s.data(), s.size(), h); }

inline std::string jstr(const std::string& s) {
  std::string o = "\"";
  char b[8];
  for (unsigned char c : s) {
    if (c == '"') o += "\\\"";
    else if (c == '\\') o += "\\\\";
    else if (c == '\n') o += "\\n";
    else if (c < 0x20 || c >= 0x7f) { snprintf(b, sizeof b, "\\u%04x", c); o += b; }
    else o += (char)c;
  }
  return o + "\"";
}

inline std::string hex(const void* p, size_t n) {
  static const char* d = "0123456789abcdef";
  std::string o;
  const unsigned char* c = (const unsigned char*)p;
  for (size_t i = 0; i < n; ++i) { o += d[c[i] >> 4]; o += d[c[i] & 15]; }
  return o;
}
inline std::string hex(const std::string& s) { return hex(s.data(), s.size()); }
inline std::string unhex(const std::string& h) {
  std::string o;
  auto v = [](char c) { return c <= '9' ? c - '0' : (c | 32) - 'a' + 10; };
  for (size_t i = 0; i + 1 < h.size(); i += 2) o += (char)(v(h[i]) * 16 + v(h[i + 1]));
  return o;
}

struct Args {
  std::map<std::string, std::string> kv;
  Args(int argc, char** argv) {
    for (int i = 1; i < argc; ++i) {
      std::string a = argv[i];
      if (a.rfind("--", 0) == 0) {
        auto eq = a.find('=');
        if (eq != std::string::npos) kv[a.substr(2, eq - 2)] = a.substr(eq + 1);
        else if (i + 1 < argc && strncmp(argv[i + 1], "--", 2) != 0) { kv[a.substr(2)] = argv[i + 1]; ++i; }
        else kv[a.substr(2)] = "1";
      }
    }
  }
  uint64_t u(const char* k, uint64_t d) const { auto it = kv.find(k); return it == kv.end() ? d : strtoull(it->second.c_str(), 0, 0); }
  std::string s(const char* k, const char* d = "") const { auto it = kv.find(k); return it == kv.end() ? d : it->second; }
  bool has(const char* k) const { return kv.count(k) != 0; }
};

}  // namespace vf
#endif
