// C17 observer: loads a Ninja manifest with the real ninja::ManifestLoader (as `llbuild ninja load-manifest`
// does) and prints EVERYTHING the loader computed for each build statement, in manifest order, one JSON
// object, every byte string hex encoded (paths and commands are arbitrary bytes). It shows what the command
// line tool does not print: rspfile, rspfile_content, and the loader's diagnostics as data.
#include "llbuild/Ninja/Manifest.h"
#include "llbuild/Ninja/ManifestLoader.h"
#include "llbuild/Ninja/Lexer.h"
#include "llbuild/Ninja/Parser.h"

#include "llvm/ADT/SmallString.h"
#include "llvm/Support/FileSystem.h"
#include "llvm/Support/MemoryBuffer.h"
#include "llvm/Support/Path.h"

#include "common.h"

#include <unistd.h>
#include <string>
#include <vector>

using namespace llbuild;

namespace {

struct Diag { std::string file, msg; unsigned line, column; };

class Actions : public ninja::ManifestLoaderActions {
public:
  std::vector<Diag> diags;
  void initialize(ninja::ManifestLoader*) override {}
  void error(StringRef filename, StringRef message, const ninja::Token& at) override {
    if (diags.size() < 50) diags.push_back({filename.str(), message.str(), at.line, at.column});
  }
  std::unique_ptr<llvm::MemoryBuffer> readFile(StringRef path, StringRef forFilename,
                                               const ninja::Token* forToken) override {
    auto b = llvm::MemoryBuffer::getFile(path);
    if (!b) {
      diags.push_back({forFilename.str(), "unable to read " + path.str(), forToken ? forToken->line : 0, 0});
      return nullptr;
    }
    return std::move(*b);
  }
};

std::string hexlist(const ninja::Node* const* b, const ninja::Node* const* e) {
  std::string o = "[";
  for (auto it = b; it != e; ++it) {
    if (it != b) o += ",";
    o += "\"" + vf::hex((*it)->getScreenPath()) + "\"";
  }
  return o + "]";
}

}  // namespace

int main(int argc, char** argv) {
  if (argc != 2) { fprintf(stderr, "usage: ninjadump <manifest>\n"); return 2; }
  std::string filename = argv[1];
  size_t pos = filename.find_last_of('/');
  if (pos != std::string::npos) {
    if (chdir(filename.substr(0, pos).c_str()) != 0) { perror("chdir"); return 2; }
    filename = filename.substr(pos + 1);
  }
  llvm::SmallString<256> cwd;
  if (llvm::sys::fs::current_path(cwd)) return 2;
  std::string wd = cwd.str().str();

  Actions actions;
  ninja::ManifestLoader loader(wd, filename, actions);
  std::unique_ptr<ninja::Manifest> m = loader.load();
  if (!m) { printf("{\"load_failed\":true}\n"); return 0; }

  std::string o = "{\"cwd\":\"" + vf::hex(wd) + "\",\"errors\":[";
  for (size_t i = 0; i < actions.diags.size(); ++i) {
    auto& d = actions.diags[i];
    if (i) o += ",";
    o += "{\"file\":\"" + vf::hex(d.file) + "\",\"msg\":" + vf::jstr(d.msg) + ",\"line\":" + std::to_string(d.line) +
         ",\"column\":" + std::to_string(d.column) + "}";
  }
  o += "],\"pools\":{";
  bool first = true;
  for (const auto& e : m->getPools()) {
    if (!first) o += ",";
    first = false;
    o += "\"" + vf::hex(e.getValue()->getName()) + "\":" + std::to_string(e.getValue()->getDepth());
  }
  o += "},\"defaults\":[";
  for (size_t i = 0; i < m->getDefaultTargets().size(); ++i) {
    if (i) o += ",";
    o += "\"" + vf::hex(m->getDefaultTargets()[i]->getScreenPath()) + "\"";
  }
  o += "],\"commands\":[";
  first = true;
  for (const ninja::Command* c : m->getCommands()) {
    if (!first) o += ",";
    first = false;
    o += "\n{\"outputs\":" + hexlist(c->getOutputs().data(), c->getOutputs().data() + c->getOutputs().size());
    const ninja::Node* const* in = c->getInputs().data();
    unsigned ne = c->getNumExplicitInputs(), ni = c->getNumImplicitInputs(), nt = c->getInputs().size();
    o += ",\"inputs\":" + hexlist(in, in + ne);
    o += ",\"implicit\":" + hexlist(in + ne, in + ne + ni);
    o += ",\"order_only\":" + hexlist(in + ne + ni, in + nt);
    o += ",\"rule\":\"" + vf::hex(c->getRule()->getName()) + "\"";
    o += ",\"command\":\"" + vf::hex(c->getCommandString()) + "\"";
    o += ",\"description\":\"" + vf::hex(c->getDescription()) + "\"";
    const char* ds = "none";
    switch (c->getDepsStyle()) {
    case ninja::Command::DepsStyleKind::None: break;
    case ninja::Command::DepsStyleKind::GCC: ds = "gcc"; break;
    case ninja::Command::DepsStyleKind::MSVC: ds = "msvc"; break;
    }
    o += std::string(",\"deps\":\"") + ds + "\"";
    o += ",\"depfile\":\"" + vf::hex(c->getDepsFile()) + "\"";
    o += ",\"rspfile\":\"" + vf::hex(c->getRspFile()) + "\"";
    o += ",\"rspfile_content\":\"" + vf::hex(c->getRspFileContent()) + "\"";
    o += ",\"pool\":\"" + (c->getExecutionPool() ? vf::hex(c->getExecutionPool()->getName()) : std::string()) + "\"";
    o += std::string(",\"generator\":") + (c->hasGeneratorFlag() ? "true" : "false");
    o += std::string(",\"restat\":") + (c->hasRestatFlag() ? "true" : "false") + "}";
  }
  o += "]}\n";
  fwrite(o.data(), 1, o.size(), stdout);
  return 0;
}
