#!/bin/bash
# usage: tools/confirm_seed.sh <out dir of the seeding agent> <name under /verif/seeded>
# Confirms independently, in a fresh scratch worktree of /repo HEAD: demo passes without the patch, the patched tree compiles,
# the 83 pinned tests pass, the demo fails with the patch. On success copies patch + demo + meta into /verif/seeded/<name>/.
out="$1"; name="$2"; wt=/var/tmp/confirm-$name
git -C /repo worktree remove --force $wt 2>/dev/null
git -C /repo worktree add -q --detach $wt HEAD || exit 2
res=""
(
cd $wt
cmake -G Ninja -S $wt -B $wt/_build -DCMAKE_CXX_COMPILER=clang++-16 -DCMAKE_BUILD_TYPE=RelWithDebInfo >/dev/null 2>&1 || { echo "CONFIGURE FAILED"; exit 2; }
cmake --build $wt/_build >/dev/null 2>&1 || { echo "BASE BUILD FAILED"; exit 2; }
bash $out/run_demo.sh $wt > $wt/demo_without.log 2>&1; d0=$?
git apply $out/patch.diff || { echo "PATCH DOES NOT APPLY"; exit 2; }
cmake --build $wt/_build > $wt/build_with.log 2>&1 || { echo "PATCHED BUILD FAILED"; tail -5 $wt/build_with.log; exit 2; }
total=0; ok=1
for t in $wt/_build/bin/*Tests; do o=$("$t" 2>&1); r=$?; p=$(echo "$o" | grep -c '^\[       OK \]'); total=$((total+p)); [ $r -ne 0 ] && ok=0; done
bash $out/run_demo.sh $wt > $wt/demo_with.log 2>&1; d1=$?
echo "demo_without_patch_rc=$d0 tests_passed=$total tests_ok=$ok demo_with_patch_rc=$d1"
if [ $d0 -eq 0 ] && [ $d1 -ne 0 ] && [ $ok -eq 1 ] && [ $total -ge 83 ]; then exit 0; else tail -5 $wt/demo_without.log; tail -5 $wt/demo_with.log; exit 1; fi
)
rc=$?
if [ $rc -eq 0 ]; then
  mkdir -p /verif/seeded/$name; cp -r $out/* /verif/seeded/$name/
  echo "CONFIRMED -> /verif/seeded/$name"
fi
git -C /repo worktree remove --force $wt
exit $rc
