#!/usr/bin/env python3
"""Regenerates /verif/MANIFEST.json from the table below (kept here so the manifest stays valid and consistent)."""
import json, os, subprocess, sys
VERIF = os.path.dirname(os.path.dirname(os.path.abspath(__file__)))

CHECKS = {
 "C01": dict(cat="exploration", tech="runtime monitor: generated programs/histories on the real engine (ASan+UBSan), values compared with a from-scratch engine and a reference evaluator",
             text="Every provideValue and every successful build result of thousands of generated histories (mutations, builds of any key, restarts on a SQLite DB, deferred completion orders) is compared online with the from-scratch value; held on the executions counted in the evidence.",
             note="Generated tasks are deterministic by construction; programs are DAGs of up to 10 (quick) / 24 (thorough) keys; the oracle of record (fresh engine) is cross-checked against a pure evaluator after every build.", ref="4/C01"),
 "C02": dict(cat="exploration", tech="runtime monitor: shadow epochs kept by the observer justify every createTask and every reported RunReason",
             text="Online monitor M-justify: at most one createTask per key per build, and each must have a true cause in a shadow record the observer builds only from API-boundary events; reasons reported to the delegate are checked against the same shadow.",
             note="Sound by construction (never predicts the run set, only asks for a cause); under-building is C01's job. Shadow epochs are liberal after interrupted executions.", ref="4/C02"),
 "C03": dict(cat="exploration", tech="differential runtime monitor (one engine vs restart per build) + independent DB reader + version/lock scenarios",
             text="Same history in one engine and with an engine+BuildDB restart before every build must give identical per-build traces; a fresh BuildDB reader is compared with the observer's shadow after every build (value, signature, epochs order, dependency order and flags) over hostile key/value bytes; 288 version scenarios; staged lock contests.",
             note="Restarts are in-process (new BuildEngine and new BuildDB on the same file); sqlite3 itself is trusted.", ref="4/C03"),
 "C05": dict(cat="exploration", tech="runtime monitor with cancellation injected at engine hook/callback steps (ASan) and from a foreign thread (TSan)",
             text="cancelBuild() is issued from inside step s of build b for sampled (quick) or all (thorough) steps, then the history continues on the same engine after reset and on a new engine over the same DB, each also after putting the external inputs back to their last successfully built state (A-B-A), with all monitors on; a template family (first-time discovery of a leaf in flight for a sibling) gets every step x all four continuations; threaded variant under TSan.",
             note="Steps = callbacks + three guarded hook notifications; instants inside an engine phase only via threads.", ref="4/C05"),
 "C06": dict(cat="exploration", tech="schedule enumeration at engine idle points (hooks) + ThreadSanitizer stress",
             text="Completion orders are enumerated (odometer over every scheduling choice, capped) per program/history and each must reproduce the synchronous run's values, executed sets and protocol; stalls are detected logically at the BeforeWait hook; racing workers under TSan.",
             note="Cap 120/2000 schedules per program; TSan sees only intercepted synchronisation.", ref="4/C06"),
 "C07": dict(cat="exploration", tech="runtime monitor: ground truth from least-fixpoint evaluator, reported cycle validated edge by edge; enumerated small digraphs",
             text="Builds of keys whose evaluation requires a cycle must fail with one cycle report whose every edge is a real wait-for relation observed by the monitor; acyclic builds must neither report nor stall; random cyclic programs x histories x 3 schedules tasks may report computed keys as discovered dependencies (cycles that exist only among rule scans of a later build); plus all digraphs on 3 keys ({absent,static,dynamic,discovered}) and 4 keys (static) in thorough.",
             note="Single-use edges excluded (the engine deliberately forgets them); ForceBuild cycle breaking opted in for 1/4 of cases.", ref="4/C07"),
 "C04": dict(cat="fault_enumeration", tech="kill injection at database system calls via strace (signal=KILL on entry to the N-th call), then invariant checks over the file and monitored continuation builds",
             text="One engine build per process; for each build of each history the process is killed before the N-th system call touching the SQLite file or its journal (quick: calls around fdatasync/unlink/lock transitions + random; thorough: every N), then integrity_check, I1 epoch order, I2 dependency ids resolve, I3 every stored (key,value,deps) is the pre-build row or an execution logged by the killed run, I4 three continuation builds under the C01/C02 monitors.",
             note="Process kill, not power loss; kills land between system calls; strace -P selects the calls; sqlite3 trusted.", ref="4/C04"),
 "C15": dict(cat="exploration", tech="runtime oracle over generated keys/values on the real codec (ASan+UBSan build) + valgrind memcheck subset",
             text="Every BuildKey kind (names/payloads over all byte values incl. NUL, 0..5 NUL-free filters) and every BuildValue kind (1..6 output infos with all seven FileInfo fields random, signatures, 0..6 strings incl. empty) is made through the public constructors; every accessor of fromData(toData(x)) is compared with the logical model, re-encoding of decoded values and of copies/moves must be identical, one single-field mutation per case must change the encoding, a per-shard encoding->model map catches accidental collisions, kind tags are checked distinct and invertible.",
             note="Only encoder output is decoded; only contract-respecting values are generated; short keys live in std::string SSO storage, so a short over-read there is invisible to ASan; memcheck sees a few thousand cases on the plain flavor.", ref="4/C15"),
 "C16": dict(cat="exploration", tech="runtime monitor over a client-boundary event log of the real lane-based and serial execution queues (TSan and ASan builds), helper-child behaviours, fault injection (bad executables, descriptor exhaustion, SIGUSR1 storm, strace poll->ENOMEM)",
             text="Generated job forests (50..2000 jobs, both priorities, jobs adding jobs, concurrent submitters) x 1/2/3/8 lanes x both schedulers or the serial queue x teardown timing x cancellation; children of one helper binary (0..1 MB on stdout/stderr, exit 0..255, self-signal, early close, lane release, SIGINT-ignoring, environment dump). Offline monitors: each job body exactly once before the destructor returns, bodies in flight <= lanes and one per lane id, processStarted/processFinished/completion exactly once in order with the status of the child's real fate and the exit code preserved, output bytes equal and none after completion, environment precedence, no real pid started after cancelAllJobs() returns, no helper child or thread left at quiescence.",
             note="Timing windows are sampled, not enumerated; LLBUILD_TEST=1 shortens the SIGKILL escalation; the signal storm spares the harness main thread; connectToConsole children are silent hang children only; the start of the escalation thread can be delayed through a guarded hook.", ref="4/C16"),
 "C17": dict(cat="exploration", tech="differential runtime monitor: generated valid Ninja manifest trees loaded by llbuild (ASan/UBSan) vs the installed ninja 1.11.1 and a reference evaluator written from the manual; shell-quoting round trip through /bin/sh",
             text="Every build statement of every generated manifest tree (scoping, lazy rule variables, escapes, continuations incl. CR LF, include/subninja to depth 3 with shadowing and parent rules, keyword-like identifiers, all bytes 0x80..0xFF, hostile path alphabets) must have the outputs, three input classes, rule, expanded command, description, deps/depfile, pool, flags, rspfile and rspfile_content that ninja shows or, where ninja shows nothing, the reference computes; every quoted path and random byte strings must read back unchanged through /bin/sh -c 'printf %s <escaped>'.",
             note="Only valid manifests inside the property's premises; `default` statements are not build statements and are written literally and not judged; quoting of $in/$out in description and rspfile_content is not judged; ninja-vs-reference disagreements are discarded and counted.", ref="4/C17"),
 "C18": dict(cat="exploration", tech="runtime monitor over real `llbuild ninja build` runs on generated manifests of one deterministic helper command: contents predicted in Python, clean builds by the installed ninja 1.11.1 as second oracle, the commands' own run log (start/end records), exit status; ASan/UBSan, TSan -j4 subset",
             text="Generated Ninja manifests (explicit/implicit/order-only inputs, multiple outputs, phony aliases, depfile + deps=gcc, restat, generator, pools, default) x histories of 4..12 steps {forward-mtime source edits, header edits, output deletion, manifest edits, build default/named targets, failure rounds; -k 1 and -k 0}, -j1/-j4, --db/--no-db, new process per build: outputs equal predicted clean-build bytes, immediate rebuild runs nothing, order-only changes do not re-run and producers finish before consumers start, changed command lines re-run, failing commands block dependents, exit non-zero, are retried and converge after repair.",
             note="Edits move mtimes forward (update-if-newer is a documented Ninja-compatible comparison); not judged: immediate rebuilds with --no-db, generator statements whose command line changed, restat pruning; two known findings (order-only producer failure with -k 0; dependency newly declared without a command-line change) are listed in known-findings.json.", ref="4/C18"),
 "C19": dict(cat="exploration", tech="coverage-guided fuzzing (libFuzzer + ASan/UBSan, NDEBUG) of the three hand-written parsers on exact-size unterminated buffers with online lexer/loader monitors; YAML shape generator through `llbuild buildsystem parse`",
             text="Four libFuzzer targets (Ninja lexer in all modes with a token-tiling monitor, parser+manifest loader over an in-memory file table incl. recursive include/subninja, Makefile deps parser, dependency-info parser) bounded by -runs from a generated seed corpus; every artifact is re-run alone for a stable key; timeouts are violations after a solitary re-run; thousands of well-formed YAML documents with wrong node kinds, missing/duplicate/misordered sections and unknown attributes are loaded by the asan and the NDEBUG binaries.",
             note="Red zones miss far out-of-bounds reads; assertion-only failures on the assertions-on binary that the NDEBUG+ASan binary handles are recorded, not judged; manifest-loader objects leak by design, so that target's processes are recycled.", ref="4/C19"),
 "C20": dict(cat="exploration", tech="differential runtime monitor: same generated histories through core.h and through the C++ engine interface, traces compared event by event",
             text="Each history runs once through BuildEngine/Rule/Task and once only through llb_buildengine_*/llb_task_*; per-build traces on the shared vocabulary must be identical, both runs are monitored (M-proto/M-value/M-justify) and the DB written via the C interface is read back independently.",
             note="Single-use requests, prior values, run reasons and rule signatures do not exist in the C interface; db.h and Swift bindings not covered.", ref="4/C20"),
 "C08": dict(cat="exploration", tech="runtime monitor over real `llbuild buildsystem build` runs: outputs compared with contents predicted for a clean build, cross-checked by real clean builds",
             text="Generated descriptions (shell, phony, mkdir, symlink and archive tools; virtual outputs at any position; symbolic-link outputs) and edit histories (sources, outputs, description edits incl. nodes moving between inputs and outputs, sources becoming produced nodes, archive member lists), serial and -j4, each build a new process of the ASan/UBSan binary; after every successful build every reachable output must equal the predicted clean-build bytes.",
             note="Commands are one deterministic helper whose hash is recomputed in Python; mtimes assigned explicitly; failing builds only counted.", ref="4/C08"),
 "C09": dict(cat="exploration", tech="runtime monitor: null-build run log, single-attribute description pairs (re-run iff relevant), Command::getSignature() observed through the delegate",
             text="Null builds over the C08 workload must run nothing; pairs differing in exactly one of 22 attributes must re-run the command iff the attribute is signature-relevant; signatures of such pairs and of 17 structural near-collisions must differ and be stable across processes.",
             note="Downstream re-runs after a legitimate re-run are allowed; 64-bit chance collisions ignored.", ref="4/C09"),
 "C10": dict(cat="exploration", tech="runtime monitor with injected command failures (exit/signal/late failure/missing input/unwritable output), oracles from run log + delegate events + predicted contents",
             text="Failing build, unrepaired rebuild, repair, rebuild - through the CLI (cancel on first failure) and a keep-going BuildSystemFrontend client, serial and -j4: no consumer of a failing command starts, exit status non-zero, the failing command is retried, and after repair it re-executes and outputs converge to the predicted clean state.",
             note="Failure directives are files read only by the helper; sandbox runs as root.", ref="4/C10"),
 "C11": dict(cat="exploration", tech="runtime monitor: end-to-end discovered-dependency histories through `llbuild buildsystem build` + parser round trips on exact-size buffers (ASan)",
             text="A command's undeclared reads (hostile path spellings, absolute/relative to working-directory, existing or missing) are reported through all three deps styles; each discovered path is then edited/deleted/created in turn and the command must re-run (and not re-run on the following null build); malformed files must fail and be retried; generated dependency files must round-trip byte for byte through both parsers.",
             note="NUL/TAB/CR/LF and a leading ':' cannot be expressed by the Makefile format and are not generated.", ref="4/C11"),
 "C12": dict(cat="exploration", tech="runtime monitor: tree edits vs whether the consuming command appears in its own run log, three-valued expectation from the property text",
             text="Every spelling of a directory-tree / directory-structure input (relative and absolute node names, must-scan-after-paths), with and without exclusion patterns, random trees with symlinks and a symlink loop, 17 edit kinds at every depth (incl. entries added while the directory's own mtime is restored), new process per build: must re-run / must not re-run / not judged.",
             note="Directory nodes are named '<path>/'; pattern semantics = libc fnmatch; replace-by-rename under structure nodes and additions/removals of excluded names under tree nodes are not judged.", ref="4/C12"),
 "C14": dict(cat="exploration", tech="runtime monitor: FileSystem::remove() calls logged by a wrapping file system + whole-sandbox snapshots, plus a predicate band test",
             text="Histories of expectedOutputs/roots lists across processes: every removal must lie in (previous successful list minus current list) restricted by the roots (liberal reading) and every such path under the conservative reading must be gone; nothing else in the sandbox may change; pathIsPrefixedByPath is tested against a MUST/MUST-NOT band on generated pairs.",
             note="Doubled separators and dot components are judged for safety only.", ref="4/C14"),
 "C13": dict(cat="exploration", tech="runtime oracle over real file-system observations (ASan/UBSan build) + valgrind memcheck subset",
             text="Generated (kind incl. symlinks, dangling links and FIFOs, size, mtime) x transition cases on a real ext4 directory, with a logical watchdog (no observation may block), observed through the three FileSystem modes; oracle computed from raw stat/lstat and byte comparison; held on the cases listed in the evidence, nothing more.",
             note="Trusts the kernel's stat(); explicit utimensat mtimes; directories are only compared empty.", ref="4/C13"),
}
PENDING = {}
ALL = ["C%02d" % i for i in range(1, 21)]

def main():
    hooks_commits = subprocess.run(["git", "-C", "/repo", "log", "--format=%h %s", "--grep=^verif hooks"], stdout=subprocess.PIPE, universal_newlines=True).stdout.strip().splitlines()
    m = {
     "version": 1,
     "setup_cmd": "python3 /verif/tools/setup.py",
     "hooks": {"guard": "LLBUILD_VERIF",
               "enable": "every check builds /repo's working tree with clang++-14 -DLLBUILD_VERIF into /verif/.work/build/<flavor> (tools/vlib.py build_flavor)",
               "baseline_off_cmd": "bash /verif/tools/baseline_off.sh",
               "source_commits": [c.split()[0] for c in hooks_commits],
               "add_only": True},
     "engines": [
        {"name": "enginemon", "path": "/verif/harness/enginemon", "serves_properties": ["C01", "C02", "C03", "C04", "C05", "C06", "C07", "C20"],
         "kind_free_text": "C++ harness: generated programs/histories on the real BuildEngine, shadow-record monitors, schedule control through the guarded hooks, C and C++ front ends, crash child"},
        {"name": "bsmonitor", "path": "/verif/checks/bslib.py", "serves_properties": ["C08", "C09", "C10", "C11", "C12", "C14", "C18"],
         "kind_free_text": "Python build-system monitor: description/manifest generators, deterministic helper command (harness/bscmd.c) with predicted outputs, BuildSystemFrontend client (harness/bsdriver.cpp), history runners"},
        {"name": "unit-monitors", "path": "/verif/harness", "serves_properties": ["C11", "C13", "C14", "C15", "C16", "C17", "C19"],
         "kind_free_text": "single-component C++ harnesses (file info, codec, prefix predicate, deps parsers, queue monitor, shell quoting, libFuzzer targets) run under ASan/UBSan/TSan/valgrind"},
     ],
     "checks": [],
     "notes": "All checks are runtime monitors over executions of the real code (see DESIGN.md). exit 0 held / 1 violation / 2 inconclusive or harness failure.",
     "not_applicable": [],
    }
    for pid in ALL:
        if pid in CHECKS:
            c = CHECKS[pid]
            m["checks"].append({
                "property_id": pid,
                "quick_cmd": "python3 /verif/check.py %s --tier quick" % pid,
                "thorough_cmd": "python3 /verif/check.py %s --tier thorough" % pid,
                "evidence_file": "/verif/evidence/%s.json" % pid,
                "replay_cmd_template": "python3 /verif/check.py %s --replay {path}" % pid,
                "level_claimed": {"category": c["cat"], "text": c["text"], "design_ref": c["ref"]},
                "level_note": c["note"],
                "technique": c["tech"],
            })
        else:
            m["not_applicable"].append({"property_id": pid, "reason": PENDING.get(pid, "runtime monitor for this property is designed (DESIGN.md section 4) but not built yet; not claimed until its check exists and is silent on the unchanged tree")})
    json.dump(m, open(os.path.join(VERIF, "MANIFEST.json"), "w"), indent=1)
    try:
        import jsonschema
        jsonschema.validate(m, json.load(open("/root/.vp/MANIFEST.schema.json")))
        print("MANIFEST.json valid,", len(m["checks"]), "checks")
    except ImportError:
        print("jsonschema not importable here; wrote MANIFEST.json unvalidated")

if __name__ == "__main__":
    main()
