#!/usr/bin/env python3
"""Regenerates /verif/MANIFEST.json from the table below (kept here so the manifest stays valid and consistent)."""
import json, os, subprocess, sys
VERIF = os.path.dirname(os.path.dirname(os.path.abspath(__file__)))

CHECKS = {
 "C13": dict(cat="exploration", tech="runtime oracle over real file-system observations (ASan/UBSan build) + valgrind memcheck subset",
             text="Generated (kind, size, mtime) x transition cases on a real ext4 directory, observed through the three FileSystem modes; oracle computed from raw stat/lstat and byte comparison; held on the cases listed in the evidence, nothing more.",
             note="Trusts the kernel's stat(); explicit utimensat mtimes; directories are only compared empty.", ref="4/C13"),
}
PENDING = {}
ALL = ["C%02d" % i for i in range(1, 21)]

def main():
    hooks_commits = subprocess.run(["git", "-C", "/repo", "log", "--format=%h %s", "--grep=^verif hooks"], stdout=subprocess.PIPE, universal_newlines=True).stdout.strip().splitlines()
    m = {
     "version": 1,
     "setup_cmd": "python3 /verif/tools/setup.py",
     "hooks": {"guard": "LLBUILD_VERIF",
               "enable": "every check builds /repo's working tree with clang++-14 -DLLBUILD_VERIF into /verif/.work/build/<flavor> (tools/vlib.py build_flavor)",
               "baseline_off_cmd": "bash /verif/tools/baseline_off.sh",
               "source_commits": [c.split()[0] for c in hooks_commits],
               "add_only": True},
     "engines": [],
     "checks": [],
     "notes": "All checks are runtime monitors over executions of the real code (see DESIGN.md). exit 0 held / 1 violation / 2 inconclusive or harness failure.",
     "not_applicable": [],
    }
    for pid in ALL:
        if pid in CHECKS:
            c = CHECKS[pid]
            m["checks"].append({
                "property_id": pid,
                "quick_cmd": "python3 /verif/check.py %s --tier quick" % pid,
                "thorough_cmd": "python3 /verif/check.py %s --tier thorough" % pid,
                "evidence_file": "/verif/evidence/%s.json" % pid,
                "replay_cmd_template": "python3 /verif/check.py %s --replay {path}" % pid,
                "level_claimed": {"category": c["cat"], "text": c["text"], "design_ref": c["ref"]},
                "level_note": c["note"],
                "technique": c["tech"],
            })
        else:
            m["not_applicable"].append({"property_id": pid, "reason": PENDING.get(pid, "runtime monitor for this property is designed (DESIGN.md section 4) but not built yet; not claimed until its check exists and is silent on the unchanged tree")})
    json.dump(m, open(os.path.join(VERIF, "MANIFEST.json"), "w"), indent=1)
    try:
        import jsonschema
        jsonschema.validate(m, json.load(open("/root/.vp/MANIFEST.schema.json")))
        print("MANIFEST.json valid,", len(m["checks"]), "checks")
    except ImportError:
        print("jsonschema not importable here; wrote MANIFEST.json unvalidated")

if __name__ == "__main__":
    main()
