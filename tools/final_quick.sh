#!/bin/bash
# Runs every quick check with the default seed against /repo's working tree, so that evidence/*.json is fresh; prints one line each.
cd /verif
unset VERIF_SEED VERIF_REPO
for i in $(seq -w 1 20); do
  id=C$i
  out=$(python3 /verif/check.py $id --tier quick 2>&1); rc=$?
  echo "$id rc=$rc :: $(echo "$out" | grep -E "VIOLATION|INCONCLUSIVE|HARNESS|KNOWN-FINDING" | head -3 | cut -c1-160 | tr '\n' '|') $(echo "$out" | tail -1 | cut -c1-150)"
done
