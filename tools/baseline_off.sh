#!/bin/bash
# Runs the repository's pinned baseline suite with the LLBUILD_VERIF guard OFF (the normal build in /repo/_build).
# The baseline has no ctest registrations ("unregistered_bins"), so the gtest executables are run directly.
set -o pipefail
cmake --build /repo/_build 2>&1 | tail -2 || exit 2
rc=0; total=0
for t in /repo/_build/bin/*Tests; do
  out=$("$t" 2>&1); r=$?
  p=$(echo "$out" | grep -c '^\[       OK \]'); f=$(echo "$out" | grep -c '^\[  FAILED  \].*[^:]$')
  echo "$(basename $t): rc=$r passed=$p"
  total=$((total+p))
  if [ $r -ne 0 ]; then rc=1; echo "$out" | grep FAILED; fi
done
echo "TOTAL passed=$total (baseline: 83)"
[ $total -ge 83 ] || rc=1
exit $rc
