#!/usr/bin/env python3
"""Run checks against a seeded change kept under /verif/seeded/<name>/ (patch.diff + meta.json).
The patch is applied to a scratch worktree of /repo (never to /repo itself, which other work may be building from);
the checks run with VERIF_REPO=<worktree>, which gives them their own build tree and keeps evidence/ untouched.
usage: tools/seeded.py <name> [--checks C01,C05] [--tier quick] [--keep]"""
import argparse, hashlib, json, os, shutil, subprocess, sys, time

VERIF = os.path.dirname(os.path.dirname(os.path.abspath(__file__)))


def sh(cmd, **kw):
    return subprocess.run(cmd, stdout=subprocess.PIPE, stderr=subprocess.STDOUT, universal_newlines=True, **kw)


def main():
    ap = argparse.ArgumentParser()
    ap.add_argument("name")
    ap.add_argument("--checks", default=None)
    ap.add_argument("--tier", default="quick")
    ap.add_argument("--keep", action="store_true")
    ap.add_argument("--seeds", default="1")
    ap.add_argument("--root", default="seeded", help="'benign' for changes that keep every property (every check must stay silent)")
    a = ap.parse_args()
    sdir = os.path.join(VERIF, a.root, a.name)
    meta = json.load(open(os.path.join(sdir, "meta.json")))
    ALL = ["C%02d" % i for i in range(1, 21)]
    checks = ALL if a.checks == "all" else a.checks.split(",") if a.checks else (meta.get("checks") or [meta["property"]])
    wt = "/var/tmp/seedrun-%s" % a.name
    sh(["git", "-C", "/repo", "worktree", "remove", "--force", wt])
    r = sh(["git", "-C", "/repo", "worktree", "add", "--detach", wt, "HEAD"])
    if r.returncode != 0:
        print(r.stdout); return 2
    results = {}
    try:
        r = sh(["git", "-C", wt, "apply", os.path.join(sdir, "patch.diff")])
        if r.returncode != 0:
            print("patch does not apply to /repo HEAD:\n" + r.stdout); return 2
        env = dict(os.environ, VERIF_REPO=wt)
        for c in checks:
            for seed in a.seeds.split(","):
                env["VERIF_SEED"] = seed
                t0 = time.time()
                r = sh([sys.executable, os.path.join(VERIF, "check.py"), c, "--tier", a.tier], env=env)
                viol = [l for l in r.stdout.splitlines() if l.startswith("VIOLATION")]
                results["%s seed=%s" % (c, seed)] = dict(rc=r.returncode, violations=len(viol), first=(viol[0][:260] if viol else None), wall=round(time.time() - t0, 1),
                                                         tail=r.stdout.splitlines()[-1][:200] if r.stdout.strip() else "")
                if r.returncode == 2:
                    print("\n".join(r.stdout.splitlines()[-25:]))
                print("%s %s seed=%s -> rc=%d %s (%.0fs)" % (a.name, c, seed, r.returncode, ("DETECTED: " + viol[0][:200]) if viol else "not detected: " + results["%s seed=%s" % (c, seed)]["tail"], time.time() - t0))
    finally:
        if not a.keep:
            sh(["git", "-C", "/repo", "worktree", "remove", "--force", wt])
            alt = hashlib.sha1(wt.encode()).hexdigest()[:8]
            for d in ("build-", "hbin-", "evidence-", "replays-"):
                shutil.rmtree(os.path.join(VERIF, ".work", d + alt), ignore_errors=True)
    json.dump(results, open(os.path.join(sdir, "last_run.json"), "w"), indent=1)
    if a.root == "benign":
        return 0 if all(v["rc"] == 0 for v in results.values()) else 1
    return 0 if any(v["rc"] == 1 for v in results.values()) else 1


if __name__ == "__main__":
    sys.exit(main())
