#!/usr/bin/env python3
"""setup_cmd: build the four flavors of /repo and (lazily) nothing else; harnesses are compiled by the checks."""
import os, sys
sys.path.insert(0, os.path.dirname(os.path.abspath(__file__)))
import vlib
from concurrent.futures import ThreadPoolExecutor
with ThreadPoolExecutor(4) as ex:
    print(list(ex.map(vlib.build_flavor, ["asan", "tsan", "fuzz", "plain"])))
