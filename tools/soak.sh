#!/bin/bash
# usage: tools/soak.sh "<ids>" "<seeds>" [tier]  -- runs each check for each seed, prints one line each; evidence is restored to seed 1 afterwards by the caller
ids="$1"; seeds="$2"; tier="${3:-quick}"
for s in $seeds; do for id in $ids; do
  out=$(VERIF_SEED=$s python3 /verif/check.py $id --tier $tier 2>&1); rc=$?
  echo "seed=$s $id rc=$rc :: $(echo "$out" | grep -E "VIOLATION|INCONCLUSIVE|HARNESS" | head -3 | cut -c1-220 | tr '\n' '|') $(echo "$out" | tail -1 | cut -c1-160)"
done; done
