#!/bin/bash
# usage: tools/regress_seeds.sh [pattern]  -- runs every seeded change (seeded/<name>) against the check of its property and every
# benign change against the checks listed for it; prints one line each. A seeded change must be DETECTED, a benign one must stay silent.
cd /verif
pat="${1:-.}"
for d in seeded/*/; do n=$(basename $d); echo "$n" | grep -qE "$pat" || continue
  python3 tools/seeded.py $n 2>&1 | grep -E "rc=|does not apply" | cut -c1-220
done
