#!/usr/bin/env python3
"""Shared machinery for the /verif checks: flavor builds of /repo, harness builds,
evidence writing, known-findings matching, parallel case runners, verdict discipline."""
import fcntl, hashlib, json, os, shutil, subprocess, sys, time, signal, tempfile, re
from concurrent.futures import ThreadPoolExecutor

VERIF = os.path.dirname(os.path.dirname(os.path.abspath(__file__)))
REPO = os.environ.get("VERIF_REPO", "/repo")
WORK = os.path.join(VERIF, ".work")
_alt = "" if REPO == "/repo" else "-" + hashlib.sha1(REPO.encode()).hexdigest()[:8]
BUILD = os.path.join(WORK, "build" + _alt)      # a scratch copy of the repository (VERIF_REPO) gets its own build tree
HBIN = os.path.join(WORK, "hbin" + _alt)
SCRATCH = os.path.join(WORK, "scratch")
EVID = os.path.join(VERIF, "evidence")
REPLAYS = os.path.join(VERIF, "replays")
if _alt:   # runs against a scratch copy never overwrite the real evidence
    EVID = os.path.join(WORK, "evidence" + _alt)
    REPLAYS = os.path.join(WORK, "replays" + _alt)
NCPU = os.cpu_count() or 8

CXX = "clang++-14"
COMMON = "-O1 -g -fno-omit-frame-pointer -DLLBUILD_VERIF"
FLAVORS = {
    "asan": dict(cxxflags=COMMON + " -fsanitize=address,undefined -fno-sanitize-recover=all -fno-sanitize=object-size",
                 ldflags="-fsanitize=address,undefined", asserts=True),
    "tsan": dict(cxxflags=COMMON + " -fsanitize=thread", ldflags="-fsanitize=thread", asserts=True),
    "fuzz": dict(cxxflags=COMMON + " -DNDEBUG -fsanitize=fuzzer-no-link,address,undefined -fno-sanitize-recover=all -fno-sanitize=object-size",
                 ldflags="-fsanitize=address,undefined", asserts=False),
    "plain": dict(cxxflags=COMMON, ldflags="", asserts=True),
}
LIB_TARGETS = ["llbuildBuildSystem", "llbuildNinja", "llbuildCore", "llbuildBasic", "llvmSupport",
               "llbuildCommands", "libllbuild", "llbuild", "LLVMDemangle"]

SAN_ENV = {
    "ASAN_OPTIONS": "abort_on_error=1:detect_leaks=0:allocator_may_return_null=1:handle_abort=1",
    "UBSAN_OPTIONS": "print_stacktrace=1:halt_on_error=1",
}


class HarnessFailure(Exception):
    pass


def log(*a):
    print(*a, file=sys.stderr, flush=True)


def sh(cmd, **kw):
    return subprocess.run(cmd, shell=isinstance(cmd, str), stdout=subprocess.PIPE, stderr=subprocess.STDOUT,
                          universal_newlines=True, **kw)


class _Lock:
    def __init__(self, path):
        os.makedirs(os.path.dirname(path), exist_ok=True)
        self.path = path

    def __enter__(self):
        self.f = open(self.path, "w")
        fcntl.flock(self.f, fcntl.LOCK_EX)
        return self

    def __exit__(self, *a):
        fcntl.flock(self.f, fcntl.LOCK_UN)
        self.f.close()


def build_flavor(flavor, targets=None):
    """Configure once, run ninja every time so edits under /repo are recompiled."""
    fl = FLAVORS[flavor]
    bdir = os.path.join(BUILD, flavor)
    os.makedirs(bdir, exist_ok=True)
    with _Lock(os.path.join(BUILD, flavor + ".lock")):
        stamp = os.path.join(bdir, ".configured")
        want = json.dumps([fl, REPO, CXX], sort_keys=True)
        if not (os.path.exists(os.path.join(bdir, "build.ninja")) and os.path.exists(stamp)
                and open(stamp).read() == want):
            cmd = ["cmake", "-G", "Ninja", "-S", REPO, "-B", bdir,
                   "-DCMAKE_CXX_COMPILER=" + CXX, "-DCMAKE_BUILD_TYPE=",
                   "-DCMAKE_CXX_FLAGS=" + fl["cxxflags"],
                   "-DCMAKE_EXE_LINKER_FLAGS=" + fl["ldflags"],
                   "-DLLBUILD_ENABLE_ASSERTIONS=" + ("YES" if fl["asserts"] else "NO"),
                   "-DBUILD_SHARED_LIBS=OFF", "-DBUILD_TESTING=OFF"]
            r = sh(cmd)
            if r.returncode != 0:
                raise HarnessFailure("cmake configure failed for %s:\n%s" % (flavor, r.stdout[-4000:]))
            open(stamp, "w").write(want)
        r = sh(["ninja", "-C", bdir] + (targets or LIB_TARGETS))
        if r.returncode != 0:
            raise HarnessFailure("build of /repo failed (%s):\n%s" % (flavor, r.stdout[-6000:]))
    return bdir


def llbuild_bin(flavor):
    return os.path.join(BUILD, flavor, "bin", "llbuild")


def _newest(paths):
    m = 0
    for p in paths:
        try:
            m = max(m, os.stat(p).st_mtime)
        except OSError:
            pass
    return m


def build_harness(name, flavor, sources, extra_flags="", libs=None, fuzzer=False, out=None):
    """Compile a harness from /verif/harness against /repo's headers and the flavor's static libs."""
    bdir = build_flavor(flavor)
    fl = FLAVORS[flavor]
    os.makedirs(HBIN, exist_ok=True)
    outp = out or os.path.join(HBIN, "%s.%s" % (name, flavor))
    srcs = [s if os.path.isabs(s) else os.path.join(VERIF, "harness", s) for s in sources]
    libnames = libs or ["llbuildBuildSystem", "llbuildNinja", "llbuildCore", "llbuildBasic", "llvmSupport"]
    libfiles = []
    for l in libnames:
        fn = "libllbuild.a" if l == "libllbuild" else "lib%s.a" % l
        libfiles.append(os.path.join(bdir, "lib", fn))
    libfiles.append(os.path.join(bdir, "lib", "libLLVMDemangle.a"))
    with _Lock(os.path.join(HBIN, os.path.basename(outp) + ".lock")):
        hdrs = []
        hd = os.path.join(VERIF, "harness")
        for root, _, files in os.walk(hd):
            for f in files:
                if f.endswith(".h"):
                    hdrs.append(os.path.join(root, f))
        if os.path.exists(outp) and os.stat(outp).st_mtime > _newest(srcs + libfiles + hdrs + [__file__]):
            return outp
        flags = fl["cxxflags"]
        if fuzzer:
            flags = flags.replace("fuzzer-no-link", "fuzzer")
        cmd = ("%s -std=c++14 -fno-rtti -fno-exceptions %s %s -I%s/include -I%s/lib/llvm -I%s/products/libllbuild/include "
               "-include %s/include/libstdc++14-workaround.h -I%s/harness %s -o %s %s -lsqlite3 -lcurses -lpthread -ldl" % (
                   CXX, flags, extra_flags, REPO, REPO, REPO, REPO, VERIF, " ".join(srcs), outp + ".tmp", " ".join(libfiles)))
        r = sh(cmd)
        if r.returncode != 0:
            raise HarnessFailure("harness %s (%s) failed to compile:\n%s" % (name, flavor, r.stdout[-6000:]))
        os.rename(outp + ".tmp", outp)
    return outp


def strip_debug(binary):
    """valgrind 3.19 cannot read clang-14's DWARF 5 and gives up; memcheck runs use a copy without debug info."""
    out = binary + ".nodebug"
    if not os.path.exists(out) or os.stat(out).st_mtime < os.stat(binary).st_mtime:
        r = sh(["strip", "-g", "-o", out + ".tmp%d" % os.getpid(), binary])
        if r.returncode != 0:
            raise HarnessFailure("strip failed: " + r.stdout)
        os.rename(out + ".tmp%d" % os.getpid(), out)
    return out


def seed():
    try:
        return int(os.environ.get("VERIF_SEED", "1"))
    except ValueError:
        return 1


def scratch_dir(tag):
    d = os.path.join(SCRATCH, "%s.%d" % (tag, os.getpid()))
    shutil.rmtree(d, ignore_errors=True)
    os.makedirs(d)
    return d


def run_child(cmd, timeout, env=None, cwd=None, stdin=None):
    """Run one child under a wall-clock watchdog. Returns (rc, stdout, stderr, timed_out)."""
    e = dict(os.environ)
    e.update(SAN_ENV)
    if env:
        e.update(env)
    p = None
    for attempt in range(40):
        try:
            p = subprocess.Popen(cmd, stdout=subprocess.PIPE, stderr=subprocess.PIPE, env=e, cwd=cwd,
                                 stdin=subprocess.PIPE if stdin is not None else subprocess.DEVNULL,
                                 start_new_session=True)
            break
        except OSError as ex:
            # another check process may be relinking this very binary (flavor builds are shared): ETXTBSY / ENOENT for a moment
            import errno as _errno
            if ex.errno in (_errno.ETXTBSY, _errno.ENOENT, _errno.EACCES) and attempt < 39:
                time.sleep(3)
                continue
            raise HarnessFailure("cannot start %r: %s" % (cmd, ex))
    try:
        out, err = p.communicate(stdin, timeout=timeout)
        return p.returncode, out, err, False
    except subprocess.TimeoutExpired:
        try:
            os.killpg(p.pid, signal.SIGKILL)
        except OSError:
            pass
        out, err = p.communicate()
        return -9, out, err, True


def pmap(fn, items, workers=None):
    with ThreadPoolExecutor(max_workers=workers or NCPU) as ex:
        return list(ex.map(fn, items))


def sanitizer_summary(stderr_text):
    """Extract a short sanitizer/abort signature from stderr, or None."""
    if isinstance(stderr_text, bytes):
        stderr_text = stderr_text.decode("utf-8", "replace")
    m = re.search(r"(ERROR: AddressSanitizer: [^\n]*|runtime error: [^\n]*|WARNING: ThreadSanitizer: [^\n]*|"
                  r"Assertion [^\n]* failed[^\n]*|ERROR: libFuzzer: [^\n]*|LLVM ERROR: [^\n]*)", stderr_text)
    if not m:
        return None
    sig = m.group(1)
    frames = re.findall(r"#\d+ 0x[0-9a-f]+ in ([^\s]+) ([^\s]+)", stderr_text)
    top = [f for f in frames if "/repo/" in f[1] or "/verif/" in f[1]][:3]
    return sig + " @ " + " < ".join("%s" % f[0] for f in top)


# ------------------------------------------------------------------ known findings / verdicts

def load_known():
    p = os.path.join(VERIF, "known-findings.json")
    if not os.path.exists(p):
        return []
    return json.load(open(p)).get("findings", [])


def match_known(prop, key):
    """A finding matches a violation when every regex in match applies to the violation key string."""
    for f in load_known():
        if f.get("property") != prop or f.get("status") != "known":
            continue
        pats = f.get("match", [])
        if pats and all(re.search(p, key) for p in pats):
            return f
    return None


class Check:
    """Collects violations and coverage for one property run, writes evidence, decides the exit code."""

    def __init__(self, prop, tier, level="exploration"):
        self.prop = prop
        self.tier = tier
        self.level = level
        self.seed = seed()
        self.t0 = time.time()
        self.violations = []   # (key, replay path)
        self.known_hits = {}
        self.cov = {"evaluations": 0, "distinct_nontrivial": 0, "rule": "", "samples": []}
        self.assumptions = []
        self.inconclusive = []
        os.makedirs(EVID, exist_ok=True)
        os.makedirs(REPLAYS, exist_ok=True)

    def replay_path(self, tag):
        h = hashlib.sha1(tag.encode("utf-8", "replace")).hexdigest()[:12]
        return os.path.join(REPLAYS, "%s-%s.json" % (self.prop, h))

    def violation(self, key, witness):
        """key: short structural description (matched against known findings); witness: JSON-able replay."""
        kf = match_known(self.prop, key)
        if kf is not None:
            self.known_hits.setdefault(kf["what"], 0)
            self.known_hits[kf["what"]] += 1
            return False
        path = self.replay_path(key + json.dumps(witness, sort_keys=True, default=str)[:2000])
        try:
            json.dump({"property": self.prop, "key": key, "seed": self.seed, "tier": self.tier, "witness": witness},
                      open(path, "w"), indent=1, default=str)
        except Exception as ex:  # never lose a violation because the witness was odd
            open(path, "w").write(json.dumps({"property": self.prop, "key": key, "error": str(ex)}))
        if len(self.violations) < 50:
            self.violations.append((key, path))
        else:
            self.violations.append((key, self.violations[0][1]))
        return True

    def add(self, evaluations=0, nontrivial=0):
        self.cov["evaluations"] += evaluations
        self.cov["distinct_nontrivial"] += nontrivial

    def sample(self, s):
        if len(self.cov["samples"]) < 4:
            self.cov["samples"].append(s)

    def finish(self):
        wall = time.time() - self.t0
        ev = {"property_id": self.prop, "tier": self.tier, "seed": self.seed, "level": self.level,
              "coverage": self.cov, "assumptions": self.assumptions, "wall_s": round(wall, 2),
              "violations": len(self.violations)}
        self.cov["known_findings_hit"] = self.known_hits
        self.cov["inconclusive"] = self.inconclusive[:20]
        self.cov["violation_keys"] = sorted(set(k for k, _ in self.violations))[:40]
        tmp = os.path.join(EVID, "%s.json.tmp" % self.prop)
        json.dump(ev, open(tmp, "w"), indent=1, default=str)
        os.rename(tmp, os.path.join(EVID, "%s.json" % self.prop))
        for what, n in sorted(self.known_hits.items()):
            print("KNOWN-FINDING: property=%s %s (seen %d times)" % (self.prop, what, n))
        seen = set()
        for key, path in self.violations:
            if key in seen:
                continue
            seen.add(key)
            print("VIOLATION property=%s replay=%s  # %s" % (self.prop, path, key[:300]))
        print("%s %s seed=%d: %d evaluations, %d distinct non-trivial, %d violations, %d known-finding hits, %.1fs" % (
            self.prop, self.tier, self.seed, self.cov["evaluations"], self.cov["distinct_nontrivial"],
            len(self.violations), sum(self.known_hits.values()), wall))
        if self.violations:
            return 1
        if self.inconclusive:
            print("INCONCLUSIVE: " + "; ".join(str(x) for x in self.inconclusive[:5]))
            return 2
        if self.cov["evaluations"] < 1 or self.cov["distinct_nontrivial"] < 2:
            print("INCONCLUSIVE: observed too little (evaluations=%d distinct_nontrivial=%d)" % (
                self.cov["evaluations"], self.cov["distinct_nontrivial"]))
            return 2
        return 0


# ------------------------------------------------------------------ JSON-lines harness shards

def parse_jsonl(out):
    recs = []
    for line in out.decode("utf-8", "replace").splitlines():
        line = line.strip()
        if line.startswith("{"):
            try:
                recs.append(json.loads(line))
            except ValueError:
                pass
    return recs


def run_shards(chk, cmds, timeout=600, env=None, crash_is_violation=True, hang_is_violation=False, label=""):
    """Run a list of harness command lines in parallel; each prints {"viol":..,"witness":..} lines and one
    {"summary":{..}} line. Crashes / sanitizer reports are violations with the report as key.
    Returns the list of summaries (one per shard that produced one)."""
    def one(cmd):
        rc, out, err, to = run_child(cmd, timeout, env=env)
        if to:  # re-run once before believing a hang
            rc, out, err, to = run_child(cmd, timeout, env=env)
        return cmd, rc, out, err, to
    sums = []
    for cmd, rc, out, err, to in pmap(one, cmds):
        recs = parse_jsonl(out)
        for r in recs:
            if "viol" in r:
                w = r.get("witness", {})
                if isinstance(w, dict):
                    w["cmd"] = " ".join(cmd)
                chk.violation(r["viol"], w)
            if "summary" in r:
                sums.append(r["summary"])
        if to:
            msg = "%s watchdog fired twice: %s" % (label, " ".join(cmd))
            if hang_is_violation:
                chk.violation("hang: " + label, {"cmd": " ".join(cmd), "stderr": err.decode("utf-8", "replace")[-3000:]})
            else:
                chk.inconclusive.append(msg)
        elif rc != 0:
            e = err.decode("utf-8", "replace")
            sig = sanitizer_summary(e)
            if crash_is_violation and (sig or rc < 0 or rc in (134, 139, 1)):
                chk.violation("crash: " + (sig or ("exit status %d" % rc)), {"cmd": " ".join(cmd), "rc": rc, "stderr": e[-6000:]})
            else:
                chk.inconclusive.append("%s exited %d: %s" % (" ".join(cmd), rc, e[-500:]))
        elif not any("summary" in r for r in recs):
            chk.inconclusive.append("no summary from %s" % " ".join(cmd))
    return sums


def sum_key(sums, k):
    return sum(int(s.get(k, 0)) for s in sums)
