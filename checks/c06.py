"""C06 - outcome independent of completion order and threads; task protocol; races (schedule enumeration + TSan)."""
import shutil
import vlib, enginecommon as ec

KEYS = ["cases", "runs", "builds", "rules_executed", "rules_up_to_date", "provide_value_events", "prior_value_events", "schedules", "exhaustive_programs",
        "distinct_delivery_orders", "hook_loop_top", "hook_before_wait", "delivered_at_hook", "sync_completions"]
TSAN = {"TSAN_OPTIONS": "halt_on_error=1:exitcode=66:second_deadlock_stack=1"}


def run(tier, replay):
    chk = vlib.Check("C06", tier)
    if replay:
        return ec.replay(chk, replay)
    binp = ec.build("asan")
    tb = ec.build("tsan")
    sd = vlib.scratch_dir("c06")
    try:
        th = tier == "thorough"
        m = ec.run_profile(chk, binp, "c06", 96 if not th else 600, sd, thorough=th, extra=["--max-schedules", "120" if not th else "1000"])
        mt = ec.run_profile(chk, tb, "c06t", 2400 if not th else 20000, sd, env=TSAN, label="c06t")
        ec.fold(chk, m, KEYS)
        chk.cov["threaded_runs_tsan"] = int(mt.get("runs", 0))
        chk.cov["threaded_builds"] = int(mt.get("builds", 0))
        chk.cov["threaded_before_wait_hits"] = int(mt.get("hook_before_wait", 0))
        chk.cov["threaded_distinct_delivery_orders"] = int(mt.get("distinct_delivery_orders", 0))
        chk.add(int(m.get("schedules", 0)) + int(mt.get("runs", 0)), int(m.get("distinct_delivery_orders", 0)))
        if int(m.get("schedules", 0)) < 10 or int(m.get("delivered_at_hook", 0)) < 10:
            chk.inconclusive.append("schedules were not actually varied")
        chk.cov["rule"] = ("for each (program, history): a synchronous reference run, then completion schedules enumerated in odometer order over every choice "
                           "(which parked task reports at each engine idle point, how many at once, or synchronously inside inputsAvailable) up to the cap; each "
                           "schedule's per-build results, executed-rule sets, prior values and provided values must equal the reference and pass M-proto/M-value/"
                           "M-justify; a stall at the BeforeWait hook with nothing parked is a deadlock; plus threaded runs (2..8 workers, a worker that fires "
                           "right after the BeforeWait notification, discovery racing completion, cancellation racing both) under ThreadSanitizer; "
                           "distinct_nontrivial counts distinct delivery orders actually taken")
        chk.assumptions = ["TSan sees only intercepted synchronisation; sqlite3 is uninstrumented (the engine serialises DB access under its own mutex)"]
    finally:
        shutil.rmtree(sd, ignore_errors=True)
    return chk.finish()
