"""C05 - cancellation never hangs, leaks work, or poisons later builds (cancel at every engine step + foreign-thread cancel under TSan)."""
import shutil
import vlib, enginecommon as ec

KEYS = ["cases", "runs", "builds", "rules_executed", "rules_up_to_date", "provide_value_events", "restarts", "cancelled_builds", "interrupted_tasks",
        "cancel_points", "db_checks", "hook_loop_top", "hook_before_wait", "hook_cancel_drain", "delivered_at_hook"]
TSAN = {"TSAN_OPTIONS": "halt_on_error=1:exitcode=66:second_deadlock_stack=1"}


def run(tier, replay):
    chk = vlib.Check("C05", tier)
    if replay:
        return ec.replay(chk, replay)
    binp = ec.build("asan")
    tb = ec.build("tsan")
    sd = vlib.scratch_dir("c05")
    try:
        th = tier == "thorough"
        m = ec.run_profile(chk, binp, "c05", 320 if not th else 1000, sd, thorough=th)
        # template family: first-time discovery of a leaf that is in flight for a sibling; every step of every build is a cancellation point
        mtpl = ec.run_profile(chk, binp, "c05", 8, sd, thorough=False, extra=["--cancel-points", "1000000"], base_offset=1000000, label="c05tpl")
        for k in ("runs", "builds", "cancelled_builds", "cancel_points"):
            m[k] = m.get(k, 0) + mtpl.get(k, 0)
        chk.cov["template_runs"] = int(mtpl.get("runs", 0))
        mt = ec.run_profile(chk, tb, "c05t", 1600 if not th else 8000, sd, env=TSAN, label="c05t")
        ec.fold(chk, m, KEYS)
        chk.cov["threaded_runs_tsan"] = int(mt.get("runs", 0))
        chk.cov["threaded_cancelled_builds"] = int(mt.get("cancelled_builds", 0))
        chk.cov["threaded_drain_hook_hits"] = int(mt.get("hook_cancel_drain", 0))
        chk.add(int(m.get("runs", 0)) + int(mt.get("runs", 0)), int(m.get("distinct_nontrivial", 0)))
        if int(m.get("cancelled_builds", 0)) < 10 or int(m.get("hook_cancel_drain", 0)) < 1:
            chk.inconclusive.append("too few cancelled builds observed (%s) or the drain hook was never reached" % m.get("cancelled_builds"))
        chk.cov["rule"] = ("base history run once with deferred completions to count the observable steps (callbacks + hook notifications) of every build; then the "
                           "whole history is re-run with cancelBuild() issued from inside step s of build b (quick: 4 sampled steps per build, thorough: every step), "
                           "continuing on the same engine after resetForBuild() and on a new engine over the same database, each also in a variant in which the external inputs first go back to what they were at the last successful build and the same key is built once more (A-B-A around the cancellation); all monitors stay on for the "
                           "continuation; a small template family (a key discovers a leaf that is in flight for a sibling and was stored before the key ever ran) is run with every step as cancellation point and all four continuations (M-value vs from-scratch, M-justify, M-proto, M-db, no callback after the engine observed the cancellation, no task alive "
                           "after build() returns); plus threaded runs under TSan with cancellation from a foreign thread at a random time; non-trivial as C01")
        chk.assumptions = ["cancellation instants inside an engine phase are reached only by the threaded runs, statistically"]
    finally:
        shutil.rmtree(sd, ignore_errors=True)
    return chk.finish()
