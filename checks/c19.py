"""C19 - no input file can crash, hang or over-read a parser (DESIGN.md section 4, C19).

Four libFuzzer targets on the `fuzz` flavor (NDEBUG + ASan + UBSan) with online monitors (harness/fuzz/fz_*.cpp), started from a
generated seed corpus (c19_corpus.py), bounded by -runs; every artifact is re-run alone to obtain a stable violation key.
A shape generator (c19_yaml.py) feeds well-formed YAML build descriptions to `llbuild buildsystem parse` (asan and fuzz flavors).
"""
import collections, hashlib, json, os, re, shutil, threading, time
import vlib
import c19_corpus, c19_yaml

NINJA_LIBS = ["llbuildNinja", "llbuildBasic", "llvmSupport"]
CORE_LIBS = ["llbuildCore", "llbuildBasic", "llvmSupport"]
TARGETS = [  # name, libs, dictionary, jobs (of 16 cores), runs per job quick / thorough, runs per process
    # fz_manifest costs ~1 ms per execution (two parser passes + loader under ASan) and Manifest objects leak by design of the
    # loader (bump-allocated Commands are never destroyed), so its processes are recycled every 40,000 executions
    ("fz_manifest", NINJA_LIBS, "ninja.dict", 7, 30000, 750000, 40000),
    ("fz_lexer", NINJA_LIBS, "ninja.dict", 4, 400000, 12000000, 4000000),
    ("fz_makedeps", CORE_LIBS, "makedeps.dict", 3, 1500000, 40000000, 10000000),
    ("fz_depinfo", CORE_LIBS, "depinfo.dict", 2, 3000000, 90000000, 30000000),
]
# fuzzing never uses allocator_may_return_null: an allocation failure must be reported as such, not turned into a null dereference
FUZZ_ENV = {"ASAN_OPTIONS": "abort_on_error=1:detect_leaks=0:allocator_may_return_null=0:handle_abort=0:symbolize=1",
            "UBSAN_OPTIONS": "print_stacktrace=1:halt_on_error=1"}
# fuzzing / merging processes: reports are not symbolized (the artifact is re-run alone, symbolized, to obtain the key)
JOB_ENV = dict(FUZZ_ENV, ASAN_OPTIONS=FUZZ_ENV["ASAN_OPTIONS"].replace("symbolize=1", "symbolize=0"), UBSAN_OPTIONS="print_stacktrace=0:halt_on_error=1:symbolize=0")
STACK_KB = 8192          # fz_manifest: the usual main-thread stack, fixed explicitly (see the harness header, pass C)
LIBFUZZER_FLAGS = ["-timeout=10", "-rss_limit_mb=2048", "-max_len=4096", "-print_final_stats=1", "-reload=0"]


def build_target(name, libs):
    return vlib.build_harness(name, "fuzz", ["fuzz/%s.cpp" % name], fuzzer=True, libs=libs, extra_flags="-I%s/harness/fuzz" % vlib.VERIF)


def wrap(name, cmd, small_stack=True):
    """fz_manifest runs with an explicit 8 MB stack: with an unlimited stack unbounded loader recursion would not surface."""
    if name == "fz_manifest" and small_stack:
        return ["/bin/sh", "-c", 'ulimit -s %d; exec "$0" "$@"' % STACK_KB] + cmd
    return cmd


# ------------------------------------------------------------------ stable keys from a single-input run

def _frames(err):
    """Function names of the FIRST stack trace of a report (the faulting stack, not the allocation stack), llbuild frames only."""
    i = err.find("#0 0x")
    first = err[i:] if i >= 0 else err
    j = first.find("\n\n")
    if j >= 0:
        first = first[:j]
    out = []
    for fn, path in re.findall(r"#\d+ 0x[0-9a-f]+ in (.+?) (/[^\s:]+)(?::\d+)*", first):
        if (vlib.REPO + "/") in path:
            out.append(re.sub(r"\(.*", "", fn.replace("(anonymous namespace)::", "")).strip())
    return out


def stable_key(err):
    """(kind, key) from the stderr of one execution; kind in monitor/crash/oom/timeout/None."""
    if isinstance(err, bytes):
        err = err.decode("utf-8", "replace")
    m = re.search(r"VERIF-VIOLATION ([^\n]+)", err)
    if m:
        return "monitor", "monitor: " + m.group(1).strip()
    if re.search(r"ERROR: libFuzzer: out-of-memory|AddressSanitizer: (allocation-size-too-big|out of memory|requested allocation size|calloc-overflow)", err):
        return "oom", "resource exhaustion: out of memory"
    if "ERROR: libFuzzer: timeout" in err:
        return "timeout", "hang: no result within the time limit"
    sig = vlib.sanitizer_summary(err)
    if not sig:
        return None, None
    head = sig.split(" @ ")[0]
    head = re.sub(r"\s+on (unknown )?address .*", "", head)
    head = re.sub(r"\(pc 0x.*", "", head)
    head = re.sub(r"0x[0-9a-f]+", "0x?", head).strip()
    fr = _frames(err)
    if "stack-overflow" in head:
        # where the stack ran out is accidental; the stable part is the cycle of llbuild functions that recurses
        cnt = collections.Counter(fr)
        cyc = sorted(set(f for f in fr if cnt[f] >= 3 and f.startswith("llbuild::")))
        return "crash", "crash: " + head + " @ recursion through " + " + ".join(cyc[:6])
    seen, top = set(), []
    for f in fr:
        if f not in seen:
            seen.add(f)
            top.append(f)
        if len(top) == 3:
            break
    return "crash", "crash: " + head + " @ " + " < ".join(top)


def run_single(name, binp, path, timeout_s=60, small_stack=True, env=None):
    """Runs one saved input alone in a fresh process. Returns dict(kind, key, rc, wall, err)."""
    e = dict(FUZZ_ENV)
    if env:
        e.update(env)
    cmd = wrap(name, [binp, "-timeout=%d" % timeout_s, "-rss_limit_mb=2048", "-runs=1", path], small_stack)
    t0 = time.time()
    rc, out, err, to = vlib.run_child(cmd, timeout_s + 60, env=e)
    wall = time.time() - t0
    err = err.decode("utf-8", "replace")
    kind, key = stable_key(err)
    if to and kind is None:
        kind, key = "timeout", "hang: no result within the time limit"
    if kind is None and rc != 0:
        kind, key = "crash", "crash: exit status %d without a report" % rc
    return dict(kind=kind, key=key, rc=rc, wall=wall, err=err)


def expansion_possible(data):
    """fz_manifest only: Ninja semantics allow work exponential in the input size through variable expansion
    (`x = $x$x`) combined with repeated includes; such inputs are outside what a time/memory limit can judge."""
    dollars = data.count(b"$")
    includes = b"include" in data or b"subninj" in data
    return dollars > 0 and (includes or dollars > 12)


def judge_artifact(name, binp, path):
    """Re-runs an artifact alone and returns (verdict, key, info); verdict in violation / not-judged / not-reproduced."""
    data = open(path, "rb").read()
    r = run_single(name, binp, path, 60)
    info = dict(rc=r["rc"], wall=round(r["wall"], 2), stderr=r["err"][-5000:])
    if r["kind"] in ("monitor",):
        return "violation", r["key"], info
    if r["kind"] == "crash":
        return "violation", r["key"], info
    if r["kind"] in ("timeout", "oom") or r["wall"] > 20:
        if name == "fz_manifest" and expansion_possible(data):
            return "not-judged", "resource exhaustion with variable expansion / repeated includes in the input", info
        if r["kind"] == "oom":
            return "violation", "resource exhaustion: more than 2 GB for an input of at most 4 KB without variable expansion", info
        return "violation", "hang: input of at most 4 KB not processed within %d s" % (60 if r["kind"] == "timeout" else 20), info
    return "not-reproduced", None, info


# ------------------------------------------------------------------ fuzzing phase

def parse_stats(err):
    st = {}
    for k, v in re.findall(r"stat::(\w+):\s+(\d+)", err):
        st[k] = int(v)
    m = re.findall(r"#(\d+)\s+(?:DONE|NEW|REDUCE|pulse|INITED|RELOAD)\s+cov: (\d+) ft: (\d+) corp: (\d+)/", err)
    if m:
        st["cov"], st["ft"], st["corp"] = int(m[-1][1]), int(m[-1][2]), int(m[-1][3])
    m = re.findall(r"#(\d+)\s", err)
    if m and "number_of_executed_units" not in st:
        st["number_of_executed_units"] = int(m[-1])
    return st


def fuzz_job(job):
    """One chain of libFuzzer processes over one output corpus: a new process (new seed) every `chunk` executions and after
    every artifact, until the run budget is used."""
    name, binp, runs, chunk, seed, outdir, seeddir, artdir, dictp, watchdog, max_stops = job
    os.makedirs(outdir, exist_ok=True)
    os.makedirs(artdir, exist_ok=True)
    done, procs, artifacts, stats, notes = 0, 0, 0, [], []
    while done < runs and artifacts <= max_stops:
        cmd = [binp, "-runs=%d" % min(chunk, runs - done), "-seed=%d" % ((seed + 7919 * procs) % 2147483647 or 1),
               "-artifact_prefix=%s/" % artdir, "-dict=%s" % dictp] + LIBFUZZER_FLAGS + [outdir, seeddir]
        rc, out, err, to = vlib.run_child(wrap(name, cmd), watchdog, env=JOB_ENV)
        procs += 1
        err = err.decode("utf-8", "replace")
        st = parse_stats(err)
        stats.append(st)
        if to:
            notes.append("watchdog fired on %s" % " ".join(cmd))
            break
        done += max(st.get("number_of_executed_units", 0), 1)
        if rc != 0:
            artifacts += 1
            if not re.search(r"Test unit written to|ERROR: |VERIF-VIOLATION", err):
                notes.append("%s exited %d without an artifact: %s" % (name, rc, err[-300:]))
                break
    return dict(name=name, stats=stats, executed=sum(s.get("number_of_executed_units", 0) for s in stats), processes=procs,
                stopped_by_artifact=artifacts,
                cov=max([s.get("cov", 0) for s in stats] or [0]), ft=max([s.get("ft", 0) for s in stats] or [0]),
                corp=max([s.get("corp", 0) for s in stats] or [0]), notes=notes,
                slowest=max([s.get("slowest_unit_time_sec", 0) for s in stats] or [0]),
                peak_rss=max([s.get("peak_rss_mb", 0) for s in stats] or [0]))


def merge_seeds(args):
    """libFuzzer -merge=1: keeps the seeds that add coverage features, each seed is executed once in a crash-resistant child
    (a crashing seed is saved as an artifact and skipped, so the fuzzing processes are not stopped by it again and again)."""
    name, binp, src, dst, artdir = args
    os.makedirs(dst, exist_ok=True)
    os.makedirs(artdir, exist_ok=True)
    cmd = [binp, "-merge=1", "-max_len=4096", "-timeout=10", "-rss_limit_mb=2048", "-artifact_prefix=%s/" % artdir, dst, src]
    rc, out, err, to = vlib.run_child(wrap(name, cmd), 3600, env=JOB_ENV)
    err = err.decode("utf-8", "replace")
    m = re.search(r"MERGE-OUTER: (\d+) files", err)
    kept = len(os.listdir(dst))
    ok = rc == 0 and not to and m is not None and kept > 0
    return dict(name=name, ok=ok, executed=int(m.group(1)) if m else 0, kept=kept, attempts=err.count("MERGE-OUTER: attempt"),
                tail=err[-400:] if not ok else "")


def hexdump_witness(name, path, key, info):
    data = open(path, "rb").read()
    return {"target": name, "flavor": "fuzz", "input_hex": data.hex(), "input_len": len(data), "input_preview": data[:200].decode("latin-1"),
            "artifact": os.path.basename(path), "key": key,
            "how": "python3 /verif/check.py C19 --replay <this file>  (writes input_hex to a file and runs the target on it alone)", **info}


def fuzz_phase(chk, tier, sd, bins):
    seeddir = os.path.join(sd, "seeds")
    counts = c19_corpus.generate(vlib.REPO, seeddir, chk.seed, tier)
    merged = {}
    for r in vlib.pmap(merge_seeds, [(t[0], bins[t[0]], os.path.join(seeddir, t[0]), os.path.join(sd, "merged", t[0]),
                                     os.path.join(sd, "artifacts", t[0], "merge")) for t in TARGETS]):
        merged[r["name"]] = r
        if not r["ok"]:
            chk.inconclusive.append("seed corpus merge failed for %s: %s" % (r["name"], r["tail"]))
    jobs = []
    for ti, (name, libs, dictn, njobs, rq, rt, chunk) in enumerate(TARGETS):
        nj = max(1, njobs * vlib.NCPU // 16)
        for j in range(nj):
            seed = (chk.seed * 1000003 + ti * 1009 + j * 17 + 1) % 2147483647 or 1
            jobs.append((name, bins[name], rq if tier == "quick" else rt, chunk, seed, os.path.join(sd, "corpus", name, str(j)),
                         os.path.join(sd, "merged", name), os.path.join(sd, "artifacts", name, str(j)), os.path.join(seeddir, dictn),
                         3600 if tier == "quick" else 6 * 3600, 8 if tier == "quick" else 40))
    results = vlib.pmap(fuzz_job, jobs, workers=len(jobs))
    per = {}
    for name in [t[0] for t in TARGETS]:
        rs = [r for r in results if r["name"] == name]
        units = set()
        cdir = os.path.join(sd, "corpus", name)
        for root, _, files in os.walk(cdir):
            units.update(files)                           # libFuzzer names units by the SHA-1 of their content
        per[name] = dict(executions=sum(r["executed"] for r in rs) + merged[name]["executed"], jobs=len(rs),
                         seed_inputs_kept_by_merge=merged[name]["kept"], merge_child_processes=merged[name]["attempts"], processes=sum(r["processes"] for r in rs),
                         processes_stopped_by_artifact=sum(r["stopped_by_artifact"] for r in rs),
                         coverage_counters=max(r["cov"] for r in rs), features=max(r["ft"] for r in rs),
                         corpus_units_distinct=len(units), seed_inputs=counts[name], slowest_unit_s=max(r["slowest"] for r in rs),
                         peak_rss_mb=max(r["peak_rss"] for r in rs))
        for r in rs:
            for n in r["notes"]:
                chk.inconclusive.append(n)
        if per[name]["executions"] < 1000:
            chk.inconclusive.append("%s executed only %d inputs" % (name, per[name]["executions"]))
    # triage: every artifact alone, one per process
    arts = []
    for name in [t[0] for t in TARGETS]:
        adir = os.path.join(sd, "artifacts", name)
        for root, _, files in os.walk(adir):
            for f in sorted(files):
                arts.append((name, os.path.join(root, f)))
    judged = vlib.pmap(lambda a: (a, judge_artifact(a[0], bins[a[0]], a[1])), arts)
    by_key = {}
    tri = collections.Counter()
    for (name, path), (verdict, key, info) in judged:
        tri[verdict] += 1
        per[name].setdefault("artifacts", collections.Counter())[os.path.basename(path).split("-")[0]] += 1
        if verdict == "violation":
            k = "%s: %s" % (name, key)
            cur = by_key.get(k)
            if cur is None or os.path.getsize(path) < os.path.getsize(cur[1]):
                by_key[k] = (name, path, key, info)
        elif verdict == "not-judged":
            per[name].setdefault("not_judged", collections.Counter())[key] += 1
            if os.path.getsize(path) < per[name].get("_njs", (1 << 30, None))[0]:
                per[name]["_njs"] = (os.path.getsize(path), open(path, "rb").read()[:400].decode("latin-1"))
        else:
            # oom-: the 2 GB limit was reached by what the process had accumulated (the loader leaks its Manifest objects), not by
            # this input; timeout-/slow-unit-: the input finishes quickly when it has a core for itself. Counted, not judged.
            kind = os.path.basename(path).split("-")[0]
            per[name].setdefault("not_reproduced_alone", collections.Counter())[kind] += 1
            if kind == "crash":
                chk.inconclusive.append("crash artifact %s of %s did not reproduce when run alone" % (os.path.basename(path), name))
    for k, (name, path, key, info) in sorted(by_key.items()):
        chk.violation(k, hexdump_witness(name, path, key, info))
    for name in per:
        if "_njs" in per[name]:
            per[name]["not_judged_smallest_input"] = per[name].pop("_njs")[1]
        for f in ("artifacts", "not_judged", "not_reproduced_alone"):
            if f in per[name]:
                per[name][f] = dict(per[name][f])
    return per, dict(tri), len(by_key)


# ------------------------------------------------------------------ build-description shapes

def yaml_case(args):
    idx, cat, text, d, bins = args
    p = os.path.join(d, "%d.llbuild" % idx)
    with open(p, "w", encoding="utf-8", errors="surrogatepass") as f:
        f.write(text)
    res = {}
    for fl, b in bins:
        cmd = [b, "buildsystem", "parse", "--no-output", p]
        rc, out, err, to = vlib.run_child(cmd, 120, env=FUZZ_ENV)
        if to:
            rc, out, err, to = vlib.run_child(cmd, 120, env=FUZZ_ENV)
        e = err.decode("utf-8", "replace")
        kind, key = stable_key(e)
        if to:
            kind, key = "timeout", "hang: build description not loaded within 120 s (twice)"
        elif kind is None and (rc < 0 or rc in (134, 139)):
            kind, key = "crash", "crash: killed by signal / abort (status %d) without a report" % rc
        res[fl] = dict(rc=rc, kind=kind, key=key, err=e[-3000:] if kind else "", errors=e.count("error:"))
    try:
        os.unlink(p)
    except OSError:
        pass
    return idx, cat, res


def yaml_phase(seed, tier, sd, workers):
    shapes = c19_yaml.generate(seed, tier)
    d = os.path.join(sd, "yaml")
    os.makedirs(d, exist_ok=True)
    bins = [("asan", vlib.llbuild_bin("asan")), ("fuzz", vlib.llbuild_bin("fuzz"))]
    res = vlib.pmap(yaml_case, [(i, c, t, d, bins) for i, (c, t) in enumerate(shapes)], workers=workers)
    cats = collections.Counter(c for c, _ in shapes)
    outcome = collections.Counter()
    assert_only = 0
    by_key = {}
    with_errors = 0
    for idx, cat, r in res:
        a, f = r["asan"], r["fuzz"]
        outcome["asan rc=%s" % a["rc"]] += 1
        outcome["fuzz rc=%s" % f["rc"]] += 1
        if f["errors"] or a["errors"]:
            with_errors += 1
        viol = None
        if f["kind"]:
            viol = ("fuzz", f)
        elif a["kind"]:
            if "Assertion" in (a["key"] or ""):
                assert_only += 1          # users run NDEBUG; the NDEBUG+ASan build handled it cleanly: observation only
            else:
                viol = ("asan", a)
        if viol:
            fl, v = viol
            k = "buildfile: " + v["key"]
            text = shapes[idx][1]
            cur = by_key.get(k)
            if cur is None or len(text) < len(cur["yaml"]):
                by_key[k] = {"target": "buildsystem-parse", "flavor": fl, "shape": cat, "yaml": text if len(text) < 20000 else text[:20000],
                             "yaml_truncated": len(text) >= 20000, "yaml_hex": text.encode("utf-8", "surrogatepass").hex() if len(text) < 200000 else None,
                             "rc": v["rc"], "stderr": v["err"], "asan": {"rc": a["rc"], "key": a["key"]}, "fuzz": {"rc": f["rc"], "key": f["key"]}}
    return dict(shapes=len(shapes), by_category=dict(cats), outcomes=dict(outcome), shapes_with_loader_errors=with_errors,
                assertion_only_in_assert_build=assert_only, process_runs=2 * len(shapes)), by_key, shapes


# ------------------------------------------------------------------ replay

def replay_case(path):
    rec = json.load(open(path))
    w = rec["witness"]
    sd = vlib.scratch_dir("c19r")
    try:
        if w.get("target") == "buildsystem-parse":
            vlib.build_flavor("asan")
            vlib.build_flavor("fuzz")
            text = bytes.fromhex(w["yaml_hex"]).decode("utf-8", "surrogatepass") if w.get("yaml_hex") else w["yaml"]
            idx, cat, r = yaml_case((0, w.get("shape", "?"), text, sd, [("asan", vlib.llbuild_bin("asan")), ("fuzz", vlib.llbuild_bin("fuzz"))]))
            bad = None
            if r["fuzz"]["kind"]:
                bad = "buildfile: " + r["fuzz"]["key"]
            elif r["asan"]["kind"] and "Assertion" not in (r["asan"]["key"] or ""):
                bad = "buildfile: " + r["asan"]["key"]
            print(r["fuzz"]["err"][-3000:] or r["asan"]["err"][-3000:])
        else:
            name = w["target"]
            libs = dict((t[0], t[1]) for t in TARGETS)[name]
            binp = build_target(name, libs)
            p = os.path.join(sd, "input")
            open(p, "wb").write(bytes.fromhex(w["input_hex"]))
            verdict, key, info = judge_artifact(name, binp, p)
            print(info.get("stderr", "")[-3000:])
            bad = "%s: %s" % (name, key) if verdict == "violation" else None
            if verdict != "violation":
                print("replay verdict: %s %s" % (verdict, key or ""))
        if bad:
            print("VIOLATION property=C19 replay=%s  # %s" % (path, bad))
            return 1
        print("C19 replay: the saved input no longer violates the property")
        return 0
    finally:
        shutil.rmtree(sd, ignore_errors=True)


# ------------------------------------------------------------------ entry point

def run(tier, replay):
    if replay:
        return replay_case(replay)
    chk = vlib.Check("C19", tier)
    sd = vlib.scratch_dir("c19")
    try:
        vlib.build_flavor("asan")
        bins = {t[0]: build_target(t[0], t[1]) for t in TARGETS}
        # the shape runs use a quarter of the cores next to the fuzzing jobs (the short fuzzing jobs free their cores early)
        vlib.build_flavor("fuzz")
        ybox = {}
        def ythread():
            try:
                ybox["r"] = yaml_phase(chk.seed, tier, sd, max(2, vlib.NCPU // 4))
            except Exception as ex:          # reported below, never lost
                ybox["e"] = ex
        th = threading.Thread(target=ythread)
        th.start()
        per, tri, nviol_f = fuzz_phase(chk, tier, sd, bins)
        th.join()
        if "e" in ybox:
            raise ybox["e"]
        ycov, yviol, shapes = ybox["r"]
        for k, w in sorted(yviol.items()):
            chk.violation(k, w)
        nviol_y = len(yviol)
        execs = sum(p["executions"] for p in per.values())
        distinct = sum(p["corpus_units_distinct"] for p in per.values()) + ycov["shapes"]
        chk.add(execs + ycov["process_runs"], distinct)
        chk.cov["fuzz_targets"] = per
        chk.cov["artifact_triage"] = tri
        chk.cov["distinct_crash_keys_fuzz"] = nviol_f
        chk.cov["build_description_shapes"] = ycov
        chk.cov["distinct_crash_keys_yaml"] = nviol_y
        chk.cov["rule"] = ("evaluations = libFuzzer executions of the four targets (stat::number_of_executed_units, each execution = one byte string parsed in "
                           "an exact-size heap buffer under ASan+UBSan with the online monitors of harness/fuzz) + process runs of `llbuild buildsystem parse` "
                           "(every YAML shape on the asan and on the NDEBUG fuzz flavor); distinct non-trivial = distinct inputs kept in the corpora because "
                           "they reached new coverage features + distinct YAML documents")
        for name in ("fz_manifest", "fz_lexer"):
            cdir = os.path.join(sd, "corpus", name, "0")
            best = None
            for f in sorted(os.listdir(cdir))[:200] if os.path.isdir(cdir) else []:
                b = open(os.path.join(cdir, f), "rb").read()
                if 40 < len(b) < 400 and (best is None or b.count(b"\n") > best.count(b"\n")):
                    best = b
            if best is not None:
                chk.sample({"target": name, "corpus_unit_found_by_mutation": best.decode("latin-1")})
        for cat, text in shapes:
            if cat == "wrong-kind-at-position" and len(text) < 600:
                chk.sample({"target": "buildsystem-parse", "shape": cat, "yaml": text})
                break
        chk.assumptions = [
            "Lexer/Parser/MakefileDepsParser/DependencyInfoParser take a StringRef and document no terminator: exact-size new char[n] buffers",
            "ManifestLoader receives llvm::MemoryBuffer objects, whose interface documents a readable '\\0' one past the end: fz_manifest honours that "
            "(n bytes + NUL in an allocation of exactly n+1 bytes); the Parser pass of the same target uses an exact-size buffer",
            "fz_manifest: finite in-memory file system (at most 16 files, 1200 loads per run), 1 MB stack; stack overflows are confirmed with an 8 MB stack "
            "and an unlimited load budget before they count",
            "fz_manifest: time-outs / out-of-memory on inputs that combine '$' expansion with includes or more than 12 '$' are counted, not judged "
            "(Ninja semantics allow exponential expansion); any other input of <= 4 KB must finish within 20 s and 2 GB",
            "an assertion that fires only in the assertions-on build while the NDEBUG+ASan build is clean is an observation, not a violation",
            "ASan red zones miss far out-of-bounds reads that land in another live allocation; 'every byte string' is sampled, coverage-guided",
        ]
    finally:
        shutil.rmtree(sd, ignore_errors=True)
    return chk.finish()
