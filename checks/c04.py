"""C04 - killing the process at any instant leaves a usable, consistent database.
Kill points are injected from outside with `strace -P <db> -P <db>-journal -e inject=all:signal=KILL:when=N`:
the process dies on entry to the N-th system call that touches the database or its journal."""
import os, shutil, json, random, re
import vlib

LIBS = ["llbuildCore", "llbuildBasic", "llvmSupport"]


def _child(binp, args, timeout=120):
    rc, out, err, to = vlib.run_child([binp] + args, timeout)
    return rc, vlib.parse_jsonl(out), err.decode("utf-8", "replace"), to


def _copy_db(src_dir, dst_dir):
    os.makedirs(dst_dir, exist_ok=True)
    for f in ("build.db", "build.db-journal", "state"):
        s = os.path.join(src_dir, f)
        d = os.path.join(dst_dir, f)
        if os.path.exists(s):
            shutil.copyfile(s, d)
        elif os.path.exists(d):
            os.unlink(d)


def _strace(binp, args, db, trace, inject=None, timeout=180):
    cmd = ["strace", "-f", "-qq", "-o", trace, "-P", db, "-P", db + "-journal"]
    if inject is not None:   # (syscall name, k): strace keeps one invocation counter per syscall, so the global N-th call is addressed as the k-th call of its own kind
        cmd += ["-e", "inject=%s:signal=KILL:when=%d" % inject]
    cmd += [binp] + args
    rc, out, err, to = vlib.run_child(cmd, timeout)
    return rc, out, err.decode("utf-8", "replace"), to


def _trace_calls(trace):
    calls = []
    try:
        for line in open(trace, errors="replace"):
            m = re.match(r"\d+\s+([a-z_0-9]+)\(", line)
            if m:
                calls.append((m.group(1), line))
    except OSError:
        pass
    return calls


def run_case(args):
    binp, seed, case, sd, tier, rng_seed = args
    rnd = random.Random(rng_seed)
    d = os.path.join(sd, "case%d" % case)
    os.makedirs(d)
    res = dict(viol=[], builds=0, kill_runs=0, killed=0, not_killed=0, verify_ok=0, cont_builds=0, calls=0, exhaustive=True, sample=None,
               contents={}, kill_syscalls={}, inconclusive=[])
    base = ["--seed", str(seed), "--case", str(case)]
    db, state = os.path.join(d, "build.db"), os.path.join(d, "state")
    rc, recs, err, to = _child(binp, ["--mode", "init"] + base + ["--state", state])
    if rc != 0 or not recs:
        res["inconclusive"].append("init failed: " + err[-300:])
        return res
    nops = recs[0]["summary"]["ops"]
    program = recs[0]["summary"].get("program")
    bidx = 0
    nxt = 0
    while True:
        # stop before the continuation material (last 4 ops)
        st_next = int(open(state).readline().split()[1])
        if st_next >= nops - 4:
            break
        bidx += 1
        extra = []
        if bidx == 3:
            extra = ["--defer", "--cancel-step", str(rnd.randrange(3, 25))]
        pre = os.path.join(d, "pre%d" % bidx)
        _copy_db(d, pre)
        predump = os.path.join(pre, "dump.txt")
        rc, out, e2, to = vlib.run_child([binp, "--mode", "dump"] + base + ["--db", os.path.join(pre, "build.db")], 60)
        open(predump, "wb").write(out if os.path.exists(os.path.join(pre, "build.db")) else b"")
        # counting run on a copy
        cnt = os.path.join(d, "count%d" % bidx)
        _copy_db(pre, cnt)
        cdb = os.path.join(cnt, "build.db")
        bargs = ["--mode", "build"] + base + ["--state", os.path.join(cnt, "state"), "--db", cdb, "--exec-log", os.path.join(cnt, "exec.log")] + extra
        rc, out, e2, to = _strace(binp, bargs, cdb, os.path.join(cnt, "trace"))
        calls = _trace_calls(os.path.join(cnt, "trace"))
        M = len(calls)
        res["calls"] += M
        if rc != 0 or M == 0:
            res["inconclusive"].append("counting run failed rc=%s M=%d %s" % (rc, M, e2[-300:]))
            break
        # choose kill points
        interesting = set([1, M])
        for i, (name, line) in enumerate(calls, 1):
            if name in ("fdatasync", "fsync", "unlink", "unlinkat", "ftruncate") or ("F_SETLK" in line) or ("journal" in line and name in ("openat", "open")):
                for j in (i - 1, i, i + 1):
                    if 1 <= j <= M:
                        interesting.add(j)
        if tier == "thorough" and M <= 400:
            points = list(range(1, M + 1))
        elif tier == "thorough":   # a big program: every transition point plus an even sample of the rest
            res["exhaustive"] = False
            points = sorted(interesting | set(range(1, M + 1, max(1, M // 300))))
        else:
            res["exhaustive"] = False
            interesting = sorted(interesting)
            rnd.shuffle(interesting)
            points = sorted(set(interesting[:8] + [rnd.randrange(1, M + 1) for _ in range(4)]))
        for N in points:
            kd = os.path.join(d, "kill")
            shutil.rmtree(kd, ignore_errors=True)
            _copy_db(pre, kd)
            kdb = os.path.join(kd, "build.db")
            kargs = ["--mode", "build"] + base + ["--state", os.path.join(kd, "state"), "--db", kdb, "--exec-log", os.path.join(kd, "exec.log")] + extra
            sname = calls[N - 1][0]
            kth = sum(1 for c in calls[:N] if c[0] == sname)
            rc, out, e2, to = _strace(binp, kargs, kdb, os.path.join(kd, "trace"), inject=(sname, kth))
            res["kill_runs"] += 1
            tr = open(os.path.join(kd, "trace"), errors="replace").read() if os.path.exists(os.path.join(kd, "trace")) else ""
            if "killed by SIGKILL" not in tr:
                res["not_killed"] += 1
                continue
            res["killed"] += 1
            name = calls[N - 1][0] if N - 1 < len(calls) else "?"
            res["kill_syscalls"][name] = res["kill_syscalls"].get(name, 0) + 1
            open(os.path.join(kd, "exec.log"), "a").close()
            wit = {"seed": seed, "case": case, "build": bidx, "kill_at_db_syscall": N, "of": M, "syscall": calls[N - 1][1][:160] if N - 1 < len(calls) else "", "program": program}
            # verify the file left behind
            rc, recs, e3, to = _child(binp, ["--mode", "verify"] + base + ["--db", kdb, "--pre-dump", predump, "--killed-log", os.path.join(kd, "exec.log")])
            ok = True
            for r in recs:
                if "viol" in r:
                    ok = False
                    w = dict(wit); w.update(r.get("witness", {}))
                    res["viol"].append((r["viol"], w))
                if "summary" in r:
                    c = r["summary"].get("content", "?")
                    ckey = "no-schema/absent" if c in ("absent", "no-schema") else ("pre-build state" if _same_as_pre(c, predump) else "other consistent state")
                    res["contents"][ckey] = res["contents"].get(ckey, 0) + 1
            if rc != 0:
                ok = False
                res["viol"].append(("crash while reading the database left by a kill: " + (vlib.sanitizer_summary(e3) or "exit %d" % rc), dict(wit, stderr=e3[-3000:])))
            if ok:
                res["verify_ok"] += 1
            # continuation: re-attempt the interrupted build (outputs already rewritten), then two more (mutate, build) rounds
            first = True
            for cont in range(3):
                cargs = ["--mode", "build"] + base + ["--state", os.path.join(kd, "state"), "--db", kdb, "--exec-log", os.path.join(kd, "exec2.log")]
                if first:
                    cargs += ["--killed-log", os.path.join(kd, "exec.log")]
                    first = False
                rc, recs, e3, to = _child(binp, cargs)
                res["cont_builds"] += 1
                for r in recs:
                    if "viol" in r:
                        w = dict(wit); w.update(r.get("witness", {})); w["continuation_build"] = cont
                        res["viol"].append(("after kill: " + r["viol"], w))
                if rc != 0 or to:
                    res["viol"].append(("after kill: continuation build crashed or hung: " + (vlib.sanitizer_summary(e3) or "exit %s" % rc), dict(wit, stderr=e3[-3000:], continuation_build=cont)))
                    break
                if any(r.get("summary", {}).get("done") for r in recs):
                    break
            if res["sample"] is None:
                res["sample"] = wit
        # the real, uninterrupted build advances the history
        rc, recs, e2, to = _child(binp, ["--mode", "build"] + base + ["--state", state, "--db", db, "--exec-log", os.path.join(d, "exec.log")] + extra)
        res["builds"] += 1
        for r in recs:
            if "viol" in r:
                res["viol"].append((r["viol"], {"seed": seed, "case": case, "build": bidx, "detail": r.get("witness", {}).get("detail"), "program": program}))
        if rc != 0:
            res["inconclusive"].append("clean build failed rc=%s: %s" % (rc, e2[-300:]))
            break
    shutil.rmtree(d, ignore_errors=True)
    return res


def _same_as_pre(content, predump):
    try:
        first = open(predump).readline().strip()
    except OSError:
        return False
    m = re.match(r"epoch=(\d+)", content)
    return bool(m) and first == "epoch %s" % m.group(1)


def run(tier, replay):
    chk = vlib.Check("C04", tier, level="fault_enumeration")
    binp = vlib.build_harness("crashmon", "asan", ["enginemon/crashmon.cpp"], libs=LIBS)
    sd = vlib.scratch_dir("c04")
    try:
        ncases = 16 if tier == "quick" else 48
        if replay:
            w = json.load(open(replay))["witness"]
            ncases = 0
            r = run_case((binp, w["seed"], w["case"], sd, "thorough", 1))
            results = [r]
        else:
            results = vlib.pmap(run_case, [(binp, chk.seed, c, sd, tier, chk.seed * 1000 + c) for c in range(ncases)])
        tot = dict(builds=0, kill_runs=0, killed=0, not_killed=0, verify_ok=0, cont_builds=0, calls=0)
        contents, syscalls, exhaustive = {}, {}, True
        distinct = set()
        for r in results:
            for k in tot:
                tot[k] += r[k]
            for k, v in r["contents"].items():
                contents[k] = contents.get(k, 0) + v
            for k, v in r["kill_syscalls"].items():
                syscalls[k] = syscalls.get(k, 0) + v
            exhaustive = exhaustive and r["exhaustive"]
            for key, w in r["viol"]:
                chk.violation(key, w)
            for m in r["inconclusive"]:
                chk.inconclusive.append(m)
            if r["sample"]:
                chk.sample(r["sample"])
        chk.add(tot["kill_runs"], tot["killed"])
        chk.cov.update(tot)
        chk.cov["database_syscalls_seen"] = tot["calls"]
        chk.cov["state_after_kill"] = contents
        chk.cov["kills_by_syscall"] = syscalls
        chk.cov["exhaustive"] = bool(exhaustive and tier == "thorough")
        chk.cov["rule"] = ("history of 3..6 builds, one build per process (crashmon child, ASan build), first build creates the schema, one build is cancelled; for each build the "
                           "database system calls are counted under strace, then the build is re-run from a byte copy of the pre-state and killed on entry to the N-th such call "
                           "(quick: calls adjacent to fdatasync/unlink/lock transitions/journal open + random; thorough: every N, or for builds with more than 400 such calls every transition point plus an even sample of 300); one case in four is a program of 90-160 keys whose builds store more than a hundred results in the one transaction; after each kill: sqlite integrity_check, I1 epoch >= "
                           "every result epoch, I2 fresh BuildDB reads every row and resolves every dependency id, I3 every (key,value,deps) row equals the pre-build row or an execution "
                           "logged (before complete()) by the killed run, I4 three continuation builds (interrupted build re-attempted with outputs already rewritten, then two more "
                           "mutate+build rounds) under M-value/M-justify/M-proto/M-db; distinct_nontrivial = runs in which the kill really fired (strace '+++ killed by SIGKILL')")
        chk.assumptions = ["a process kill is not a power failure (page cache survives)", "kills land between system calls, not inside one", "sqlite3 is trusted"]
        if tot["killed"] < 2:
            chk.inconclusive.append("kill injection never fired")
    finally:
        shutil.rmtree(sd, ignore_errors=True)
    return chk.finish()
