"""Generator of VALID Ninja manifest trees for check C17.

Every manifest is inside the premises of the property:
  * unique outputs, acyclic (inputs are earlier outputs or leaves), rules and pools defined before use;
  * no file-level variable is (re)bound after a build statement whose rule variables read it (the generator
    freezes such names in every scope of the chain; see GScope.frozen);
  * a path on a build line never mentions a name that the build block itself binds (Ninja's manual and binary
    differ there);
  * only the statement forms llbuild documents: no implicit outputs, validations, dyndep.
The surface syntax is varied at random: `$x` / `${x}`, escapes `$$` `$ ` `$:`, `$`-newline continuations between and
inside tokens, LF / CR LF / mixed line endings, comments (top level, indented and unindented inside blocks),
blank lines, trailing blanks, indentation width, keyword-like identifiers, bytes 0x80..0xFF everywhere.

The generator keeps its own idea of the intended paths (Case.intended) so that the check can verify that the
reference evaluator read the text the way it was meant (a self-check of the tooling, not of llbuild).
"""
import random

SIMPLE = frozenset(b"abcdefghijklmnopqrstuvwxyzABCDEFGHIJKLMNOPQRSTUVWXYZ0123456789_-")
RESERVED = (b"command", b"description", b"deps", b"depfile", b"generator", b"pool", b"restat", b"rspfile",
            b"rspfile_content")
KEYWORDS = [b"build", b"rule", b"pool", b"default", b"include", b"subninja"]
# identifiers that extend or truncate a keyword: ordinary identifiers in Ninja
KW_LIKE = [b"builds", b"buil", b"buildx", b"build.x", b"rul", b"rules", b"rule-1", b"poolx", b"poo", b"pool_2",
           b"defaults", b"defaul", b"default.", b"includes", b"includ", b"include-", b"subninjas", b"subninj",
           b"subninjb", b"subninjA", b"subninj_", b"subninj0", b"subninj.", b"subninj-", b"subninja_", b"Build",
           b"RULE", b"xbuild"]
SPECIALS = b" :$'\"\\#%@=,~*?[](){}<>&;!`^"
SAFE = b"abcXYZ019_+-."


class Case:
    def __init__(self):
        self.files = {}       # relative name (bytes) -> content (bytes)
        self.tags = set()
        self.intended = []    # per edge: dict(outputs, explicit, implicit, order_only, rule)
        self.high_bytes = set()


class GRule:
    def __init__(self, name):
        self.name = name
        self.items = {}       # reserved name -> list of ("lit", bytes) | ("ref", name)
        self.mode = "none"    # none | depfile | gcc | msvc
        self.subninja_level = 0

    def refs(self):
        return set(v for its in self.items.values() for k, v in its if k == "ref")


class GScope:
    def __init__(self, parent=None):
        self.vals = {}
        self.depth = {}
        self.rules = {}
        self.frozen = set()
        self.parent = parent
        self.level = 0 if parent is None else parent.level + 1

    def lookup(self, name):
        s = self
        while s is not None:
            if name in s.vals:
                return s.vals[name]
            s = s.parent
        return b""

    def var_depth(self, name):
        s = self
        while s is not None:
            if name in s.vals:
                return s.depth.get(name, 1)
            s = s.parent
        return 0

    def visible_vars(self):
        res, s = [], self
        while s is not None:
            for n in s.vals:
                if n not in res:
                    res.append(n)
            s = s.parent
        return sorted(res)

    def visible_rules(self):
        res, s = {}, self
        while s is not None:
            for n, r in s.rules.items():
                res.setdefault(n, (r, s))
            s = s.parent
        return res

    def freeze(self, names):
        s = self
        while s is not None:
            s.frozen.update(names)
            s = s.parent


class Gen:
    def __init__(self, seed, idx, layout=False, noncanonical=None):
        self.rng = random.Random((seed * 1000003 + idx) * 2 + 1)
        self.idx = idx
        self.case = Case()
        self.k = 0
        self.hb = idx * 11
        self.outputs = []     # intended canonical paths
        self.leaves = []
        self.pools = []       # declared pools (plus the built-in console pool in a tenth of the manifests: while a
                              # console edge runs, ninja drops status lines, so descriptions are not observable there)
        self.edges = 0
        self.max_edges = self.rng.randint(3, 12)
        self.nfiles = 0
        self.layout = layout   # comment / blank lines whose indentation differs from their context
        r = self.rng
        self.noncanon = (r.random() < 0.06) if noncanonical is None else noncanonical
        if r.random() < 0.1:
            self.pools.append(b"console")
        self.pathvars = []    # (name, scope) helper/piece variables
        self.dirs = []
        # flavour of this manifest: biases, so that classes are concentrated instead of uniformly diluted
        self.p_special = r.choice([0.0, 0.15, 0.4])
        self.p_high = r.choice([0.0, 0.1, 0.35])
        self.p_cont = r.choice([0.0, 0.05, 0.25])
        self.p_comment = r.choice([0.0, 0.1, 0.3])
        self.p_kw = r.choice([0.0, 0.1, 0.4])
        self.p_trail = r.choice([0.0, 0.1, 0.3])

    # ------------------------------------------------------------------ small helpers
    def tag(self, t):
        self.case.tags.add(t)

    def fresh(self):
        self.k += 1
        return self.k

    def high_byte(self):
        self.hb += 1
        b = 0x80 + (self.hb * 37) % 128 if self.rng.random() < 0.7 else self.rng.randint(0x80, 0xFF)
        self.case.high_bytes.add(b)
        return b

    def deco(self, maxlen=3, lead=False, allow_pipe=True):
        """A short run of decoration bytes for a path component (never '/', NUL, CR, LF)."""
        r = self.rng
        out = bytearray()
        for _ in range(r.randint(0, maxlen)):
            x = r.random()
            if x < self.p_high:
                out.append(self.high_byte())
                self.tag("path:high")
                if r.random() < 0.3:   # a plausible UTF-8 pair as well as lone bytes
                    out += "é中".encode("utf-8")[:r.randint(1, 5)]
                    for b in out:
                        if b >= 0x80:
                            self.case.high_bytes.add(b)
            elif x < self.p_high + self.p_special:
                c = r.choice(SPECIALS + (b"|" if allow_pipe else b""))
                out.append(c)
                self.tag("path:" + {0x20: "space", 0x3a: "colon", 0x24: "dollar", 0x27: "squote", 0x22: "dquote",
                                    0x23: "hash", 0x7c: "pipe", 0x5c: "backslash"}.get(c, "shellmeta"))
            else:
                out.append(r.choice(SAFE))
        return bytes(out)

    # ------------------------------------------------------------------ rendering of item lists
    def nlbytes(self):
        return b"\n"

    def render(self, items, ctx, cont=True):
        """items: ("lit", bytes) | ("ref", name).  ctx: "path" or "value".  Returns manifest text."""
        r = self.rng
        atoms = []     # [text, plain_space?]
        n = len(items)
        for i, (k, v) in enumerate(items):
            if k == "lit":
                for b in v:
                    if b == 0x24:
                        atoms.append([b"$$", False])
                    elif b == 0x20:
                        if ctx == "path" or r.random() < 0.12:
                            atoms.append([b"$ ", False])
                        else:
                            atoms.append([b" ", True])
                    elif b == 0x3a:
                        if ctx == "path" or r.random() < 0.2:
                            atoms.append([b"$:", False])
                        else:
                            atoms.append([b":", False])
                    else:
                        assert not (ctx == "path" and b == 0x7c), "a pipe cannot be written in a path"
                        assert b not in (0, 10, 13)
                        atoms.append([bytes([b]), False])
            else:
                nxt_simple = False
                if i + 1 < n and items[i + 1][0] == "lit" and items[i + 1][1]:
                    nxt_simple = items[i + 1][1][0] in SIMPLE
                simple = all(c in SIMPLE for c in v)
                if simple and not nxt_simple and r.random() < 0.5:
                    atoms.append([b"$" + v, False])
                else:
                    atoms.append([b"${" + v + b"}", False])
        if ctx == "value" and atoms and atoms[0][1]:
            atoms[0] = [b"$ ", False]          # leading blanks of a value are dropped by the lexer
        if cont and len(atoms) > 1 and r.random() < self.p_cont:
            for _ in range(r.randint(1, 2)):
                pos = r.randint(1, len(atoms) - 1)
                if atoms[pos][1]:
                    atoms[pos] = [b"$ ", False]
                if atoms[pos][0].startswith(b"$\n"):
                    continue
                atoms.insert(pos, [b"$\n" + b" " * r.choice([0, 1, 2, 4, 7]), False])
                self.tag("cont:in_" + ctx)
        return b"".join(a[0] for a in atoms)

    def evaluate(self, items, scope):
        return b"".join(v if k == "lit" else scope.lookup(v) for k, v in items)

    # ------------------------------------------------------------------ variables
    def value_literal(self, maxlen=6):
        r = self.rng
        out = bytearray()
        for _ in range(r.randint(0, maxlen)):
            x = r.random()
            if x < self.p_high:
                out.append(self.high_byte())
                self.tag("value:high")
            elif x < self.p_high + self.p_special:
                out.append(r.choice(SPECIALS + b"|/"))
            else:
                out.append(r.choice(SAFE + b"  /"))
        return bytes(out)

    def var_name(self, scope, allow_rebind=True):
        r = self.rng
        if r.random() < self.p_kw:
            cands = [n for n in KW_LIKE if n not in scope.frozen]
            if cands:
                self.tag("ident:kwlike_var")
                n = r.choice(cands)
                if len(n) == 8 and n.startswith(b"subninj"):
                    self.tag("ident:subninj8")
                return n
        if allow_rebind and r.random() < 0.25:
            cands = [n for n in scope.visible_vars() if n not in scope.frozen and not n.startswith(b"p")]
            if cands:
                n = r.choice(cands)
                self.tag("var:rebind_same_scope" if n in scope.vals else "var:shadow_in_child")
                return n
        k = self.fresh()
        return r.choice([b"v%d", b"v%d.a", b"v-%d", b"V_%d", b"%dv", b"v%d-x.y"]) % k

    def value_items(self, scope, maxparts=4, refs_ok=True):
        r = self.rng
        items = []
        depth = 1
        for _ in range(r.randint(0, maxparts)):
            x = r.random()
            if refs_ok and x < 0.4:
                vis = [n for n in scope.visible_vars() if scope.var_depth(n) < 4]
                if vis and r.random() < 0.85:
                    n = r.choice(vis)
                    depth = max(depth, scope.var_depth(n) + 1)
                    items.append(("ref", n))
                else:
                    items.append(("ref", b"undef%d" % r.randint(0, 3)))
                    self.tag("var:undefined_ref")
            else:
                lit = self.value_literal()
                if lit:
                    if items and items[-1][0] == "lit":
                        items[-1] = ("lit", items[-1][1] + lit)
                    else:
                        items.append(("lit", lit))
        if depth >= 3:
            self.tag("var:nest_depth_%d" % depth)
        return items, depth

    def emit_binding(self, out, scope, name, items, indent=b"", trail_ok=True):
        text = self.render(items, "value")
        trail = b""
        if trail_ok and text and self.rng.random() < self.p_trail:   # after an empty text they would be leading blanks
            trail = b" " * self.rng.randint(1, 3)     # trailing blanks belong to the value
            items = items + [("lit", trail)]
            self.tag("ws:trailing_in_value")
        eq = self.rng.choice([b" = ", b"=", b" =", b"= ", b"  =   "])
        if indent == b"" and not text and not trail and eq.endswith(b" ") and self.rng.random() < 0.5:
            eq = eq.rstrip()
        out += indent + name + eq + text + trail + b"\n"
        return items

    def stmt_var(self, out, scope):
        name = self.var_name(scope)
        if name in scope.frozen:
            return
        items, depth = self.value_items(scope)
        items = self.emit_binding(out, scope, name, items)
        scope.vals[name] = self.evaluate(items, scope)
        scope.depth[name] = depth

    # ------------------------------------------------------------------ paths
    def new_dir(self):
        d = b"d%dq" % self.fresh() + self.deco(2, allow_pipe=False)
        self.dirs.append(d)
        return d

    def new_path(self, kind):
        """A fresh intended path (canonical form)."""
        r = self.rng
        tok = (b"o%dq" if kind == "out" else b"s%dq") % self.fresh()   # the letter ends the number: no two names collide
        name = self.deco(2) + tok + self.deco(3)
        if r.random() < 0.04:
            name = b"#" + name
            self.tag("path:hash_lead")
        if name.endswith(b"^"):
            name += b"x"
        if name.startswith(b"-"):
            name = b"x" + name
        p = name
        if r.random() < 0.3:
            d = r.choice(self.dirs) if self.dirs and r.random() < 0.6 else self.new_dir()
            p = d + b"/" + name
            self.tag("path:subdir")
        return p

    def path_items(self, out, scope, p, forbidden=(), canon_only=False):
        """Spell the intended path p on a build/default/include line; may emit a helper binding first."""
        r = self.rng
        spelled = p
        if self.noncanon and not canon_only and r.random() < 0.3:
            form = r.randint(0, 2)
            if form == 0:
                spelled = b"./" + p
            elif form == 1 and b"/" in p:
                spelled = p.replace(b"/", b"//", 1)
            else:
                spelled = b"zz%d/../" % r.randint(0, 3) + p
            self.tag("path:noncanonical")
        need_var = 0x7c in spelled
        if need_var or r.random() < 0.2:
            if need_var:
                i = spelled.index(b"|")
                j = spelled.rindex(b"|") + 1
                i = r.randint(0, i)
                j = r.randint(j, len(spelled))
            else:
                i = r.randint(0, len(spelled) - 1)
                j = r.randint(i + 1, len(spelled))
            a, b, c = spelled[:i], spelled[i:j], spelled[j:]
            name = None
            for n in scope.visible_vars():        # reuse a variable that already has this value
                if n not in forbidden and scope.lookup(n) == b and r.random() < 0.7:
                    name = n
                    break
            if name is None:
                name = b"p%d" % self.fresh()
                if r.random() < 0.3:
                    name = b"p%d.q" % self.fresh()
                self.emit_binding(out, scope, name, [("lit", b)], trail_ok=False)
                scope.vals[name] = b
                scope.depth[name] = 1
            self.tag("path:via_variable")
            items = [("lit", a), ("ref", name), ("lit", c)]
            return [it for it in items if it[1]]
        return [("lit", spelled)]

    def spell(self, out, scope, p, forbidden=(), canon_only=False):
        items = self.path_items(out, scope, p, forbidden, canon_only)
        return self.render(items, "path"), set(v for k, v in items if k == "ref")

    # ------------------------------------------------------------------ noise
    def comment_text(self):
        r = self.rng
        t = r.choice([b"comment", b"build x: y z", b"rule r", b"a = $b ${c} $", b"subninja q", b"", b"  spaced  ",
                      b"default all", b"#", b"$"])
        if r.random() < self.p_high + 0.05:
            t += bytes([self.high_byte()])
            self.tag("comment:high")
        return t

    def noise_top(self, out):
        r = self.rng
        while r.random() < self.p_comment:
            x = r.random()
            if x < 0.4:
                out += b"\n"
            elif x < 0.5 and self.layout:
                out += b" " * r.randint(1, 4) + b"\n"      # a line of blanks is a blank line
                self.tag("layout:blank_line_with_spaces")
            elif x < 0.85 or not self.layout:
                out += b"#" + self.comment_text() + b"\n"
                self.tag("comment:top")
            else:
                out += b" " * r.randint(1, 3) + b"#" + self.comment_text() + b"\n"
                self.tag("layout:top_comment_indented")

    def noise_block(self, out):
        r = self.rng
        while r.random() < self.p_comment * 0.6:
            if r.random() < 0.65:
                out += b" " * r.randint(1, 4) + b"#" + self.comment_text() + b"\n"
                self.tag("comment:block_indented")
            else:
                out += b"#" + self.comment_text() + b"\n"     # ninja drops a comment line together with its newline, wherever it starts
                self.tag("comment:block_unindented")

    def trail(self):
        if self.rng.random() < self.p_trail:
            self.tag("ws:trailing_after_header")
            return b" " * self.rng.randint(1, 3)
        return b""

    def indent(self):
        return b" " * self.rng.choice([1, 2, 2, 2, 4, 4, 8, 3])

    # ------------------------------------------------------------------ rules / pools
    def ident_name(self, taken, prefix):
        r = self.rng
        if r.random() < self.p_kw:
            cands = [n for n in KEYWORDS + KW_LIKE if n not in taken]
            if cands:
                n = r.choice(cands)
                self.tag("ident:keyword_as_%s_name" % prefix.decode())
                return n
        return prefix + b"%d" % self.fresh() + r.choice([b"", b"", b".x", b"-y", b"_z"])

    def text_items(self, scope, kind, used=None):
        """Item list for a rule-level value.  `used`: reserved rule variables already referenced somewhere in this
        rule; the ninja binary reports a (false) cycle when one evaluation looks a rule variable up twice, so every
        reserved name is referenced at most once per rule."""
        r = self.rng
        used = used if used is not None else set()
        items = []
        words = [b"cc", b"-o", b">", b"&&", b"'q s'", b"\"dq\"", b"\\", b"#", b"%", b"|", b";", b"-I.", b"a=b", b"$",
                 b":", b"  ", b"(x)", b"*"]
        later = {"command": [b"rspfile_content", b"description", b"rspfile", b"depfile"],
                 "rspfile_content": [b"description", b"rspfile", b"depfile"],
                 "description": [b"rspfile", b"depfile"], "rspfile": [], "depfile": []}[kind]
        for _ in range(r.randint(1, 6)):
            x = r.random()
            if x < 0.3:
                w = r.choice(words)
                if r.random() < self.p_high:
                    w += bytes([self.high_byte()])
                items.append(("lit", w))
            elif x < 0.55:
                n = r.choice([b"in", b"out", b"out", b"in"] + ([b"in_newline"] if kind != "description" else []))
                items.append(("ref", n))
            elif x < 0.7:
                items.append(("ref", b"b%d" % r.randint(0, 4)))        # usually a build-level name
            elif x < 0.85:
                vis = scope.visible_vars()
                if vis:
                    items.append(("ref", r.choice(vis)))
                    self.tag("rule:reads_file_var")
            elif x < 0.92 and [n for n in later if n not in used]:
                n = r.choice([n for n in later if n not in used])
                used.add(n)
                items.append(("ref", n))
                self.tag("rule:var_reads_rule_var")
            elif x < 0.96:
                items.append(("ref", b"undef%d" % r.randint(0, 3)))
            else:
                items.append(("ref", r.choice(KW_LIKE + KEYWORDS)))
            items.append(("lit", r.choice([b" ", b" ", b" ", b"", b".", b"x", b"_"])))
        # merge adjacent literals
        res = []
        for it in items:
            if it[0] == "lit" and not it[1]:
                continue
            if res and res[-1][0] == "lit" and it[0] == "lit":
                res[-1] = ("lit", res[-1][1] + it[1])
            else:
                res.append(it)
        return res or [("lit", b"x")]     # ninja treats a textually empty command / rspfile as missing

    def stmt_rule(self, out, scope):
        r = self.rng
        name = self.ident_name(set(scope.rules) | {b"phony"}, b"r")
        if name in scope.rules or name == b"phony":
            return
        if name in scope.visible_rules():
            self.tag("rule:shadows_parent_rule")
        rule = GRule(name)
        rule.subninja_level = scope.level
        used = set()
        rule.items[b"command"] = self.text_items(scope, "command", used)
        if r.random() < 0.7:
            rule.items[b"description"] = self.text_items(scope, "description", used)
        x = r.random()
        if x < 0.2:
            rule.mode = "depfile"
        elif x < 0.33:
            rule.mode = "gcc"
        elif x < 0.42:
            rule.mode = "msvc"
        if rule.mode in ("depfile", "gcc"):
            rule.items[b"depfile"] = r.choice([[("ref", b"out"), ("lit", b".d")], [("lit", b"dep/"), ("ref", b"out"), ("lit", b".d")],
                                               [("lit", b"x%d.d" % self.fresh())], [("ref", b"b1"), ("lit", b"y.d")]])
        if rule.mode in ("gcc", "msvc"):
            rule.items[b"deps"] = [("lit", b"gcc" if rule.mode == "gcc" else b"msvc")]
        if r.random() < 0.2:
            rule.items[b"rspfile"] = r.choice([[("ref", b"out"), ("lit", b".rsp")], [("lit", b"r%d.rsp" % self.fresh())]])
            rule.items[b"rspfile_content"] = self.text_items(scope, "rspfile_content", used)
            self.tag("rule:rspfile")
        if r.random() < 0.25 and self.pools:
            rule.items[b"pool"] = [("lit", r.choice(self.pools))] if r.random() < 0.7 else [("ref", b"b4")]
            self.tag("rule:pool")
        for flag in (b"restat", b"generator"):
            if r.random() < 0.15:
                rule.items[flag] = r.choice([[("lit", b"1")], [("lit", b"true")], [("ref", b"b3")], [], [("lit", b"0")]])
                self.tag("rule:flag")
        out += b"rule " + name + self.trail() + b"\n"
        keys = list(rule.items)
        r.shuffle(keys)
        for k in keys:
            self.noise_block(out)
            self.emit_rule_binding(out, k, rule.items[k])
        scope.rules[name] = rule

    def emit_rule_binding(self, out, key, items):
        text = self.render(items, "value")
        eq = self.rng.choice([b" = ", b"=", b" =", b"= "])
        out += self.indent() + key + eq + text + b"\n"

    def stmt_pool(self, out, scope):
        name = self.ident_name(set(self.pools) | {b"console"}, b"pl")
        if name in self.pools or name == b"console":
            return
        depth = self.rng.randint(1, 9)
        v = None
        if self.rng.random() < 0.3:
            v = b"pd%d" % self.fresh()
            out += v + b" = %d\n" % depth
            scope.vals[v] = b"%d" % depth
            scope.depth[v] = 1
        out += b"pool " + name + self.trail() + b"\n"
        self.noise_block(out)
        if v is not None:
            out += self.indent() + b"depth = $" + v + b"\n"
        else:
            out += self.indent() + b"depth = %d\n" % depth
        self.pools.append(name)
        self.tag("pool:declared")

    # ------------------------------------------------------------------ build / default
    def stmt_build(self, out, scope):
        r = self.rng
        if self.edges >= self.max_edges:
            return
        vis = scope.visible_rules()
        use_phony = r.random() < 0.1 or not vis
        if use_phony:
            rule, rscope, rname = None, None, b"phony"
            if scope.level > 0:
                self.tag("rule:phony_in_subninja")
        else:
            names = sorted(vis)
            # prefer rules of an enclosing scope now and then: a subninja file may use its parent's rules
            parent_rules = [n for n in names if vis[n][1] is not scope]
            rname = r.choice(parent_rules) if parent_rules and r.random() < 0.5 else r.choice(names)
            rule, rscope = vis[rname]
            if rscope is not scope:
                self.tag("rule:from_parent_scope")
        # inputs first (so that outputs of this edge can never be its inputs)
        pool_nodes = self.outputs + self.leaves

        def pick(n):
            res = []
            for _ in range(n):
                if pool_nodes and r.random() < 0.6:
                    p = r.choice(pool_nodes)
                else:
                    p = self.new_path("src")
                    self.leaves.append(p)
                if p not in res:
                    res.append(p)
            return res
        explicit = pick(r.choice([0, 1, 1, 2, 3]))
        implicit = [p for p in pick(r.choice([0, 0, 1, 2])) if p not in explicit]
        order_only = [p for p in pick(r.choice([0, 0, 1, 2])) if p not in explicit and p not in implicit]
        outs = [self.new_path("out") for _ in range(r.choice([1, 1, 1, 2, 3]))]
        # build-level bindings
        binds = []
        if rule is not None:
            cand = [n for n in rule.refs() if n not in (b"in", b"out", b"in_newline") and n not in RESERVED]
            for n in cand:
                if r.random() < 0.5:
                    binds.append(n)
            if r.random() < 0.25:
                binds.append(r.choice([b"description", b"command", b"restat", b"generator"]))
                self.tag("build:overrides_rule_var")
            if rule.mode in ("depfile", "gcc") and r.random() < 0.3:
                binds.append(b"depfile")
                self.tag("build:overrides_rule_var")
            if b"rspfile" in rule.items and r.random() < 0.3:
                binds.append(r.choice([b"rspfile", b"rspfile_content"]))
            if r.random() < 0.15:
                binds.append(b"pool")
            if r.random() < self.p_kw * 0.5:
                binds.append(r.choice(KEYWORDS + KW_LIKE))
                self.tag("ident:keyword_as_build_var")
            if r.random() < 0.15:
                vis_vars = scope.visible_vars()
                if vis_vars:
                    binds.append(r.choice(vis_vars))
                    self.tag("build:shadows_file_var")
        seen = set()
        binds = [b for b in binds if not (b in seen or seen.add(b))]
        # spell the paths; helper bindings go above the build line
        pre = bytearray()
        used = set()

        def sp(p):
            t, refs = self.spell(pre, scope, p, forbidden=set(binds))
            used.update(refs)
            return t
        t_out = [sp(p) for p in outs]
        t_ex = [sp(p) for p in explicit]
        t_im = [sp(p) for p in implicit]
        t_oo = [sp(p) for p in order_only]
        binds = [b for b in binds if b not in used]
        out += pre
        sep = lambda: (b" " * r.choice([1, 1, 1, 2])) if r.random() >= self.p_cont else (self.tag("cont:between_tokens") or
                                                                                      b" $\n" + b" " * r.choice([0, 2, 4, 6]))
        line = bytearray(b"build")
        for t in t_out:
            line += sep() + t
        line += r.choice([b":", b" :", b": ", b" : "]) + (b"" if r.random() < 0.9 else b"$\n  ") + rname
        for t in t_ex:
            line += sep() + t
        if t_im:
            line += sep() + b"|"
            for t in t_im:
                line += sep() + t
        if t_oo:
            line += sep() + b"||"
            for t in t_oo:
                line += sep() + t
        out += bytes(line) + self.trail() + b"\n"
        for n in binds:
            self.noise_block(out)
            if n == b"pool":
                items = [("lit", r.choice(self.pools + [b""]))]
            elif n == b"depfile":
                items = [("lit", b"bd%d.d" % self.fresh())]
            elif n == b"rspfile":
                items = [("lit", b"br%d.rsp" % self.fresh())]
            elif n in (b"restat", b"generator"):
                items = r.choice([[("lit", b"1")], [], [("lit", b"no")]])
            elif n == b"b4":
                items = [("lit", r.choice(self.pools + [b""]))]   # rules use $b4 as a pool name
            else:
                items, _ = self.value_items(scope, 3)
            text = self.render(items, "value")
            out += self.indent() + n + r.choice([b" = ", b"=", b" =", b"= "]) + text + b"\n"
            self.tag("build:binding")
        # premise of the property: whatever the rule reads lazily must not be bound later in this chain
        lazy = set(RESERVED)
        if rule is not None:
            lazy |= rule.refs()
        scope.freeze(lazy)
        self.outputs += outs
        self.edges += 1
        self.case.intended.append(dict(outputs=outs, explicit=explicit, implicit=implicit, order_only=order_only, rule=rname))
        if len(outs) > 1:
            self.tag("build:multi_output")
        if not explicit:
            self.tag("build:no_explicit_input")
        if implicit:
            self.tag("build:implicit")
        if order_only:
            self.tag("build:order_only")

    def stmt_default(self, out, scope):
        nodes = self.outputs + self.leaves
        if not nodes:
            return
        # `default` statements are not build statements and are outside property C17: they are written with literal, escape-free
        # names only, so that the way llbuild expands (or does not expand) their paths is never part of a verdict.
        import re as _re
        nodes = [n for n in nodes if _re.match(rb"^[A-Za-z0-9_./-]+$", n) and not n.startswith(b"./") and b"//" not in n and b"/../" not in n]
        if not nodes:
            return
        picks = self.rng.sample(nodes, min(len(nodes), self.rng.choice([1, 1, 2])))
        ts = list(picks)
        out += b"default " + b" ".join(ts) + self.trail() + b"\n"
        self.tag("stmt:default")

    # ------------------------------------------------------------------ files
    def stmt_include(self, out, scope, depth):
        r = self.rng
        if depth >= 3 or self.nfiles >= 5:
            return
        sub = r.random() < 0.6
        self.nfiles += 1
        fname = b"inc%dq" % self.fresh() + self.deco(2, allow_pipe=True).replace(b"^", b"") + b".ninja"
        if r.random() < 0.3:
            fname = b"i%dq" % self.fresh() + self.deco(1, allow_pipe=False) + b"/" + fname
        pre = bytearray()
        t, _ = self.spell(pre, scope, fname, canon_only=True)
        out += pre
        out += (b"subninja " if sub else b"include ") + t + self.trail() + b"\n"
        child_scope = GScope(scope) if sub else scope
        self.tag("file:subninja" if sub else "file:include")
        self.tag("file:depth_%d" % (depth + 1))
        self.gen_file(fname, child_scope, depth + 1)

    def line_endings(self, text):
        r = self.rng
        style = r.random()
        if style < 0.7:
            return text
        if style < 0.85:
            self.tag("eol:crlf")
            if b"$\n" in text:
                self.tag("eol:crlf_continuation")
            return text.replace(b"\n", b"\r\n")
        self.tag("eol:mixed")
        parts = text.split(b"\n")
        res = bytearray()
        for i, p in enumerate(parts[:-1]):
            res += p
            if r.random() < 0.5:
                if p.endswith(b"$"):
                    self.tag("eol:crlf_continuation")
                res += b"\r\n"
            else:
                res += b"\n"
        res += parts[-1]
        return bytes(res)

    def gen_file(self, fname, scope, depth):
        r = self.rng
        out = bytearray()
        n = r.randint(5, 16) if depth == 0 else r.randint(2, 8)
        have_rule = bool(scope.visible_rules())
        for i in range(n):
            self.noise_top(out)
            x = r.random()
            if not have_rule and (i >= 2 or x < 0.3):
                self.stmt_rule(out, scope)
                have_rule = bool(scope.visible_rules())
            elif x < 0.27:
                self.stmt_var(out, scope)
            elif x < 0.40:
                self.stmt_rule(out, scope)
            elif x < 0.45:
                self.stmt_pool(out, scope)
            elif x < 0.82:
                self.stmt_build(out, scope)
            elif x < 0.87:
                self.stmt_default(out, scope)
            else:
                self.stmt_include(out, scope, depth)
        if depth == 0:
            for _ in range(8):
                if self.edges < 2:
                    self.stmt_build(out, scope)
        self.noise_top(out)
        self.case.files[fname] = self.line_endings(bytes(out))


def generate(seed, idx, layout=False, noncanonical=None):
    g = Gen(seed, idx, layout, noncanonical)
    g.gen_file(b"build.ninja", GScope(), 0)
    for content in g.case.files.values():
        for b in set(content):
            if b >= 0x80:
                g.case.high_bytes.add(b)
    if g.noncanon:
        g.case.tags.add("manifest:noncanonical_spellings")
    return g.case
