"""C15 - keys and values encode canonically and decode losslessly (DESIGN.md section 4, C15)."""
import json, os, re
import vlib

LIBS = ["llbuildBuildSystem", "llbuildCore", "llbuildBasic", "llvmSupport"]
EMPTY_PAYLOAD_KEY = ("encoder undefined behaviour: BuildKey::makeCustomTask with empty task data passes a null pointer to memcpy "
                     "(UBSan nonnull-attribute, BuildKey.h three-argument constructor)")


def _merge(dst, src):
    for k, v in (src or {}).items():
        dst[k] = dst.get(k, 0) + v


def _nodebug(binp):
    """valgrind 3.19's debug-info reader gives up on some clang-14 DWARF 5 binaries ("Possibly corrupted debuginfo file");
    memcheck only needs the symbol table, so it runs a copy without debug sections."""
    out = binp + ".nodebug"
    try:
        if os.path.exists(out) and os.stat(out).st_mtime > os.stat(binp).st_mtime:
            return out
        tmp = "%s.%d.tmp" % (out, os.getpid())
        r = vlib.sh(["strip", "-g", "-o", tmp, binp])
        if r.returncode != 0:
            return binp
        os.rename(tmp, out)
        return out
    except OSError:
        return binp


def _probe(chk, binp):
    """A custom-task key with an empty payload is in contract; its encoder path is probed alone so that a sanitizer abort
    there is recorded once and does not hide the rest of the exploration. Returns the extra harness arguments."""
    pcmd = [binp, "--probe", "custom-empty-data"]
    rc, out, err, to = vlib.run_child(pcmd, 120)
    e = err.decode("utf-8", "replace")
    for r in vlib.parse_jsonl(out):
        if "viol" in r:
            chk.violation(r["viol"], dict(r.get("witness") or {}, cmd=" ".join(pcmd)))
    chk.cov["empty_payload_probe"] = "ok" if rc == 0 and not to else "sanitizer abort"
    if to:
        chk.inconclusive.append("probe timed out")
        return []
    if rc == 0:
        return []
    if "null pointer passed as argument" in e and "BuildKey.h" in e:
        chk.violation(EMPTY_PAYLOAD_KEY, {"cmd": " ".join(pcmd), "key": {"kind": "CustomTask", "name": "task", "data": ""}, "stderr": e[-3000:]})
    else:
        chk.violation("crash: " + (vlib.sanitizer_summary(e) or "exit status %d" % rc) + " (custom task key with empty payload)",
                      {"cmd": " ".join(pcmd), "stderr": e[-3000:]})
    return ["--avoid", "custom-empty-data"]


def run(tier, replay):
    chk = vlib.Check("C15", tier)
    binp = vlib.build_harness("codec_mon", "asan", ["codec_mon.cpp"], libs=LIBS)
    if replay:
        w = json.load(open(replay))["witness"]
        cmd = w.get("cmd", "").split()
        if not cmd:
            print("witness has no cmd to replay")
            return 2
        if "--probe" in cmd:
            _probe(chk, binp)
        elif cmd[0] == "valgrind":
            print("memcheck witnesses are replayed by running the recorded command: " + " ".join(cmd))
            return 2
        else:
            cmd[0] = binp
            vlib.run_shards(chk, [cmd], timeout=3600)
        chk.add(1, 2)
        return chk.finish()
    total = 1600000 if tier == "quick" else 100000000
    shards = vlib.NCPU
    per = (total + shards - 1) // shards

    avoid = _probe(chk, binp)

    cmds = [[binp, "--seed", str(chk.seed * 100000 + i), "--cases", str(per)] + avoid for i in range(shards)]
    sums = vlib.run_shards(chk, cmds, timeout=7200, label="codec")

    # uninitialised reads (padding, unset union members reaching the encoding): memcheck on the unsanitized flavor
    vg_cases = 5000 if tier == "quick" else 20000
    pbin = _nodebug(vlib.build_harness("codec_mon", "plain", ["codec_mon.cpp"], libs=LIBS))
    vcmd = ["valgrind", "--quiet", "--error-exitcode=97", "--track-origins=no", "--exit-on-first-error=no",
            pbin, "--seed", str(chk.seed), "--cases", str(vg_cases)]   # nothing avoided: plain flavor has no UBSan
    rc, out, err, to = vlib.run_child(vcmd, 3600)
    ve = err.decode("utf-8", "replace")
    vg_reports = len(re.findall(r"== (?:Conditional jump|Use of uninitialised|Invalid read|Invalid write|Syscall param|Mismatched free|Invalid free)", ve))
    if to:
        chk.inconclusive.append("valgrind run timed out")
    elif rc == 97 or vg_reports:
        fr = re.findall(r"(?:at|by) 0x[0-9A-F]+: ([^\n]+)", ve)
        top = [f for f in fr if "llbuild" in f or "Build" in f or "StringList" in f][:2]
        chk.violation("memcheck: uninitialised or invalid access in the codec @ " + " < ".join(t.split(" (")[0] for t in top),
                      {"cmd": " ".join(vcmd), "stderr": ve[:6000]})
    elif rc != 0:
        chk.inconclusive.append("valgrind run exited %d: %s" % (rc, ve[-400:]))
    else:
        vs = [r["summary"] for r in vlib.parse_jsonl(out) if "summary" in r]
        for r in vlib.parse_jsonl(out):
            if "viol" in r:
                chk.violation(r["viol"], dict(r.get("witness") or {}, cmd=" ".join(vcmd)))
        if not vs:
            chk.inconclusive.append("no summary from the memcheck run")

    rt = vlib.sum_key(sums, "round_trips")
    chk.add(rt + vlib.sum_key(sums, "canonicity_checks") + vlib.sum_key(sums, "injectivity_pairs"), vlib.sum_key(sums, "distinct"))
    by_kind, by_mut = {}, {}
    for s in sums:
        _merge(by_kind, s.get("by_kind"))
        _merge(by_mut, s.get("by_mutation"))
    chk.cov.update(cases=vlib.sum_key(sums, "cases"), keys=vlib.sum_key(sums, "keys"), values=vlib.sum_key(sums, "values"), round_trips=rt,
                   canonicity_checks=vlib.sum_key(sums, "canonicity_checks"), accessor_checks=vlib.sum_key(sums, "accessor_checks"),
                   injectivity_pairs=vlib.sum_key(sums, "injectivity_pairs"), collision_lookups=vlib.sum_key(sums, "collision_lookups"),
                   copy_move_checks=vlib.sum_key(sums, "copy_move_checks"), kind_tag_checks=vlib.sum_key(sums, "kind_tag_checks"),
                   by_kind=by_kind, by_mutation=by_mut, memcheck_cases=vg_cases, memcheck_reports=vg_reports, shards=len(sums))
    if len(by_kind) < 9 + 18 and not chk.violations:
        chk.inconclusive.append("not every key/value kind was generated (%d of 27)" % len(by_kind))
    chk.cov["rule"] = ("case = one generated key (9 kinds; names over all byte values incl. NUL, custom-task payloads incl. NUL, 0..5 NUL-free filters) or value "
                       "(18 kinds; 1..6 output infos with all seven FileInfo fields random, signatures, 0..6 NUL-free strings incl. empty). Judged: every accessor of "
                       "fromData(toData(x)) against the model; toData(fromData(toData(x))) == toData(x); equal / copied / moved values encode identically; one "
                       "single-field mutation per case (kind, one bit of one field, byte moved across a name/payload or name/filter boundary, list append/insert "
                       "of \"\", drop, split, join, swap) must change the encoding; per-shard map encoding -> model for accidental collisions; kind tags distinct. "
                       "distinct_nontrivial = distinct encodings (hash) with a non-empty payload, summed over shards with different seeds")
    for s in sums[:1]:
        chk.sample(s.get("sample_key"))
        chk.sample(s.get("sample_value"))
    chk.assumptions = ["decoding of arbitrary bytes is not promised and not tested: the decoder only sees encoder output",
                       "keys are decoded from std::string storage (short keys live in the SSO buffer, so a short over-read is invisible to ASan); values from exact-size heap vectors",
                       "valgrind memcheck sees only the 'plain' flavor, %d cases" % vg_cases]
    return chk.finish()
