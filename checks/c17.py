"""C17 - Ninja manifests mean what Ninja says they mean (DESIGN.md section 4, C17).

Generated VALID manifest trees (checks/ninja_gen.py) are loaded by three parties:
  * the real code: `llbuild ninja load-manifest --json` (asan flavor) and harness/ninjadump.cpp (the same
    ninja::ManifestLoader, but it also prints rspfile / rspfile_content and the diagnostics as data);
  * the installed ninja 1.11.1: `-t query` (outputs, explicit / | implicit / || order-only inputs, rule),
    `-t commands -s` (expanded command), `ninja -n -d explain` (description status lines, depfile);
  * checks/ninja_ref.py, a reference evaluator written from the manual (everything, including what ninja does
    not print: rspfile, rspfile_content, pool, generator/restat, deps).
llbuild must equal ninja wherever ninja is observable and the reference elsewhere.  Where ninja and the reference
disagree the edge is discarded as inconclusive and COUNTED.  Three-valued points (never judged beyond the band):
  * description and rspfile_content: $in/$out unquoted (manual: "shell-quoted if it appears in commands") or quoted
    (what the ninja binary does) are both accepted;
  * shell quoting is not canonical: the command must equal the reference expansion with $in/$out quoted by
    llbuild's own basic::shellEscaped (harness/shellq.cpp), and every such quoted path - plus random byte
    strings - must read back unchanged through `/bin/sh -c 'printf %s <escaped>'`.
"""
import collections, hashlib, json, os, random, re, shutil, sys

HERE = os.path.dirname(os.path.abspath(__file__))
sys.path.insert(0, os.path.join(os.path.dirname(HERE), "tools"))
sys.path.insert(0, HERE)
import vlib            # noqa: E402
import ninja_gen       # noqa: E402
import ninja_ref       # noqa: E402
from ninja_ref import canonicalize, ninja_shell_quote   # noqa: E402

NINJA = "/usr/bin/ninja"
MARK = b"@@C17-STATUS@@"
TIMEOUT = 300


def hx(b):
    return b.hex()


def unhx(s):
    return bytes.fromhex(s)


def show(b):
    return b.decode("latin-1").encode("unicode_escape").decode("ascii")


# ----------------------------------------------------------------------------------------- tools
class Tools:
    def __init__(self, llbuild, dump, shellq):
        self.llbuild, self.dump, self.shellq = llbuild, dump, shellq


def shellq_table(tools, strings):
    """strings -> llbuild's basic::shellEscaped(string), via the C++ helper."""
    strings = list(strings)
    if not strings:
        return {}
    inp = b"".join(hx(s).encode() + b"\n" for s in strings)
    rc, out, err, to = vlib.run_child([tools.shellq], TIMEOUT, stdin=inp)
    if to or rc != 0:
        raise vlib.HarnessFailure("shellq helper failed rc=%s: %s" % (rc, err[-2000:].decode("latin-1")))
    lines = out.decode("ascii").split("\n")
    res = {}
    for s, l in zip(strings, lines):
        if " MISMATCH " in l:
            a, _, b = l.partition(" MISMATCH ")
            res[s] = ("mismatch", unhx(a), unhx(b))
        else:
            res[s] = unhx(l)
    if len(res) != len(set(strings)):
        raise vlib.HarnessFailure("shellq helper returned %d lines for %d strings" % (len(lines), len(strings)))
    return res


def sh_roundtrip(pairs, workdir):
    """pairs: [(s, escaped)].  Returns the list of (s, escaped, what_sh_saw) that did not read back.
    Batches go through one /bin/sh script (`printf '%s\\0' <escaped>` per line); anything that disturbs a batch is
    re-run one string per shell exactly as the property states it: /bin/sh -c 'printf %s <escaped>'."""
    bad = []

    def single(s, esc):
        rc, out, err, to = vlib.run_child(["/bin/sh", "-c", b"printf %s " + esc], TIMEOUT)
        if to:
            return None
        return out if rc == 0 else out + b"<sh exit %d: %s>" % (rc, err[:80])

    B = 400
    for i in range(0, len(pairs), B):
        chunk = pairs[i:i + B]
        script = os.path.join(workdir, "rt.sh")
        with open(script, "wb") as f:
            for s, esc in chunk:
                f.write(b"printf '%s\\0' " + esc + b"\n")
        rc, out, err, to = vlib.run_child(["/bin/sh", script], TIMEOUT)
        got = out.split(b"\0")
        if not to and rc == 0 and len(got) == len(chunk) + 1 and got[-1] == b"" and \
                all(g == s for g, (s, _) in zip(got, chunk)):
            continue
        for s, esc in chunk:
            g = single(s, esc)
            if g is not None and g != s:
                bad.append((s, esc, g))
    return bad


# ----------------------------------------------------------------------------------------- ninja side
def write_tree(files, d):
    for name, content in files.items():
        p = os.path.join(os.fsencode(d), name)
        os.makedirs(os.path.dirname(p), exist_ok=True)
        with open(p, "wb") as f:
            f.write(content)


def run_ninja(d, args, env=None):
    e = {"NINJA_STATUS": MARK.decode(), "TERM": "dumb"}
    if env:
        e.update(env)
    rc, out, err, to = vlib.run_child([NINJA, "-f", "build.ninja"] + args, TIMEOUT, env=e, cwd=d)
    return rc, out, err, to


def render_query_block(m, t):
    o = bytearray(t + b":\n")
    e = m.producer(t)
    if e is not None:
        o += b"  input: " + e.rule.name + b"\n"
        for p in e.explicit:
            o += b"    " + p + b"\n"
        for p in e.implicit:
            o += b"    | " + p + b"\n"
        for p in e.order_only:
            o += b"    || " + p + b"\n"
    o += b"  outputs:\n"
    for c in m.consumers(t):
        for p in c.outputs:
            o += b"    " + p + b"\n"
    return bytes(o)


def ninja_observe(m, d, st):
    """Interrogate the ninja binary; compare with the reference.  Returns None when ninja refuses the manifest,
    else a dict: edge index -> set of fields on which ninja and the reference agree ("paths","command",
    "description","depfile")."""
    agree = {i: set() for i in range(len(m.edges))}
    # -- paths and rule names: -t query over every output
    targets = [(i, o) for i, e in enumerate(m.edges) for o in e.outputs]
    rc, out, err, to = run_ninja(d, ["-t", "query"] + [o for _, o in targets])
    if to:
        st["timeouts"] += 1
        return None
    if rc != 0:
        st["ninja_rejected"] += 1
        st.setdefault("ninja_rejected_msgs", []).append(show((out + err)[:200]))
        return None
    expected = b"".join(render_query_block(m, o) for _, o in targets)
    if out == expected:
        for i in agree:
            agree[i].add("paths")
    else:
        okset = collections.defaultdict(lambda: True)
        for i, o in targets:
            rc, out1, err1, to = run_ninja(d, ["-t", "query", o])
            if to or rc != 0 or out1 != render_query_block(m, o):
                okset[i] = False
            else:
                okset[i] = okset[i] and True
        for i in agree:
            if okset[i]:
                agree[i].add("paths")
    # -- expanded commands
    cmd_edges = [i for i, e in enumerate(m.edges) if not e.is_phony]
    if cmd_edges:
        rc, out, err, to = run_ninja(d, ["-t", "commands", "-s", "--"] + [m.edges[i].outputs[0] for i in cmd_edges])
        if to or rc != 0:
            st["ninja_rejected"] += 1
            st.setdefault("ninja_rejected_msgs", []).append(show((out + err)[:200]))
            return None
        exp = [m.edges[i].get(b"command", ninja_shell_quote, live=True) for i in cmd_edges]
        if out == b"".join(c + b"\n" for c in exp):
            for i in cmd_edges:
                agree[i].add("command")
        else:
            for i, c in zip(cmd_edges, exp):
                rc, out1, err1, to = run_ninja(d, ["-t", "commands", "-s", "--", m.edges[i].outputs[0]])
                if not to and rc == 0 and out1 == c + b"\n":
                    agree[i].add("command")
    for i, e in enumerate(m.edges):
        if e.is_phony:
            agree[i].add("command")
    # -- descriptions (status lines of a dry run) and depfiles (-d explain)
    try:
        for p in m.leaves():
            fp = os.path.join(os.fsencode(d), p)
            os.makedirs(os.path.dirname(fp), exist_ok=True)
            if not os.path.exists(fp):
                open(fp, "wb").close()
        fs_ok = True
    except OSError:
        fs_ok = False
        st["leaf_files_not_creatable"] += 1
    if fs_ok and cmd_edges:
        # ninja 1.11 writes response files even in a dry run: with -d keeprsp they show rspfile and rspfile_content
        rsp = {}
        for i in cmd_edges:
            e = m.edges[i]
            r = e.get(b"rspfile", None, live=True)
            if r:
                rsp.setdefault(r, []).append(i)
                try:
                    os.makedirs(os.path.dirname(os.path.join(os.fsencode(d), r)), exist_ok=True)
                except OSError:
                    pass
        console = any(m.edges[i].get(b"pool", None, live=True) == b"console" for i in cmd_edges)
        rc, out, err, to = run_ninja(d, ["-n", "-d", "explain", "-d", "keeprsp", "--"] + [e.outputs[0] for e in m.edges])
        if not to and rc == 0:
            chunks = out.split(MARK)[1:]
            want = []
            for i in cmd_edges:
                e = m.edges[i]
                desc = e.get(b"description", ninja_shell_quote, live=True)
                want.append((desc if desc else e.get(b"command", ninja_shell_quote, live=True)) + b"\n")
            if console:
                # status lines are dropped while a console-pool edge holds the terminal: ninja is not observable here
                st["manifests_with_console_pool_description_by_reference"] += 1
                for i in cmd_edges:
                    agree[i].add("description")
            elif sorted(chunks) == sorted(want):
                for i in cmd_edges:
                    agree[i].add("description")
                    agree[i].add("description_by_ninja")
            else:
                st["ninja_status_lines_differ_from_reference"] += 1
                cw, cg = collections.Counter(want), collections.Counter(chunks)
                st.setdefault("status_lines_msgs", []).append("reference only: %s / ninja only: %s" % (
                    [show(x) for x in (cw - cg)][:3], [show(x) for x in (cg - cw)][:3]))
            got_dep = sorted(mm.group(1) for mm in re.finditer(rb"^ninja explain: depfile '(.*)' is missing$", err, re.M))
            want_dep = sorted(e.get(b"depfile", None, live=True) for e in (m.edges[i] for i in cmd_edges)
                              if e.get(b"deps", None, live=True) == b"" and e.get(b"depfile", None, live=True))
            if got_dep == want_dep:
                for i in cmd_edges:
                    agree[i].add("depfile")
            else:
                st["ninja_depfiles_differ_from_reference"] += 1
                st.setdefault("depfile_msgs", []).append("reference %s / ninja %s" % ([show(x) for x in want_dep][:6], [show(x) for x in got_dep][:6]))
            for r, idxs in rsp.items():
                try:
                    content = open(os.path.join(os.fsencode(d), r), "rb").read()
                except OSError:
                    st["ninja_rspfile_not_where_the_reference_says"] += 1
                    continue
                if content in [m.edges[i].get(b"rspfile_content", ninja_shell_quote, live=True) for i in idxs]:
                    for i in idxs:
                        agree[i].add("rspfile")
                else:
                    st["ninja_rspfile_content_differs_from_reference"] += 1
        else:
            st["ninja_dry_run_failed"] += 1
            st.setdefault("ninja_rejected_msgs", []).append(show((out + err)[-300:]))
    return agree


# ----------------------------------------------------------------------------------------- llbuild side
def llbuild_observe(tools, d):
    """Returns (dump dict or None, cli dict or None, crash description or None)."""
    main = os.path.join(d, "build.ninja")
    rc, out, err, to = vlib.run_child([tools.dump, main], TIMEOUT)
    if to:
        return None, None, "timeout"
    if rc != 0:
        sig = vlib.sanitizer_summary(err)
        return None, None, "crash: " + (sig or "ninjadump exit status %d" % rc)
    try:
        dump = json.loads(out.decode("ascii"))
    except ValueError:
        return None, None, "crash: unparsable loader dump"
    rc, out, err, to = vlib.run_child([tools.llbuild, "ninja", "load-manifest", "--json", main], TIMEOUT)
    if to:
        return dump, None, "timeout"
    if rc != 0:
        sig = vlib.sanitizer_summary(err)
        return dump, None, "crash: " + (sig or "llbuild ninja load-manifest exit status %d" % rc)
    try:
        cli = json.loads(out.decode("latin-1"), strict=False)
    except ValueError:
        cli = None
    return dump, cli, None


def lines_of(content):
    return [l[:-1] if l.endswith(b"\r") else l for l in content.split(b"\n")]


def judge(files, tools, workdir, st, intended=None):
    """Load one manifest tree with every party and compare.  Returns a list of (key, detail dict)."""
    viols = []
    shutil.rmtree(workdir, ignore_errors=True)
    os.makedirs(workdir)
    write_tree(files, workdir)
    try:
        m = ninja_ref.load(lambda n: files.get(n))
    except ninja_ref.RefError as ex:
        st["reference_rejected"] += 1
        st.setdefault("reference_rejected_msgs", []).append(str(ex)[:200])
        return viols, None
    if intended is not None:
        got = [dict(outputs=e.outputs, explicit=e.explicit, implicit=e.implicit, order_only=e.order_only, rule=e.rule.name)
               for e in m.edges]
        if got != intended:
            st["generator_selfcheck_mismatch"] += 1
            return viols, None
    agree = ninja_observe(m, workdir, st)
    if agree is None:
        return viols, None
    dump, cli, crash = llbuild_observe(tools, workdir)
    if crash == "timeout":
        st["timeouts"] += 1
        return viols, None
    if crash:
        viols.append((crash, {}))
        return viols, m
    st["manifests_judged"] += 1
    cwd = unhx(dump["cwd"])

    # ---- diagnostics: ninja accepted this manifest and it is inside the property's premises
    edge_cause = {}
    default_cause = []
    for ndg, dg in enumerate(dump["errors"]):
        f = unhx(dg["file"])
        rel = f[len(cwd) + 1:] if f.startswith(cwd + b"/") else f
        ctx = []
        content = files.get(rel)
        if content is not None:
            ls = lines_of(content)
            line = ls[dg["line"] - 1] if 0 < dg["line"] <= len(ls) else b""
            if dg["msg"] == "unknown rule":
                cand = [e for e in m.edges if e.file == rel and e.line <= dg["line"]]
                if cand:
                    e = max(cand, key=lambda x: x.line)
                    if e.rule_from_parent_scope:
                        ctx.append("rule defined in an enclosing scope of a subninja file")
                    elif e.rule.name == b"phony" and e.scope_live.depth() > 0:
                        ctx.append("built-in phony rule used in a subninja file")
                    if ctx:
                        edge_cause[id(e)] = ctx[0]
            if dg["msg"] == "unexpected token":
                k = dg["line"] - 2
                while k >= 0 and ls[k].lstrip(b" ").startswith(b"#") and ls[k].startswith(b" "):
                    k -= 1
                if line.strip(b" ") == b"":
                    ctx.append("layout: line of blanks outside a block")
                elif line.startswith(b" ") and line.lstrip(b" ").startswith(b"#"):
                    ctx.append("layout: indented comment line outside a block")
                elif line.startswith(b" ") and k >= 0 and ls[k].startswith(b"#"):
                    ctx.append("layout: unindented comment line inside a block")
            if dg["msg"] == "unknown target name" and b"$" in line:
                ctx.append("default statement whose path is written with a $-escape or a variable")
                default_cause.append(ctx[0])
            st["llbuild_diagnostics"] += 1
            msg = re.sub(r"unable to read .*", "unable to read the file named by an include/subninja statement", dg["msg"])
            if ndg < 3:
                viols.append(("llbuild reports an error on a manifest ninja accepts: %s%s" % (
                msg, (" [" + "; ".join(ctx) + "]") if ctx else ""),
                {"file": show(rel), "line": dg["line"], "column": dg["column"], "text": show(line)}))
    # ---- pools and default targets (reference only: ninja prints neither)
    pools = {unhx(k): v for k, v in dump["pools"].items()}
    st["fields_compared"] += 2
    if pools != m.pools:
        viols.append(("pool table differs from the reference", {"llbuild": {show(k): v for k, v in pools.items()},
                                                               "reference": {show(k): v for k, v in m.pools.items()}}))
    ll_def = sorted(set(canonicalize(unhx(x)) for x in dump["defaults"]))
    if ll_def != sorted(set(m.defaults)):
        if not default_cause and any(re.search(rb"^default [^\n]*\$", c, re.M) for c in files.values()):
            default_cause.append("default statement whose path is written with a $-escape or a variable")
        # default statements are not build statements: outside property C17, counted but not judged
        st["default_target_mismatches_not_judged"] = st.get("default_target_mismatches_not_judged", 0) + 1
    # ---- build statements
    cmds = dump["commands"]
    if len(cmds) != len(m.edges):
        viols.append(("llbuild loaded %s build statements than the manifest has" % ("fewer" if len(cmds) < len(m.edges) else "more"),
                      {"llbuild": len(cmds), "ninja_and_reference": len(m.edges)}))
    by_first = {}
    for c in cmds:
        if c["outputs"]:
            by_first.setdefault(canonicalize(unhx(c["outputs"][0])), c)
    paths = set(p for e in m.edges for p in e.outputs + e.explicit)
    llq_raw = shellq_table(tools, sorted(paths))
    for s, v in llq_raw.items():
        if isinstance(v, tuple):
            viols.append(("shellEscaped() and appendShellEscapedString() disagree", {"string": show(s)}))
            llq_raw[s] = v[1]

    def llq(p):
        return llq_raw[p]
    st.setdefault("_paths", set()).update(paths)
    cli_by_first = {}
    if cli is not None:
        for c in cli.get("commands", []):
            if c.get("outputs"):
                cli_by_first[c["outputs"][0].encode("latin-1")] = c
    else:
        st["cli_json_unparsable"] += 1

    for i, e in enumerate(m.edges):
        st["edges_total"] += 1
        if e.path_reads_build_var:
            st["edges_excluded_path_reads_build_level_variable"] += 1
            continue
        if any(e.get(k) != e.get(k, live=True) for k in ninja_ref.RESERVED):
            st["edges_excluded_by_premise_rebinding"] += 1
            continue
        c = cmds[i] if len(cmds) == len(m.edges) else by_first.get(e.outputs[0])
        if c is None:
            continue      # already reported as a lost statement
        where = {"file": show(e.file), "line": e.line}
        noncanon = e.noncanonical() or any(canonicalize(m.nodes[p]) != m.nodes[p] for p in e.outputs + e.explicit)
        st["edges_judged"] += 1
        fields = 0
        ninja_backed = 0

        def differ(field, got, want, oracle):
            d = dict(where)
            if id(e) in edge_cause:
                d["edge_cause"] = edge_cause[id(e)]
            d.update(field=field, llbuild=show(got) if isinstance(got, bytes) else got,
                     expected=show(want) if isinstance(want, bytes) else want, oracle=oracle)
            viols.append(("%s differs from %s" % (field, oracle), d))

        # paths
        if "paths" in agree[i]:
            oracle = "ninja -t query and the reference"
            for fld, key in (("outputs", "outputs"), ("explicit", "inputs"), ("implicit", "implicit"), ("order_only", "order_only")):
                got = [canonicalize(unhx(x)) for x in c[key]]
                fields += 1
                ninja_backed += 1
                if got != getattr(e, fld):
                    differ(fld + " list", [show(x) for x in got], [show(x) for x in getattr(e, fld)], oracle)
            fields += 1
            if unhx(c["rule"]) != e.rule.name:
                differ("rule name", unhx(c["rule"]), e.rule.name, oracle)
        else:
            st["edges_inconclusive_paths_ninja_vs_reference"] += 1
        if noncanon:
            st["edges_with_noncanonical_spelling_strings_not_judged"] += 1
        else:
            # command
            if "command" in agree[i]:
                want = e.get(b"command", llq)
                got = unhx(c["command"])
                fields += 1
                ninja_backed += 1
                if want == e.get(b"command", ninja_shell_quote):
                    st["commands_byte_equal_to_ninja_expected"] += 1
                if got != want:
                    differ("expanded command", got, want, "ninja -t commands (modulo the spelling of shell quotes)")
            else:
                st["edges_inconclusive_command_ninja_vs_reference"] += 1
            # description: quoting of $in/$out is a don't-care
            got = unhx(c["description"])
            wants = [e.get(b"description"), e.get(b"description", ninja_shell_quote), e.get(b"description", llq)]
            if e.is_phony or "description" in agree[i]:
                fields += 1
                ninja_backed += 1 if "description_by_ninja" in agree[i] else 0
                if got not in wants:
                    differ("description", got, wants[0], "ninja status line (quoting of $in/$out not judged)")
            else:
                st["edges_inconclusive_description_ninja_vs_reference"] += 1
            # deps / depfile
            deps, depfile = e.get(b"deps"), e.get(b"depfile")
            style = "msvc" if deps == b"msvc" else ("gcc" if depfile else "none")
            fields += 1
            if c["deps"] != style:
                differ("deps style", c["deps"], style, "the reference")
            if style == "gcc":
                if deps != b"" or "depfile" in agree[i]:
                    fields += 1
                    if deps == b"":
                        ninja_backed += 1
                    if unhx(c["depfile"]) != depfile:
                        differ("depfile", unhx(c["depfile"]), depfile, "ninja -d explain" if deps == b"" else "the reference")
                else:
                    st["edges_inconclusive_depfile_ninja_vs_reference"] += 1
            # pool, flags
            fields += 3
            if unhx(c["pool"]) != e.get(b"pool"):
                differ("pool", unhx(c["pool"]), e.get(b"pool"), "the reference")
            if c["generator"] != bool(e.get(b"generator")):
                differ("generator flag", c["generator"], bool(e.get(b"generator")), "the reference")
            if c["restat"] != bool(e.get(b"restat")):
                differ("restat flag", c["restat"], bool(e.get(b"restat")), "the reference")
            # response file
            rsp = e.get(b"rspfile")
            fields += 1
            if not rsp:
                if c["rspfile"] or c["rspfile_content"]:
                    differ("rspfile", unhx(c["rspfile"]), b"", "the reference")
            elif canonicalize(rsp) == rsp and not rsp.startswith(b"/"):
                st["rspfile_edges"] += 1
                if "rspfile" in agree[i]:
                    ninja_backed += 2
                    st["rspfile_edges_backed_by_ninja"] += 1
                if unhx(c["rspfile"]) != cwd + b"/" + rsp:
                    differ("rspfile", unhx(c["rspfile"]), cwd + b"/" + rsp, "the reference")
                fields += 1
                wants = [e.get(b"rspfile_content"), e.get(b"rspfile_content", ninja_shell_quote), e.get(b"rspfile_content", llq)]
                if unhx(c["rspfile_content"]) not in wants:
                    differ("rspfile_content", unhx(c["rspfile_content"]), wants[0], "the reference (quoting of $in/$out not judged)")
        # the command line tool must print what the loader computed
        cc = cli_by_first.get(unhx(c["outputs"][0])) if c["outputs"] else None
        if cli is not None and cc is not None:
            fields += 1
            lat = lambda x: unhx(x).decode("latin-1")
            same = (cc.get("outputs") == [lat(x) for x in c["outputs"]] and cc.get("inputs") == [lat(x) for x in c["inputs"]] and
                    cc.get("implicit_inputs", []) == [lat(x) for x in c["implicit"]] and
                    cc.get("order_only_inputs", []) == [lat(x) for x in c["order_only"]] and
                    cc.get("command") == lat(c["command"]) and cc.get("description") == lat(c["description"]) and
                    cc.get("rule") == lat(c["rule"]) and bool(cc.get("generator")) == c["generator"] and
                    bool(cc.get("restat")) == c["restat"] and cc.get("pool", "") == lat(c["pool"]) and
                    cc.get("deps", "none") == c["deps"] and (c["deps"] != "gcc" or cc.get("depfile") == lat(c["depfile"])))
            if not same:
                viols.append(("llbuild ninja load-manifest --json prints something else than the loader computed", dict(where)))
        elif cli is not None:
            viols.append(("llbuild ninja load-manifest --json lacks a build statement the loader has", dict(where)))
        st["fields_compared"] += fields
        st["fields_backed_by_ninja_binary"] += ninja_backed
        if not e.is_phony:
            h = hashlib.sha1(b"\0".join([e.rule.name, e.get(b"command"), e.get(b"description"), e.get(b"depfile"),
                                         e.get(b"rspfile_content")] + e.outputs + e.explicit + e.implicit + e.order_only)).digest()[:8]
            st.setdefault("_edge_hashes", set()).add(h)
    return viols, m


MUTATIONS = [
    ("byte 0xFF", lambda c: c.replace(b"\xff", b"\xfe"), "after replacing every byte 0xFF by 0xFE"),
    ("8-letter identifier subninj?", lambda c: re.sub(rb"subninj(?![a])", b"subminj", c), "after renaming the identifiers subninj?"),
    ("$ CR LF continuation", lambda c: c.replace(b"$\r\n", b"$\n"), "after turning `$` CR LF into `$` LF"),
]


def _ident(key, det):
    return (key, det.get("file"), det.get("line"), det.get("field"))


def judge_case(files, tools, workdir, st, intended=None):
    """judge(), then attribute each violation: if a single-class mutation of the input (which keeps the line
    structure) makes that violation disappear - ninja and the reference are re-run on the mutated tree - the class
    is named as the cause in the violation key."""
    viols, m = judge(files, tools, workdir, st, intended)
    if not viols:
        return []
    causes = {}

    def all_of_them(c):
        for _, fn, _ in MUTATIONS:
            c = fn(c)
        return c
    for name, fn, text in MUTATIONS + [("several of: byte 0xFF, identifier subninj?, $ CR LF continuation", all_of_them,
                                        "only after all three rewrites together")]:
        mf = {k: fn(v) for k, v in files.items()}
        if mf == files:
            continue
        scratch = collections.Counter()
        v2, m2 = judge(mf, tools, workdir, scratch)
        if m2 is None or not scratch["manifests_judged"]:
            continue
        left = set(_ident(k, d) for k, d in v2)
        for k, d in viols:
            if _ident(k, d) not in left:
                causes.setdefault(_ident(k, d), (name, text))
    res = []
    for key, det in viols:
        det = dict(det)
        cause = causes.get(_ident(key, det))
        if cause:
            key = key + " [cause: " + cause[0] + "; gone " + cause[1] + "]"
        elif det.get("edge_cause"):
            key = key + " [cause: " + det["edge_cause"] + "]"
        det["files"] = {hx(k): hx(v) for k, v in files.items()}
        det["main_manifest"] = show(files.get(b"build.ninja", b""))[:3000]
        res.append((key, det))
    return res


# ----------------------------------------------------------------------------------------- quoting strings
def random_string(r):
    n = r.choice([1, 1, 2, 2, 3, 4, 5, 6, 8, 12, 20])
    cls = r.random()
    out = bytearray()
    white = b"abcdefghijklmnopqrstuvwxyzABCDEFGHIJKLMNOPQRSTUVWXYZ1234567890-_/:@#%+=.,"
    meta = b" \t\n'\"\\$`!*?[]{}()<>|&;~^#="
    for i in range(n):
        x = r.random()
        if cls < 0.25:
            out.append(r.choice(white))
        elif cls < 0.5:
            out.append(r.choice(white) if x < 0.6 else r.choice(meta))
        elif cls < 0.75:
            out.append(r.randint(1, 255))
        else:
            out.append(r.choice(white) if x < 0.4 else (r.choice(meta) if x < 0.7 else r.randint(0x80, 0xFF)))
    if r.random() < 0.08:
        out[0] = r.choice(b"#~-='\" \n")
    return bytes(out)


def quoting_check(tools, strings, workdir, st, emit):
    strings = sorted(set(s for s in strings if s and b"\0" not in s))
    table = shellq_table(tools, strings)
    pairs = []
    for s in strings:
        v = table[s]
        if isinstance(v, tuple):
            emit("shellEscaped() and appendShellEscapedString() disagree", {"string": hx(s)})
            v = v[1]
        pairs.append((s, v))
        st["strings_tested"] += 1
        st["strings_left_unquoted" if v == s else "strings_quoted"] += 1
        if b"'" in s:
            st["strings_with_single_quote"] += 1
    for s, esc, got in sh_roundtrip(pairs, workdir):
        if esc == s and s.startswith(b"#"):
            why = "a leading '#' is left unquoted and starts a shell comment"
        elif esc == s:
            why = "left unquoted, first byte %r" % chr(s[0])
        else:
            why = "quoted form is not read back"
        emit("shell-quoted path does not survive /bin/sh: " + why,
             {"string": hx(s), "string_shown": show(s), "escaped": show(esc), "sh_printed": show(got)})


# ----------------------------------------------------------------------------------------- worker (one shard)
def worker(a):
    st = collections.Counter()
    extra = {}
    tools = Tools(a["llbuild"], a["dump"], a["shellq"])
    d = a["dir"]
    os.makedirs(d, exist_ok=True)
    tags = collections.Counter()
    high = set()
    sample = None

    emitted = collections.Counter()

    def emit(key, wit):
        emitted[key] += 1
        if emitted[key] <= 2:       # two witnesses per distinct key and shard are enough; the rest is counted
            print(json.dumps({"viol": key, "witness": wit}), flush=True)
        else:
            st["violations_beyond_two_per_key_and_shard_not_listed"] += 1

    cstat = collections.Counter()
    for idx in range(a["shard"], a["manifests"], a["nshards"]):
        case = ninja_gen.generate(a["seed"], idx, layout=a["layout"])
        seen_keys = set()
        for k, det in judge_case(case.files, tools, os.path.join(d, "m"), cstat, case.intended):
            if k in seen_keys:
                continue
            seen_keys.add(k)
            det["generator"] = {"seed": a["seed"], "index": idx, "layout": a["layout"]}
            det["tags"] = sorted(case.tags)
            emit(k, det)
        st["manifests_generated"] += 1
        for t in case.tags:
            tags[t] += 1
        high |= case.high_bytes
        if sample is None and len(case.files) > 1 and len(case.files[b"build.ninja"]) < 700:
            sample = {show(k): show(v) for k, v in case.files.items()}
    paths = cstat.pop("_paths", set())
    hashes = cstat.pop("_edge_hashes", set())
    msgs = {k: cstat.pop(k) for k in list(cstat) if k.endswith("_msgs")}
    st.update(cstat)
    r = random.Random(a["seed"] * 7919 + a["shard"])
    strings = [random_string(r) for _ in range(a["strings"] // a["nshards"])]
    quoting_check(tools, list(paths) + strings, d, st, emit)
    st["manifest_paths_round_tripped"] = len(paths)
    summ = dict(st)
    summ["tags"] = dict(tags)
    summ["high_bytes"] = sorted(high)
    summ["edge_hashes"] = [h.hex() for h in hashes]
    summ["msgs"] = {k: v[:3] for k, v in msgs.items()}
    summ["sample"] = sample
    print(json.dumps({"summary": summ}), flush=True)
    shutil.rmtree(d, ignore_errors=True)
    return 0


# ----------------------------------------------------------------------------------------- entry point
def run(tier, replay):
    chk = vlib.Check("C17", tier)
    vlib.build_flavor("asan")
    tools = Tools(vlib.llbuild_bin("asan"),
                  vlib.build_harness("ninjadump", "asan", ["ninjadump.cpp"], libs=["llbuildNinja", "llbuildBasic", "llvmSupport"]),
                  vlib.build_harness("shellq", "asan", ["shellq.cpp"], libs=["llbuildBasic", "llvmSupport"]))
    manifests, strings = (640, 20000) if tier == "quick" else (25000, 2000000)
    layout = os.environ.get("VERIF_C17_LAYOUT", "") == "1"
    sd = vlib.scratch_dir("c17")
    try:
        if replay:
            w = json.load(open(replay))["witness"]
            st = collections.Counter()
            if "files" in w:
                files = {unhx(k): unhx(v) for k, v in w["files"].items()}
                for k, det in judge_case(files, tools, os.path.join(sd, "m"), st):
                    chk.violation(k, det)
                chk.add(st["fields_compared"], len(st.get("_edge_hashes", ())))
            else:
                os.makedirs(os.path.join(sd, "q"))
                quoting_check(tools, [unhx(w["string"])], os.path.join(sd, "q"), st, chk.violation)
                chk.add(st["strings_tested"], 2)
            chk.cov["rule"] = "replay of one witness"
            return chk.finish()
        nshards = vlib.NCPU
        cmds = []
        for i in range(nshards):
            a = dict(seed=chk.seed, shard=i, nshards=nshards, manifests=manifests, strings=strings, layout=layout,
                     dir=os.path.join(sd, "s%d" % i), llbuild=tools.llbuild, dump=tools.dump, shellq=tools.shellq)
            cmds.append([sys.executable, os.path.abspath(__file__), "--worker", json.dumps(a)])
        sums = vlib.run_shards(chk, cmds, timeout=7200, crash_is_violation=False, label="c17 shard")
        tot = collections.Counter()
        tags = collections.Counter()
        high, hashes, msgs = set(), set(), {}
        for s in sums:
            for k, v in s.items():
                if isinstance(v, int):
                    tot[k] += v
            tags.update(s.get("tags", {}))
            high |= set(s.get("high_bytes", []))
            hashes |= set(s.get("edge_hashes", []))
            for k, v in s.get("msgs", {}).items():
                msgs.setdefault(k, []).extend(v)
            if s.get("sample"):
                chk.sample(s["sample"])
        chk.add(tot["fields_compared"] + tot["strings_tested"], len(hashes))
        chk.cov["rule"] = ("one evaluation = one field of one build statement (path list, rule, command, description, deps, depfile, pool, "
                           "flags, rspfile, rspfile_content, CLI print) compared with ninja 1.11.1 / the reference, or one string through "
                           "shellEscaped and /bin/sh; non-trivial = distinct non-phony build statements by (rule, expanded strings, paths)")
        for k in sorted(tot):
            chk.cov[k] = tot[k]
        chk.cov["generator_classes"] = dict(sorted(tags.items()))
        chk.cov["distinct_high_bytes_in_manifests"] = len(high)
        chk.cov["oracle_messages"] = {k: v[:4] for k, v in msgs.items()}
        chk.cov["layout_classes_enabled"] = layout
        chk.assumptions = ["/usr/bin/ninja is 1.11.1 and /bin/sh is dash", "ext4 scratch directory accepts arbitrary byte file names",
                           "manifests stay inside the property's premises (see checks/ninja_gen.py); lines of blanks and indented comment lines outside a block "
                           "are generated only with VERIF_C17_LAYOUT=1 (unindented comment lines inside a block are always generated)"]
        edges = tot["edges_total"]
        discarded = (tot["edges_inconclusive_paths_ninja_vs_reference"] + tot["edges_inconclusive_command_ninja_vs_reference"] +
                     tot["edges_inconclusive_description_ninja_vs_reference"] + tot["edges_inconclusive_depfile_ninja_vs_reference"] +
                     tot["edges_excluded_by_premise_rebinding"] + tot["edges_excluded_path_reads_build_level_variable"])
        lost = tot["manifests_generated"] - tot["manifests_judged"]
        chk.cov["manifests_not_judged"] = lost
        chk.cov["edge_fields_discarded_as_inconclusive"] = discarded
        if tot["manifests_generated"] and lost > 0.03 * tot["manifests_generated"]:
            chk.inconclusive.append("%d of %d manifests could not be judged (ninja / reference / generator disagreement): %s" % (
                lost, tot["manifests_generated"], json.dumps(chk.cov["oracle_messages"])[:400]))
        if edges and discarded > 0.05 * edges:
            chk.inconclusive.append("%d of %d build statements had a field on which ninja and the reference disagree" % (discarded, edges))
        if tot["manifests_judged"] == 0 or tot["strings_tested"] == 0:
            chk.inconclusive.append("nothing was observed")
        if tier == "thorough" and len(high) < 128:
            chk.inconclusive.append("only %d of the 128 bytes 0x80..0xFF appeared in manifests" % len(high))
    finally:
        shutil.rmtree(sd, ignore_errors=True)
    return chk.finish()


if __name__ == "__main__":
    if len(sys.argv) == 3 and sys.argv[1] == "--worker":
        sys.exit(worker(json.loads(sys.argv[2])))
    print("usage: python3 /verif/check.py C17 --tier quick|thorough [--replay <path>]")
    sys.exit(2)
