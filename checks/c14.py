"""C14 - stale-file removal deletes exactly the obsolete outputs inside the allowed roots.
Part 1 (predicate, checks/c14_pred.py): pathIsPrefixedByPath against a MUST / MUST-NOT band.
Part 2 (here): end-to-end histories of expectedOutputs / roots lists, FileSystem::remove() calls logged by a wrapping file system."""
import os, shutil, json, random, importlib
import vlib, bslib
from bslib import Cmd

LIBS = ["llbuildBuildSystem", "llbuildCore", "llbuildBasic", "llvmSupport"]


def comps(p):
    return [c for c in p.split("/") if c != ""]


def under(path, root, liberal):
    """Is `path` at or beneath `root` by whole components? conservative: one trailing separator dropped from the root, nothing else normalised."""
    if not path.startswith("/"):
        return False
    if liberal:
        pc, rc = comps(path), comps(root)
        return root.startswith("/") and pc[:len(rc)] == rc
    r = root[:-1] if root.endswith("/") and len(root) > 1 else root
    if "//" in r or "//" in path or not r.startswith("/"):
        return False
    return path == r or path.startswith(r + "/")


def expected_sets(prev, cur, roots):
    gone = [p for p in prev if p not in cur]
    must, may = set(), set()
    for p in gone:
        if p == "":
            may.add(p)   # the empty string names nothing: a remove("") attempt is harmless, and nothing can be expected to disappear
            continue
        if not roots:
            must.add(p); may.add(p)
            continue
        if any(under(p, r, False) for r in roots) and "/./" not in p and "/../" not in p:
            must.add(p)
        if any(under(p, r, True) for r in roots):
            may.add(p)
    return must, may


def history(args):
    seed, index, sd, binp, nbuilds = args
    rnd = random.Random(seed * 9176 + index)
    sb = bslib.Sandbox(os.path.join(sd, "s%d" % index))
    res = dict(viol=[], builds=0, removes=0, expected_removed=0, kept_checked=0, roots_cases=0, nontrivial=False, sample=None, inconclusive=[], shapes=set())
    log = []
    try:
        A = sb.path
        roots_pool = [A + "/r1", A + "/r1/", A + "/r2/sub", A + "/r2/sub/", A + "/r1x", A + "/r1.d", A + "/r1-x", A + "/r1/deep", A + "/r2", A + "/r2.old"]
        # candidate outputs: inside roots, sharing prefixes with roots, outside roots, relative, directories, symlinks
        def mk():
            files = {}
            for p in ["r1/a.out", "r1/b.out", "r1/deep/c.out", "r1x/d.out", "r1extra.out", "r2/sub/e.out", "r2/f.out", "r2/subx/g.out", "outside/h.out", "rel/i.out"]:
                sb.write(p, "file %s\n" % p); files[p] = "file"
            sb.write("r1/dir/in1.txt", "x\n"); sb.write("r1/dir/sub/in2.txt", "y\n"); files["r1/dir"] = "dir"
            sb.write("decoy/keep.txt", "must stay\n"); sb.write("r1/decoy_keep.txt", "must stay\n"); sb.write("outside/target.txt", "target must stay\n")
            if not os.path.lexists(sb.p("r1/link")):
                os.symlink(sb.p("outside/target.txt"), sb.p("r1/link"))
            files["r1/link"] = "link"
            if not os.path.lexists(sb.p("r1/dirlink")):
                os.symlink(sb.p("decoy"), sb.p("r1/dirlink"))
            files["r1/dirlink"] = "link"
            return files
        cands = mk()
        def spell(rel):
            x = rnd.random()
            if rel.startswith("rel/") or x < 0.12:
                return rel   # relative path
            if x < 0.2:
                return A + "//" + rel          # doubled separator
            if x < 0.25:
                return A + "/./" + rel
            return A + "/" + rel
        prev = None   # expected list of the previous successful run
        for b in range(nbuilds):
            mode = rnd.random()
            if prev is not None and mode < 0.25:
                # the list only grows (nothing is stale in this run); a later run that shrinks it again must still remove the additions
                extra = [spell(r) for r in rnd.sample(sorted(cands), rnd.randint(1, 3))]
                cur = sorted(set([x for x in prev if x != ""]) | set(extra))
            elif prev is not None and mode < 0.45 and len(set(prev)) > 2:
                base = sorted(set(x for x in prev if x != ""))
                cur = sorted(rnd.sample(base, rnd.randint(1, len(base) - 1)))
            else:
                cur = sorted(set(spell(r) for r in rnd.sample(sorted(cands), rnd.randint(2, len(cands) - 2))))
            if rnd.random() < 0.1:
                cur.append("")
            # the same path listed more than once (two producers declaring one output directory), in any order
            ndup = rnd.choice([0, 0, 1, 2, 3])
            for _ in range(ndup):
                cur.append(rnd.choice(cur))
            if ndup or rnd.random() < 0.3:
                rnd.shuffle(cur)
            roots = [] if rnd.random() < 0.35 else rnd.sample(roots_pool, rnd.randint(1, 3))
            if roots:
                res["roots_cases"] += 1
            d = bslib.Desc()
            d.sources = []
            c = Cmd("SFR", "stale-file-removal", inputs=[], outputs=["<all>"])
            c.extra = {"expectedOutputs": cur}
            if roots:
                c.extra["roots"] = roots
            d.cmds["SFR"] = c
            d.targets[""] = ["<all>"]; d.default = ""
            sb.write_desc(d)
            mk()   # everything exists again before each build (outputs "produced" by the build)
            before = sb.snapshot(skip=("build.db", "events.jsonl", "build.llbuild", "ran.log"))
            ev = sb.p("events.jsonl")
            if os.path.exists(ev):
                os.unlink(ev)
            rc, out, err, to = vlib.run_child([binp, "--events", ev], 60, cwd=sb.path)
            res["builds"] += 1
            e = err.decode("utf-8", "replace")
            log.append("build %d: expected=%s roots=%s rc=%d" % (b, [x.replace(A, "$A") for x in cur], [x.replace(A, "$A") for x in roots], rc))
            wit = dict(seed=seed, index=index, history=list(log), sandbox="$A", stderr=e[-600:])
            san = vlib.sanitizer_summary(e) if rc not in (0, 1) else None
            if san:
                res["viol"].append(("crash: " + san, wit)); return res
            if rc != 0:
                res["inconclusive"].append("stale-file-removal build failed: " + (out.decode("utf-8", "replace") + e)[-300:]); return res
            removed_calls = []
            for l in open(ev):
                try:
                    r = json.loads(l)
                except ValueError:
                    continue
                if r.get("ev") == "fs_remove":
                    removed_calls.append(r["path"])
            res["removes"] += len(removed_calls)
            after = sb.snapshot(skip=("build.db", "events.jsonl", "build.llbuild", "ran.log"))
            must, may = expected_sets(prev or [], cur, roots) if prev is not None else (set(), set())
            # safety 1: every remove() call is for a path that may be removed
            for p in removed_calls:
                if p not in may:
                    res["viol"].append(("remove() called for a path that is not an obsolete expected output inside the roots (%s)" % classify(p, A, prev, cur, roots), dict(wit, path=p.replace(A, "$A")))); return res
            # safety 2: whole-sandbox snapshot: only the allowed paths (and what is beneath them) may have disappeared or changed
            def norm(p):
                return os.path.normpath(p if p.startswith("/") else os.path.join(A, p))
            allowed_roots = [norm(p) for p in may]
            for rel, v in before.items():
                full = os.path.join(A, rel)
                if after.get(rel) != v:
                    if not any(full == a or full.startswith(a + "/") for a in allowed_roots):
                        res["viol"].append(("a path outside the obsolete expected outputs was removed or modified", dict(wit, path="$A/" + rel, before=str(v)[:80], after=str(after.get(rel))[:80]))); return res
            for rel in after:
                if rel not in before:
                    res["viol"].append(("stale-file removal created a path", dict(wit, path=rel))); return res
            # completeness: every path that must be removed is gone
            for p in must:
                res["expected_removed"] += 1
                if os.path.lexists(p if p.startswith("/") else os.path.join(A, p)):
                    res["viol"].append(("an obsolete expected output inside the roots was not removed (%s)" % classify(p, A, prev, cur, roots), dict(wit, path=p.replace(A, "$A")))); return res
            if must:
                res["nontrivial"] = True
                res["shapes"].add("%s|%s" % (sorted(classify(p, A, prev, cur, roots) for p in must)[0], bool(roots)))
            res["kept_checked"] += len(before) - len([1 for rel in before if rel not in after])
            prev = cur
            if res["sample"] is None and b >= 1:
                res["sample"] = {"history": list(log), "remove_calls": [x.replace(A, "$A") for x in removed_calls]}
    finally:
        shutil.rmtree(sb.path, ignore_errors=True)
    return res


def classify(p, A, prev, cur, roots):
    k = "relative path" if not p.startswith("/") else "absolute path"
    if "//" in p:
        k += " with doubled separator"
    if "/./" in p:
        k += " with ./ component"
    if roots:
        k += ", root " + ("with" if any(r.endswith("/") for r in roots) else "without") + " trailing separator"
    else:
        k += ", no roots"
    return k


def run(tier, replay):
    chk = vlib.Check("C14", tier)
    vlib.build_flavor("asan")
    bslib.bscmd_path()
    binp = vlib.build_harness("bsdriver", "asan", ["bsdriver.cpp"], libs=LIBS)
    sd = vlib.scratch_dir("c14")
    try:
        th = tier == "thorough"
        pred = {}
        try:
            mod = importlib.import_module("c14_pred")
            pred = mod.run_predicate(chk, tier, sd) or {}
        except ImportError:
            chk.inconclusive.append("predicate part (checks/c14_pred.py) is missing")
        n = 128 if not th else 3000
        jobs = [(chk.seed, i, sd, binp, 4 if not th else 6) for i in range(n)]
        if replay:
            w = json.load(open(replay))["witness"]
            if "index" in w:
                jobs = [(w["seed"], w["index"], sd, binp, 6)]
        results = vlib.pmap(history, jobs)
        tot = dict(builds=0, removes=0, expected_removed=0, kept_checked=0, roots_cases=0)
        shapes = set()
        for r in results:
            for k in tot:
                tot[k] += r[k]
            shapes |= r["shapes"]
            for key, w in r["viol"]:
                chk.violation(key, w)
            for m in r["inconclusive"]:
                chk.inconclusive.append(m)
            if r["sample"]:
                chk.sample(r["sample"])
        chk.add(tot["builds"], len(shapes))
        chk.cov.update(tot)
        chk.cov["predicate"] = pred
        chk.cov["histories"] = len(results)
        chk.cov["rule"] = ("end to end: histories of 4-6 builds (new process each, BuildSystemFrontend client with a logging FileSystem wrapper) of one stale-file-removal command whose "
                           "expectedOutputs and roots lists change every build (fresh random lists, lists that only grow, lists that only shrink; lists may name the same path several times, in any order); paths absolute/relative/with doubled separators or ./, inside roots, sharing a name prefix with a root, outside, "
                           "non-empty directories, symlinks to files and directories outside; safety: every remove() call and every difference of a whole-sandbox snapshot must lie in "
                           "(previous list minus current list) restricted by the roots under the liberal reading; completeness: every such path under the conservative reading is gone; "
                           "plus the predicate band test of checks/c14_pred.py")
        chk.assumptions = ["paths with doubled separators or dot components are judged only for safety, not for completeness"]
    finally:
        shutil.rmtree(sd, ignore_errors=True)
    return chk.finish()
