"""C18 workload model: generated Ninja manifests whose every command is the deterministic helper harness/bscmd.c,
the manifest writer, the clean-build content predictor (same hash as the helper, via bslib.Hasher), a sandbox whose
edits move mtimes FORWARD in real time (Ninja-compatible tools compare mtimes), and the manifest/history mutations."""
import os, copy, shutil, stat, time
import bslib

PHONY = "phony"
CMD = "cmd"
OUTDIRS = ("out", "out/sub")


class St:
    """One build statement."""

    def __init__(self, name, kind=CMD):
        self.name, self.kind = name, kind
        self.outs = []        # explicit outputs
        self.ins = []         # explicit inputs ($in)
        self.imps = []        # implicit inputs (|): read by the command through --in (aliases: the real files behind them)
        self.oos = []         # order-only inputs (||): never read by the command
        self.salt = "s0"
        self.note = 0         # content-neutral command line difference (--note N, ignored by the helper)
        self.reads_file = None  # deps = gcc: path of the file listing the undeclared reads (itself a declared implicit input)
        self.restat = False
        self.generator = False
        self.pool = None
        self.sleep_ms = 0
        self.undecl = []      # files the command reads through --in that the manifest does NOT declare yet (never edited while undeclared);
                              # a later manifest edit declares them as implicit inputs without changing the command line
        self.keep_same = False  # helper leaves an output with identical content untouched (meaningful with restat)

    def clone(self):
        return copy.deepcopy(self)

    @property
    def depfile(self):
        return "out/%s.d" % self.name if self.reads_file else None


class Man:
    def __init__(self):
        self.sources = []     # files no statement produces, declared as inputs somewhere (or available for it)
        self.headers = []     # files only ever read undeclared (through a reads-file)
        self.late = []        # files read by some command before the manifest declares them (moved to sources once every reader declares them)
        self.sts = {}         # name -> St, insertion order is a topological order
        self.pools = {}       # name -> depth
        self.defaults = None  # list of paths or None (= all roots)
        self.phony_sources = set()   # sources that also have a `build <src>: phony` statement (CMake does this for byproducts)

    def clone(self):
        return copy.deepcopy(self)

    def producer(self, path):
        for s in self.sts.values():
            if path in s.outs:
                return s
        return None

    def is_alias(self, path):
        p = self.producer(path)
        return p is not None and p.kind == PHONY and path not in self.phony_sources

    def alias_files(self, path, seen=None):
        """Real files standing behind a phony alias (transitively through explicit and implicit inputs)."""
        seen = seen if seen is not None else set()
        res = []
        p = self.producer(path)
        if p is None or p.kind != PHONY or path in self.phony_sources:
            return [path]
        if path in seen:
            return []
        seen.add(path)
        for i in p.ins + p.imps:
            for f in self.alias_files(i, seen):
                if f not in res:
                    res.append(f)
        return res

    def read_list(self, st):
        """Files the command hashes through --in, in command line order (implicit ones; the explicit ones follow via $in)."""
        res = []
        for i in st.imps:
            if i == st.reads_file:
                continue
            for f in self.alias_files(i):
                if f not in res:
                    res.append(f)
        for f in st.undecl:
            if f not in res:
                res.append(f)
        return res

    def index(self, name):
        return list(self.sts).index(name)

    def consumers(self, path):
        return [s for s in self.sts.values() if path in s.ins or path in s.imps or path in s.oos]

    def roots(self):
        used = set()
        for s in self.sts.values():
            used.update(s.ins + s.imps + s.oos)
        return [o for s in self.sts.values() for o in s.outs if o not in used]

    def target_nodes(self, target):
        if target:
            return list(target)
        if self.defaults:
            return list(self.defaults)
        return self.roots()

    def reachable(self, nodes):
        """Statements needed for the given nodes (through all three input classes), in manifest (= topological) order."""
        need, work = set(), list(nodes)
        while work:
            n = work.pop()
            p = self.producer(n)
            if p is None or p.name in need:
                continue
            need.add(p.name)
            work.extend(p.ins + p.imps + p.oos)
        return [s for s in self.sts.values() if s.name in need]

    def downstream(self, name, data_only=True):
        """Names of statements that (transitively) consume an output of `name` (through non-order-only inputs when data_only)."""
        res, work = set(), list(self.sts[name].outs)
        seen = set(work)
        while work:
            n = work.pop()
            for s in self.sts.values():
                deps = s.ins + s.imps + ([] if data_only else s.oos)
                if n in deps and s.name not in res:
                    res.add(s.name)
                    for o in s.outs:
                        if o not in seen:
                            seen.add(o)
                            work.append(o)
        return res


# ------------------------------------------------------------------ manifest text
def rule_name(st):
    return "r" + ("_deps" if st.reads_file else "") + ("_restat" if st.restat else "") + ("_gen" if st.generator else "")


def extra_args(man, st):
    a = []
    for f in man.read_list(st):
        a += ["--in", f]
    if st.reads_file:
        a += ["--reads-file", st.reads_file, "--dep-out", st.depfile, "--dep-style", "makefile"]
    if st.sleep_ms:
        a += ["--sleep-ms", str(st.sleep_ms)]
    if st.keep_same:
        a += ["--restat"]
    if st.note:
        a += ["--note", "n%d" % st.note]
    return a


def command_line(man, st, sandbox):
    """The expanded command string, exactly as the manifest's rule + bindings produce it."""
    oargs = " ".join("--out " + o for o in st.outs)
    parts = [bslib.bscmd_path(), st.name, "--salt", st.salt, "--log", os.path.join(sandbox, "ran.log"), "--log-end", "--fail-file", st.name + ".fail"]
    return " ".join(parts) + " " + " ".join(extra_args(man, st)) + " " + oargs + " --in-rest " + " ".join(st.ins)


def manifest_text(man, sandbox):
    L = ["# generated by /verif/checks/nb_model.py", "ninja_required_version = 1.5", "bscmd = " + bslib.bscmd_path(),
         "log = " + os.path.join(sandbox, "ran.log"), ""]
    for p, d in man.pools.items():
        L += ["pool " + p, "  depth = %d" % d]
    rules = {}
    for st in man.sts.values():
        if st.kind == CMD:
            rules.setdefault(rule_name(st), st)
    for rn, st in rules.items():
        L += ["rule " + rn,
              "  command = $bscmd $name --salt $salt --log $log --log-end --fail-file ${name}.fail $extra $oargs --in-rest $in",
              "  description = RUN $name"]
        if st.reads_file:
            L += ["  depfile = $dfile", "  deps = gcc"]
        if st.restat:
            L += ["  restat = 1"]
        if st.generator:
            L += ["  generator = 1"]
    L.append("")
    for st in man.sts.values():
        line = "build " + " ".join(st.outs) + ": " + (PHONY if st.kind == PHONY else rule_name(st))
        if st.ins:
            line += " " + " ".join(st.ins)
        if st.imps:
            line += " | " + " ".join(st.imps)
        if st.oos:
            line += " || " + " ".join(st.oos)
        L.append(line)
        if st.kind == CMD:
            L += ["  name = " + st.name, "  salt = " + st.salt, "  extra = " + " ".join(extra_args(man, st)),
                  "  oargs = " + " ".join("--out " + o for o in st.outs)]
            if st.reads_file:
                L.append("  dfile = " + st.depfile)
            if st.pool:
                L.append("  pool = " + st.pool)
    if man.defaults:
        for d in man.defaults:
            L.append("default " + d)
    return "\n".join(L) + "\n"


# ------------------------------------------------------------------ clean-build prediction
def parse_reads(content):
    if not isinstance(content, bytes):
        return []
    return [l for l in content.decode("utf-8", "replace").split("\n") if l]


def predict(man, nodes, read_file):
    """path -> bytes every output of every command statement reachable from `nodes` has after a clean build.
    read_file(path) -> bytes | None for files no statement produces."""
    cur, res = {}, {}

    def content_of(path):
        p = man.producer(path)
        if p is not None and p.kind == CMD:
            return cur.get(path)
        return read_file(path)      # sources, headers, phony aliases (no such file: None), phony-declared sources
    for st in man.reachable(nodes):
        if st.kind != CMD:
            continue
        h = bslib.Hasher()
        h.hs(st.name)
        h.hs(st.salt)
        for f in man.read_list(st):
            h.hfile(f, content_of(f))
        for f in st.ins:
            h.hfile(f, content_of(f))
        if st.reads_file:
            for f in parse_reads(read_file(st.reads_file)):
                h.hfile(f, content_of(f))
        for idx, o in enumerate(st.outs):
            cur[o] = bslib.out_content(h.h, st.name, idx)
            res[o] = cur[o]
    return res


# ------------------------------------------------------------------ sandbox with forward-moving real-time mtimes
class NSandbox:
    """Edits get mtime = max(now, newest mtime in the tree + 10 ms), set explicitly (multigrain timestamps: never trust write order);
    before a build the caller waits until real time has passed every mtime in the tree."""

    def __init__(self, path):
        self.path = os.path.abspath(path)
        shutil.rmtree(self.path, ignore_errors=True)
        os.makedirs(self.path)
        for d in OUTDIRS + ("src", "hdr"):
            os.makedirs(os.path.join(self.path, d), exist_ok=True)
        self.logpos = 0

    def p(self, rel):
        return os.path.join(self.path, rel)

    def newest_mtime_ns(self):
        m = 0
        for root, dirs, files in os.walk(self.path):
            for n in files:
                try:
                    m = max(m, os.lstat(os.path.join(root, n)).st_mtime_ns)
                except OSError:
                    pass
        return m

    def _ident(self, path):
        try:
            st = os.stat(path)
            return (st.st_dev, st.st_ino, st.st_size, st.st_mtime_ns)
        except OSError:
            return None

    def edit(self, rel, content=None, replace_inode=False, gap_ns=10_000_000):
        """Write (content given) or touch (content None) `rel` with a forward mtime. Returns True when (dev, ino, size, mtime) changed."""
        path = self.p(rel)
        before = self._ident(path)
        newest = self.newest_mtime_ns()
        if content is not None:
            if isinstance(content, str):
                content = content.encode()
            if replace_inode and before is not None:
                tmp = path + ".new"
                with open(tmp, "wb") as f:
                    f.write(content)
                os.rename(tmp, path)
            else:
                with open(path, "wb") as f:
                    f.write(content)
        t = max(time.time_ns(), newest + gap_ns)
        os.utime(path, ns=(t, t))
        after = self._ident(path)
        return after is not None and after != before and after[3] == t

    def settle(self):
        """Sleep until real time is safely past the newest mtime in the tree (coarse kernel clock may lag by a tick)."""
        while True:
            d = self.newest_mtime_ns() + 6_000_000 - time.time_ns()
            if d <= 0:
                return
            time.sleep(d / 1e9)

    def read(self, rel):
        path = self.p(rel)
        try:
            st = os.stat(path)
        except OSError:
            return None
        if stat.S_ISDIR(st.st_mode):
            return None
        with open(path, "rb") as f:
            return f.read()

    def exists(self, rel):
        return os.path.lexists(self.p(rel))

    def remove(self, rel):
        try:
            os.unlink(self.p(rel))
        except OSError:
            pass

    def log_since(self):
        """Run-log records appended since the last call: list of dicts {name, start, end, rc} in start order."""
        try:
            with open(self.p("ran.log"), "rb") as f:
                f.seek(self.logpos)
                data = f.read()
        except OSError:
            return []
        # only consume whole lines
        cut = data.rfind(b"\n") + 1
        data = data[:cut]
        self.logpos += len(data)
        recs, open_ = [], {}
        for l in data.decode("utf-8", "replace").splitlines():
            w = l.split()
            if len(w) >= 3 and w[2] == "start":
                r = {"name": w[0], "start": float(w[1]), "end": None, "rc": None}
                recs.append(r)
                open_.setdefault(w[0], []).append(r)
            elif len(w) >= 4 and w[2] == "end":
                q = open_.get(w[0])
                if q:
                    r = q.pop(0)
                    r["end"] = float(w[1])
                    r["rc"] = int(w[3])
        return recs

    def write_manifest(self, man):
        ok = self.edit("build.ninja", manifest_text(man, self.path))
        return ok


# ------------------------------------------------------------------ generator
def gen_manifest(rnd):
    m = Man()
    nsrc = rnd.randint(2, 5)
    m.sources = ["src/s%d.txt" % i for i in range(nsrc)]
    # header names include characters that the depfile must escape (space, '#', '$', backslash is avoided: it is a path separator to nobody
    # here but would make shell-free helper arguments harder to read); the helper writes them with the documented escaping
    _odd = ["hdr/my hdr%d.h", "hdr/h#%d.h", "hdr/h$%d.h", "hdr/a b#%d.h"]
    m.headers = [(rnd.choice(_odd) if rnd.random() < 0.5 else "hdr/h%d.h") % i for i in range(rnd.randint(1, 3))]
    m.late = ["src/l%d.txt" % i for i in range(rnd.choice([0, 1, 1, 2]))]
    if rnd.random() < 0.5:
        m.pools["p1"] = 1
    if rnd.random() < 0.3:
        m.pools["p2"] = 2
    n = rnd.randint(3, 11)
    files = list(m.sources)     # usable as data inputs
    produced = []               # outputs of command statements
    aliases = []
    if rnd.random() < 0.12:     # a source that is also declared by a phony statement without inputs
        s = rnd.choice(m.sources)
        st = St("P_%s" % os.path.basename(s).split(".")[0], PHONY)
        st.outs = [s]
        m.sts[st.name] = st
        m.phony_sources.add(s)
    for i in range(n):
        if produced and rnd.random() < 0.2:
            st = St("A%d" % i, PHONY)
            st.outs = ["alias%d" % i]
            k = rnd.randint(1, min(3, len(produced)))
            st.ins = rnd.sample(produced, k)
            if aliases and rnd.random() < 0.25:
                st.ins.append(rnd.choice(aliases))
            if rnd.random() < 0.2:
                cand = [f for f in files if f not in st.ins]
                if cand:
                    st.imps = [rnd.choice(cand)]
            if rnd.random() < 0.2:
                cand = [f for f in produced if f not in st.ins + st.imps]
                if cand:
                    st.oos = [rnd.choice(cand)]
            m.sts[st.name] = st
            aliases.append(st.outs[0])
            continue
        st = new_cmd(rnd, m, "B%d" % i, files, produced, aliases)
        m.sts[st.name] = st
        files += st.outs
        produced += st.outs
    if rnd.random() < 0.5:
        cands = produced + aliases
        m.defaults = rnd.sample(cands, min(len(cands), rnd.randint(1, 2)))
    return m


def new_cmd(rnd, m, name, files, produced, aliases):
    st = St(name, CMD)
    nout = 1 if rnd.random() < 0.7 else (2 if rnd.random() < 0.8 else 3)
    sub = "out/sub/" if rnd.random() < 0.2 else "out/"
    st.outs = ["%s%s_%d.o" % (sub, name.lower(), j) for j in range(nout)]
    st.ins = rnd.sample(files, rnd.randint(1, min(3, len(files))))
    if aliases and rnd.random() < 0.08:
        st.ins.append(rnd.choice(aliases))
    rest = [f for f in files if f not in st.ins]
    if rest and rnd.random() < 0.4:
        st.imps = rnd.sample(rest, rnd.randint(1, min(2, len(rest))))
    if aliases and rnd.random() < 0.35:
        a = rnd.choice(aliases)
        if a not in st.ins:
            st.imps.append(a)
    if rnd.random() < 0.4:
        cand = [f for f in produced + aliases if f not in st.ins + st.imps]
        if cand:
            st.oos = rnd.sample(cand, rnd.randint(1, min(2, len(cand))))
    if rnd.random() < 0.05:
        cand = [f for f in m.sources if f not in st.ins + st.imps + st.oos]
        if cand:
            st.oos.append(rnd.choice(cand))
    st.salt = "s%d" % rnd.randint(0, 3)
    if rnd.random() < 0.3:
        st.reads_file = "src/%s.reads" % name
        st.imps.append(st.reads_file)
        if rnd.random() < 0.5 and not any(m.producer(f) is not None and m.producer(f).kind == CMD for f in st.oos):
            # the generated-header pattern: order after the generator, read the header, report it through the depfile (see gen_reads)
            cand = [f for f in produced if f not in st.ins + st.imps + st.oos]
            if cand:
                st.oos.append(rnd.choice(cand))
    x = rnd.random()
    if x < 0.22:
        st.restat = True
        st.keep_same = rnd.random() < 0.7
    elif x < 0.30:
        st.generator = True
    elif x < 0.36:
        st.keep_same = True     # helper keeps unchanged outputs although the rule has no restat
    if m.pools and rnd.random() < 0.35:
        st.pool = rnd.choice(list(m.pools))
    elif rnd.random() < 0.05:
        st.pool = "console"
    st.sleep_ms = rnd.choice([0, 0, 0, 0, 5, 15, 30])
    pending = [f for f in m.late if f not in m.sources]
    if pending and rnd.random() < 0.25:
        st.undecl = [rnd.choice(pending)]
    return st


def gen_reads(rnd, m, st):
    """Undeclared reads of a deps statement: headers, and (classic generated-header pattern) a produced file that is ALSO an order-only input."""
    reads = rnd.sample(m.headers, rnd.randint(0, len(m.headers)))
    gen = [f for f in st.oos if m.producer(f) is not None and m.producer(f).kind == CMD]
    for g in gen:
        if rnd.random() < 0.7:
            reads.append(g)
    # a plain source file that is an order-only input and is nevertheless read (reported through the depfile only)
    for f in st.oos:
        if m.producer(f) is None and f in m.sources and f not in m.phony_sources and rnd.random() < 0.5:
            reads.append(f)
    return reads
