"""C16 - every job runs exactly once within the lane limit; every process accounted for (DESIGN.md section 4, C16).

harness/queuemon.cpp (tsan and asan flavors, public API only) records every client-boundary event of generated job mixes and
child behaviours (harness/qchild.c) on the lane-based and serial execution queues and judges the log offline; this driver
shards the profiles over the cores, resumes a shard after a sanitizer abort or a watchdog exit, collects ThreadSanitizer
reports, and runs one small workload under strace fault injection (poll -> ENOMEM)."""
import json, os, re, shutil, signal, subprocess, tempfile, threading, time
import vlib

LIBS = ["llbuildBasic", "llvmSupport"]
TSAN_ENV = {"TSAN_OPTIONS": "halt_on_error=0:exitcode=0:second_deadlock_stack=1:report_signal_unsafe=0"}

# (profile, cases quick, cases thorough) per flavor; counts are totals split over shards
PLAN = [
    # profile        quick  thorough
    ("jobs",         480,   18000),
    ("procs",        320,   12000),
    ("cancel",       240,   9000),
    ("cancelkill",    20,     400),
    ("releasekill",   12,     240),
    ("cancelcompl",   48,    1800),
    ("faults",       160,   6000),
    ("release",      240,   9000),
    ("env",          120,   3600),
    ("envreserved",   32,    900),
    ("storm",         96,   3600),
]
SUM_KEYS = ["cases", "events", "jobs_submitted", "jobs_executed_once", "launches", "real_children", "output_bytes", "output_callbacks",
            "status_Succeeded", "status_Failed", "status_Cancelled", "spawn_error_launches", "spawn_error_failed", "fd_exhaustion_failures",
            "children_not_spawned", "lane_released_observed", "cases_with_cancel", "children_alive_at_cancel", "launches_after_cancel",
            "launches_after_cancel_cancelled", "hanging_children_interrupted_and_reaped", "hanging_children_needing_sigkill_reaped", "released_children_needing_sigkill_reaped", "escalation_thread_starts_delayed", "released_children_needing_sigkill_alive_when_the_queue_is_destroyed_after_cancel",
            "env_children", "storm_signals", "cases_reaching_lane_limit", "exit_code_raw_wait_status", "exit_code_decoded",
            "output_prefix_of_cancelled_child", "injected_management_errors", "suppressed_duplicate_violations"]


def build_child():
    os.makedirs(vlib.HBIN, exist_ok=True)
    out = os.path.join(vlib.HBIN, "qchild")
    src = os.path.join(vlib.VERIF, "harness", "qchild.c")
    if not os.path.exists(out) or os.stat(out).st_mtime < os.stat(src).st_mtime:
        r = vlib.sh(["cc", "-O1", "-static", "-o", out + ".tmp%d" % os.getpid(), src])
        if r.returncode != 0:
            raise vlib.HarnessFailure("qchild failed to compile:\n" + r.stdout[-3000:])
        os.rename(out + ".tmp%d" % os.getpid(), out)
    return out


_HANG_LOCK = threading.Lock()
_HANGS_CONFIRMED = set()


def _proc_info(pid):
    try:
        st = open("/proc/%s/stat" % pid).read()
        comm = st[st.index("(") + 1:st.rindex(")")]
        rest = st[st.rindex(")") + 2:].split()
        argv0 = open("/proc/%s/cmdline" % pid, "rb").read().split(b"\0")[0].decode("utf-8", "replace")
        return comm, int(rest[1]), argv0, rest[0]
    except (OSError, ValueError, IndexError):
        return None


def kill_orphans(child):
    """Helper children whose harness is gone (abort, watchdog exit) would sleep forever, and because llbuild does not mark
    its descriptors close-on-exec they keep the dead harness's pipes (and the sanitizer's symbolizer) alive.  llbuild gives
    every child its own process group, so the driver's killpg() does not reach them.  Only processes running THIS helper
    path whose parent is not a living harness are touched."""
    n = 0
    for pid in os.listdir("/proc"):
        if not pid.isdigit():
            continue
        info = _proc_info(pid)
        if not info or info[2] != child:
            continue
        par = _proc_info(info[1])
        if par and par[0].startswith("queuemon") and par[3] != "Z":
            continue
        try:
            os.kill(int(pid), signal.SIGKILL)
            n += 1
        except OSError:
            pass
    return n


def run_harness(cmd, timeout, env, child, wrapped=False):
    """Like vlib.run_child, but output goes to files (a leaked descriptor in an orphan must not keep us waiting for EOF),
    orphaned helper children are removed as soon as the harness is gone, and under strace -f (which would keep waiting
    for the orphans) the harness's death is noticed from /proc."""
    e = dict(os.environ)
    e.update(vlib.SAN_ENV)
    e.update(env or {})
    os.makedirs(vlib.SCRATCH, exist_ok=True)
    outf = tempfile.TemporaryFile(dir=vlib.SCRATCH)
    errf = tempfile.TemporaryFile(dir=vlib.SCRATCH)
    try:
        p = subprocess.Popen(cmd, stdout=outf, stderr=errf, stdin=subprocess.DEVNULL, env=e, start_new_session=True)
    except OSError as ex:
        raise vlib.HarnessFailure("cannot start %r: %s" % (cmd, ex))
    t0 = time.time()
    gone_since = None
    timed_out = False
    while p.poll() is None:
        time.sleep(0.05 if time.time() - t0 < 5 else 0.25)
        if wrapped:
            alive = False
            for pid in os.listdir("/proc"):
                if pid.isdigit():
                    info = _proc_info(pid)
                    if info and info[1] == p.pid and info[0].startswith("queuemon") and info[3] != "Z":
                        alive = True
                        break
            if alive:
                gone_since = None
            else:
                gone_since = gone_since or time.time()
                if time.time() - gone_since > 1.0:
                    kill_orphans(child)
        if time.time() - t0 > timeout:
            timed_out = True
            try:
                os.killpg(p.pid, signal.SIGKILL)
            except OSError:
                pass
            p.wait()
    if p.returncode != 0:
        kill_orphans(child)
    outf.seek(0)
    errf.seek(0)
    return (-9 if timed_out else p.returncode), outf.read(), errf.read(), timed_out


def _short(fn):
    lam = "lambda" in fn or "$_" in fn
    fn = fn.replace("(anonymous namespace)::", "")
    fn = re.sub(r"^(void|bool|int|unsigned|auto) ", "", fn)
    fn = re.split(r"[(<]", fn, 1)[0].strip()
    return (fn[-60:] or "?") + ("::<lambda>" if lam else "")


def _repo_frames(text, limit):
    names = []
    for line in text.splitlines():
        m = re.match(r"\s*#\d+ (?:0x[0-9a-f]+ in )?(.+?) (/[^\s:]+)(?::\d+)*(?: \(.*)?$", line)
        if not m or not m.group(2).startswith(vlib.REPO.rstrip("/") + "/"):
            continue
        tag = "%s[%s]" % (_short(m.group(1)), os.path.basename(m.group(2)))
        if tag not in names:
            names.append(tag)
        if len(names) >= limit:
            break
    return names


def asan_key(err):
    """Structural key for an ASan/UBSan/assert abort: kind + first frames inside /repo (no addresses)."""
    m = re.search(r"Assertion [^\n]* failed", err)
    if m:
        at = err.index(m.group(0))
        return "abort: %s @ %s" % (m.group(0)[:160], " < ".join(_repo_frames(err[at:at + 30000], 3))), err[max(0, at - 300):at + 6000]
    m = re.search(r"ERROR: AddressSanitizer: (\S+)", err)
    if m:
        at = err.index(m.group(0))
        return "asan: %s @ %s" % (m.group(1), " < ".join(_repo_frames(err[at:at + 30000], 3))), err[at:at + 7000]
    m = re.search(r"runtime error: [^\n]*", err) or re.search(r"LLVM ERROR: [^\n]*", err)
    if m:
        at = err.index(m.group(0))
        return "abort: %s @ %s" % (m.group(0)[:160], " < ".join(_repo_frames(err[at:at + 30000], 3))), err[max(0, at - 300):at + 6000]
    return None, err[-5000:]


def tsan_reports(err):
    """[(key, case, text)] for every ThreadSanitizer report in a shard's stderr, attributed to the last @case marker before it.
    'thread leak' reports are dropped: they are produced by the watchdog's _exit() with threads still running, and threads
    left behind by the queue are judged by the harness's own /proc/self/task monitor."""
    res = []
    case = None
    block = None
    for line in err.splitlines():
        m = re.match(r"@case (\d+)", line)
        if m and block is None:
            case = int(m.group(1))
            continue
        if line.startswith("WARNING: ThreadSanitizer:"):
            block = [line]
            continue
        if block is not None:
            if m:
                continue
            block.append(line)
            if line.startswith("SUMMARY: ThreadSanitizer"):
                text = "\n".join(block)
                kind = re.match(r"WARNING: ThreadSanitizer: ([^(]*)", block[0]).group(1).strip()
                if kind != "thread leak":
                    res.append(("tsan: %s @ %s" % (kind, " < ".join(_repo_frames(text, 4))), case, text[:7000]))
                block = None
    return res


def run_range(binp, flavor, profile, seed, lo, hi, child, sd, thorough, tag, watchdog_ms, wrap=None, extra=None):
    """Runs cases [lo,hi) of one profile in one harness process, resuming after an abort or a watchdog exit.
    Returns dict(recs=[json records], events=[(kind, info)])"""
    recs, events = [], []
    guard = 0
    hangs_here = 0
    env = dict(TSAN_ENV) if flavor == "tsan" else {}
    while lo < hi and guard < 40:
        guard += 1
        d = os.path.join(sd, "%s-%s-%d" % (tag, profile, lo))
        base = [binp, "--profile", profile, "--seed", str(seed), "--from", str(lo), "--count", str(hi - lo), "--child", child, "--dir", d,
                "--watchdog-ms", str(watchdog_ms)] + (["--thorough"] if thorough else []) + (extra or [])
        cmd = (wrap or []) + base
        rc, out, err, to = run_harness(cmd, 3600 if thorough else 1200, env, child, wrapped=bool(wrap))
        e = err.decode("utf-8", "replace")
        rr = vlib.parse_jsonl(out)
        for r in rr:
            if "viol" in r and isinstance(r.get("witness"), dict):
                r["witness"]["cmd"] = " ".join([binp] + r["witness"].get("replay_args", "").split() + ["--child", child, "--dir", os.path.join(vlib.SCRATCH, "c16-replay"), "--watchdog-ms", str(watchdog_ms)])
                r["witness"]["flavor"] = flavor
                if wrap:
                    r["witness"]["wrapped_by"] = " ".join(wrap)
        if flavor == "tsan":
            for key, case, text in tsan_reports(e):
                events.append(("tsan", dict(key=key, case=case, text=text, cmd=" ".join(base))))
        last = None
        m = re.findall(r"@case (\d+)", e)
        if m:
            last = int(m[-1])
        if rc == 0 and not to:
            recs += rr
            break
        if to:
            recs += [r for r in rr if "viol" in r and not r["viol"].startswith("hang:")]
            events.append(("walltimeout", dict(cmd=" ".join(cmd), case=last)))
        elif rc == 3:  # the harness's logical watchdog: believe it only when it fires again on the same case alone
            hang = [r for r in rr if "viol" in r and r["viol"].startswith("hang:")]
            hangs_here += 1
            if hangs_here > 2 and last is not None:  # a third hang in one piece: the verdict is known, stop paying for it
                recs += [r for r in rr if not ("viol" in r and r["viol"].startswith("hang:"))] + hang[:1]
                events.append(("abandoned", dict(cases=hi - last - 1)))
                break
            recs += [r for r in rr if not ("viol" in r and r["viol"].startswith("hang:"))]
            one = (wrap or []) + [binp, "--profile", profile, "--seed", str(seed), "--case", str(last), "--child", child, "--dir", d + "r",
                                  "--watchdog-ms", str(watchdog_ms)] + (["--thorough"] if thorough else []) + (extra or [])
            hkey = hang[0]["viol"] if hang else "?"
            with _HANG_LOCK:
                known = hkey in _HANGS_CONFIRMED
            if known:  # this very hang already fired twice in this run: do not pay for another confirmation
                recs += hang[:1]
                lo = (last if last is not None else hi) + 1
                continue
            rc2, out2, err2, to2 = run_harness(one, 1200, env, child, wrapped=bool(wrap))
            if rc2 == 3:
                recs += hang[:1]
                with _HANG_LOCK:
                    _HANGS_CONFIRMED.add(hkey)
            elif rc2 != 0:
                recs += hang[:1]  # the re-run died another way: keep the hang witness, the crash is reported on the way
                events.append(("crash", dict(cmd=" ".join(one), rc=rc2, stderr=err2.decode("utf-8", "replace"), case=last)))
            else:
                # the case passes alone. A hang may depend on what the cases before it left behind in the process (thread start-up
                # latency, allocator state): repeat the very same piece up to that case; a second hang at the same case is believed
                again = (wrap or []) + [binp, "--profile", profile, "--seed", str(seed), "--from", str(lo), "--count", str(last - lo + 1), "--child", child, "--dir", d + "b",
                                        "--watchdog-ms", str(watchdog_ms)] + (["--thorough"] if thorough else []) + (extra or [])
                rc3, out3, err3, to3 = run_harness(again, 1200, env, child, wrapped=bool(wrap))
                m3 = re.findall(r"@case (\d+)", err3.decode("utf-8", "replace"))
                if rc3 == 3 and m3 and int(m3[-1]) == last:
                    for h in hang[:1]:
                        if isinstance(h.get("witness"), dict):
                            h["witness"]["cmd"] = " ".join(again)
                            h["witness"]["note"] = "hangs in this piece twice at the same case; the case alone passes"
                    recs += hang[:1]
                    with _HANG_LOCK:
                        _HANGS_CONFIRMED.add(hkey)
                else:
                    events.append(("watchdog-once", dict(cmd=" ".join(one), case=last)))
                recs += [r for r in vlib.parse_jsonl(out2) if "viol" in r]
        else:
            recs += rr
            events.append(("crash", dict(cmd=" ".join(cmd), rc=rc, stderr=e, case=last)))
        if last is None:
            break
        lo = last + 1
    return dict(recs=recs, events=events)


def run(tier, replay):
    chk = vlib.Check("C16", tier)
    th = tier == "thorough"
    child = build_child()
    bins = {fl: vlib.build_harness("queuemon", fl, ["queuemon.cpp"], libs=LIBS) for fl in ("tsan", "asan")}
    watchdog_ms = 60000 if th else 20000
    if replay:
        w = json.load(open(replay))["witness"]
        cmd = w.get("cmd", "").split()
        if not cmd:
            print("no cmd in witness")
            return 2
        if w.get("wrapped_by"):
            cmd = w["wrapped_by"].split() + cmd
        os.makedirs(vlib.SCRATCH, exist_ok=True)
        rc, out, err, to = run_harness(cmd, 1200, TSAN_ENV if w.get("flavor") == "tsan" else None, child, wrapped=(cmd[0] == "strace"))
        e = err.decode("utf-8", "replace")
        print(e[-3000:])
        bad = [r["viol"] for r in vlib.parse_jsonl(out) if "viol" in r] + [k for k, _, _ in tsan_reports(e)]
        if rc not in (0,):
            bad.append("exit status %d %s" % (rc, asan_key(e)[0] or ""))
        for b in bad:
            print("VIOLATION property=C16 replay=%s  # %s" % (replay, b))
        shutil.rmtree(os.path.join(vlib.SCRATCH, "c16-replay"), ignore_errors=True)
        return 1 if bad else 0

    sd = vlib.scratch_dir("c16")
    try:
        # ---- shard list: every profile on both flavors, split so that all cores stay busy
        tasks = []
        for prof, nq, nt in PLAN:
            n = nt if th else nq
            for fl in ("tsan", "asan"):
                pieces = max(1, min(n // 2, 16 if th else 8))
                per = (n + pieces - 1) // pieces
                for i in range(pieces):
                    lo, hi = i * per, min(n, (i + 1) * per)
                    if lo < hi:
                        tasks.append(dict(flavor=fl, profile=prof, lo=lo, hi=hi, wrap=None, extra=None))
        # background-task limit forced low: the "not allowed to release" path
        for fl in ("tsan", "asan"):
            tasks.append(dict(flavor=fl, profile="release", lo=100000, hi=100000 + (40 if th else 6), wrap=None, extra=["--bgmax", "1"]))
        # strace fault injection: the K-th poll() of every thread fails with ENOMEM
        for fl in ("tsan", "asan"):
            for k in ((1, 2, 3, 5, 8) if th else (1, 2)):
                tasks.append(dict(flavor=fl, profile="inject", lo=k * 10, hi=k * 10 + (6 if th else 2),
                                  wrap=["strace", "-f", "-qq", "-o", "/dev/null", "-e", "trace=poll", "-e", "inject=poll:error=ENOMEM:when=%d" % k], extra=None))
        # longest first
        weight = {"cancelkill": 9, "releasekill": 9, "storm": 5, "jobs": 4, "procs": 4, "inject": 3}
        tasks.sort(key=lambda t: -weight.get(t["profile"], 1) * (t["hi"] - t["lo"]) * (3 if t["flavor"] == "tsan" else 1))

        def one(t):
            tag = "%s%s" % (t["flavor"], "-inj" if t["wrap"] else "")
            t["t0"] = time.time()
            try:
                return t, run_range(bins[t["flavor"]], t["flavor"], t["profile"], chk.seed, t["lo"], t["hi"], child, sd, th, tag, watchdog_ms, wrap=t["wrap"], extra=t["extra"])
            finally:
                t["secs"] = time.time() - t["t0"]

        merged = {}
        distinct = set()
        per_profile = {}
        tsan_seen = {}
        injected_cases = 0
        for t, res in vlib.pmap(one, tasks, workers=2 * vlib.NCPU):
            for r in res["recs"]:
                if "viol" in r:
                    key = r["viol"]
                    if t["wrap"]:
                        key += " [poll() failing with ENOMEM injected]"
                    if t["extra"]:
                        key += " [LLBUILD_BACKGROUND_TASK_MAX=1]"
                    chk.violation(key, r.get("witness", {}))
                if "summary" in r:
                    s = r["summary"]
                    for k, v in s.items():
                        if isinstance(v, (int, float)):
                            merged[k] = merged.get(k, 0) + v
                    distinct.update(s.get("distinct", []))
                    pp = per_profile.setdefault("%s/%s" % (t["profile"], t["flavor"]), 0)
                    per_profile["%s/%s" % (t["profile"], t["flavor"])] = pp + int(s.get("cases", 0))
                    if t["wrap"]:
                        injected_cases += int(s.get("cases", 0))
                    if s.get("sample") and t["profile"] in ("procs", "cancel"):
                        chk.sample(s["sample"])
            for kind, info in res["events"]:
                if kind == "tsan":
                    n = tsan_seen.get(info["key"], 0)
                    tsan_seen[info["key"]] = n + 1
                    if n == 0:
                        chk.violation(info["key"], {"flavor": "tsan", "profile": t["profile"], "case": info["case"], "report": info["text"],
                                                    "cmd": info["cmd"].split(" --from ")[0] + " --case %s --child %s --dir %s --watchdog-ms %d%s" % (
                                                        info["case"], child, os.path.join(vlib.SCRATCH, "c16-replay"), watchdog_ms,
                                                        (" " + " ".join(t["extra"])) if t["extra"] else "")})
                elif kind == "crash":
                    key, head = asan_key(info["stderr"])
                    key = key or ("crash: exit status %s" % info["rc"])
                    info["stderr"] = head
                    if t["wrap"]:
                        key += " [poll() failing with ENOMEM injected]"
                    chk.violation(key, {"flavor": t["flavor"], "profile": t["profile"], "case": info["case"], "cmd": info["cmd"], "rc": info["rc"],
                                        "stderr": info["stderr"]})
                elif kind == "walltimeout":
                    chk.inconclusive.append("outer wall-clock watchdog: %s (case %s)" % (info["cmd"], info["case"]))
                elif kind == "abandoned":
                    chk.cov["cases_abandoned_after_repeated_hangs"] = chk.cov.get("cases_abandoned_after_repeated_hangs", 0) + info["cases"]
                elif kind == "watchdog-once":
                    chk.cov["watchdog_fired_once_then_passed"] = chk.cov.get("watchdog_fired_once_then_passed", 0) + 1

        if os.environ.get("C16_TIMING"):
            for t in sorted(tasks, key=lambda t: -t.get("secs", 0))[:12]:
                vlib.log("%6.1fs %s %s [%d,%d) %s" % (t.get("secs", 0), t["flavor"], t["profile"], t["lo"], t["hi"], "strace" if t["wrap"] else ""))
        for k in SUM_KEYS:
            chk.cov[k] = int(merged.get(k, 0))
        chk.cov["cases_by_profile_and_flavor"] = per_profile
        chk.cov["cases_under_strace_poll_ENOMEM"] = injected_cases
        chk.cov["tsan_reports_by_key"] = tsan_seen
        chk.add(int(merged.get("jobs_executed_once", 0)) + int(merged.get("launches", 0)), len(distinct))
        need = {"real_children": 50, "lane_released_observed": 5, "children_alive_at_cancel": 5, "launches_after_cancel": 5, "fd_exhaustion_failures": 1,
                "storm_signals": 100, "injected_management_errors": 1, "env_children": 10, "spawn_error_failed": 5, "cases_reaching_lane_limit": 5}
        for k, v in need.items():
            if int(merged.get(k, 0)) < v:
                chk.inconclusive.append("monitor saw too little: %s=%d (< %d)" % (k, int(merged.get(k, 0)), v))
        chk.cov["rule"] = ("a case = one queue lifetime: generated forest of jobs (durations 0..2 ms, both priorities, jobs adding jobs, 0-2 extra submitter threads) "
                           "x queue (1/2/3/8 lanes x both schedulers, or the serial queue) x teardown (destroy right after the last completion, or right after "
                           "submitting) x cancellation (none / after K body or process starts / from inside a job) x children of a helper binary (volumes 0/1/4k/"
                           "64k/1M on stdout/stderr, exit 0..255, self-signal, early close, lane release and malformed control messages, SIGINT-ignoring, "
                           "environment dump) x faults (bad executables, descriptor exhaustion, SIGUSR1 storm, poll()->ENOMEM under strace); each case's event "
                           "log is judged offline by the monitors in DESIGN.md 4/C16; evaluations = job bodies + process launches judged; distinct_nontrivial = "
                           "distinct (behaviour class, observed status, lanes, released?, cancel-in-progress?, delegate kind) and (profile, queue, teardown, "
                           "cancel mode, lane limit reached?) tuples")
        chk.assumptions = ["child fate is the behaviour the helper was told to perform (not re-observed by a second waiter)",
                           "leftover children are looked for in /proc (ppid = harness, comm = qchild) because the sanitizer runtime may own a symbolizer child",
                           "LLBUILD_TEST=1 shortens the SIGKILL escalation to 1 s; only a few cases stage children that need it",
                           "timing-dependent windows (cancellation racing spawn, release racing destruction) are sampled, not enumerated"]
    finally:
        kill_orphans(child)
        shutil.rmtree(sd, ignore_errors=True)
    return chk.finish()
