"""C03 - build state survives restarts exactly (differential single-engine vs restart-per-build, M-db, version pairs, lock contest)."""
import shutil
import vlib, enginecommon as ec

KEYS = ["cases", "runs", "builds", "rules_executed", "rules_up_to_date", "provide_value_events", "prior_value_events", "restarts", "db_checks", "diff_compared"]


def run(tier, replay):
    chk = vlib.Check("C03", tier)
    if replay:
        return ec.replay(chk, replay)
    binp = ec.build("asan")
    sd = vlib.scratch_dir("c03")
    try:
        th = tier == "thorough"
        # lock contests cost 5 s each (SQLite busy timeout): run them first, concurrently, one per core
        nl = 4 if not th else 16
        ml = ec.run_profile(chk, binp, "c03l", nl, sd, label="lock")
        m = ec.run_profile(chk, binp, "c03", 3200 if not th else 30000, sd, thorough=th)
        mv = ec.run_profile(chk, binp, "c03v", 288 if not th else 288 * 8, sd, label="ver")
        ec.fold(chk, m, KEYS)
        chk.cov["version_scenarios"] = int(mv.get("cases", 0))
        chk.cov["version_scenarios_distinct_mismatching"] = int(mv.get("distinct_nontrivial", 0))
        chk.cov["lock_contests"] = int(ml.get("distinct_nontrivial", 0))
        chk.add(int(m.get("builds", 0)) + int(mv.get("builds", 0)) + int(ml.get("builds", 0)), int(m.get("distinct_nontrivial", 0)))
        if int(ml.get("distinct_nontrivial", 0)) < 1:
            chk.inconclusive.append("no lock contest was actually staged")
        if int(m.get("diff_compared", 0)) < 1:
            chk.inconclusive.append("no differential comparison happened")
        chk.cov["rule"] = ("(a) every history is executed in one engine with a SQLite DB and again with a new engine + new BuildDB before every build; the "
                           "per-build traces (executed keys in order, prior values, provideValue events, result) must be identical; key names and values are hostile "
                           "(NUL, 0x80-0xFF, numeric-looking spellings, empty, 100 kB names, empty/odd values); (b) after every build a fresh BuildDB reader's "
                           "getKeysWithResult is compared with the observer's shadow (value, signature, epoch order, dependency list in request order with both flags); "
                           "(c) 6x6 client versions x 4 schema rewrites x recreate on/off; (d) lock contests: engine B builds while engine A is parked inside build(); "
                           "non-trivial = some build both skipped and re-ran rules after a mutation")
        chk.assumptions = ["restarts are in-process (new BuildEngine + new BuildDB on the same file); cross-process restarts are exercised by C04's child processes",
                           "sqlite3 library is uninstrumented"]
    finally:
        shutil.rmtree(sd, ignore_errors=True)
    return chk.finish()
