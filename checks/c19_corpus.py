"""C19 seed-corpus generator for the four libFuzzer targets (harness/fuzz/fz_*.cpp).

Everything is derived from VERIF_SEED. Sources:
  * every file under <repo>/tests/Ninja (manifests and their Inputs), with literal include/subninja targets
    resolved into the `#@file <name>` file-table format understood by fz_manifest;
  * a small grammar-based manifest generator (rules, builds, pools, defaults, bindings, $-escapes,
    continuations, CR/LF variants, include/subninja including self- and mutual inclusion);
  * generated Makefile-style dependency files and dependency-info files;
  * prefixes of all of the above (what an interrupted writer leaves behind).
Input layouts (see the harness sources): fz_lexer and fz_makedeps take a leading control byte.
"""
import hashlib, os, random, re

MARK = b"#@file "
MAX_LEN = 4096


def _tests_ninja(repo):
    root = os.path.join(repo, "tests", "Ninja")
    out = []
    for d, _, files in sorted(os.walk(root)):
        for f in sorted(files):
            p = os.path.join(d, f)
            try:
                b = open(p, "rb").read()
            except OSError:
                continue
            if b"\0" in b[:1] or len(b) == 0:
                continue
            out.append((p, b))
    return out


def _resolve_includes(path, data, depth=0):
    """main text + `#@file name` sections for literal include/subninja targets that exist next to the file."""
    table = []
    seen = set()

    def visit(p, b, d):
        for m in re.finditer(br"^(?:include|subninja)[ \t]+([^\s$]+)[ \t]*\r?$", b, re.M):
            name = m.group(1)
            if name in seen or d > 3:
                continue
            cand = os.path.join(os.path.dirname(path), name.decode("utf-8", "replace"))
            if os.path.isfile(cand):
                seen.add(name)
                sub = open(cand, "rb").read()
                table.append((name, sub))
                visit(cand, sub, d + 1)
    visit(path, data, depth)
    res = data
    for name, sub in table:
        if not res.endswith(b"\n"):
            res += b"\n"
        res += MARK + name + b"\n" + sub
    return res


def _prefixes(rng, b, k):
    """k truncations of b: cuts right before / right after bytes that start an escape or end a token, plus random cuts."""
    n = len(b)
    cand = set()
    for i, c in enumerate(b[:2048]):
        if c in b"$\\:|=#\n\r\0":
            cand.add(i)
            cand.add(i + 1)
    cand = sorted(c for c in cand if c < n)
    cuts = set(rng.sample(cand, min(len(cand), k)))
    for _ in range(max(1, k // 3)):
        if n:
            cuts.add(rng.randrange(n))
    return [b[:c] for c in sorted(cuts)]


# ------------------------------------------------------------------ manifest grammar

_IDS = ["cc", "link", "r", "a", "b", "x", "out", "in", "flags", "cflags", "command", "depfile", "deps", "description", "pool",
        "rspfile", "rspfile_content", "restat", "generator", "build.ninja", "sub.ninja", "inc", "phony", "console", "depth", "d-e.f_g", "9"]
_RULE_PARAMS = ["command", "depfile", "deps", "description", "generator", "pool", "restat", "rspfile", "rspfile_content"]


def _piece(rng):
    r = rng.random()
    if r < 0.30:
        return rng.choice(_IDS)
    if r < 0.42:
        return "$" + rng.choice(_IDS)
    if r < 0.52:
        return "${" + rng.choice(_IDS) + "}"
    if r < 0.60:
        return rng.choice(["$ ", "$:", "$$", "$\n  ", "$\r\n ", "$", "${", "${x", "$}", "$-", "$."])
    if r < 0.70:
        return rng.choice([" ", "\t", "  ", ":", "|", "||", "=", "#", "/", "..", "./", "//"])
    if r < 0.75:
        return rng.choice(["\xff", "\x80", "\xc3\xa9", "\x00", "\x7f", "\x0b", "\x0c"])
    return "".join(rng.choice("abcxyz_-./0189") for _ in range(rng.randrange(1, 6)))


def _val(rng, n=None):
    return "".join(_piece(rng) for _ in range(n if n is not None else rng.randrange(0, 6)))


def _path(rng):
    return "".join(_piece(rng) for _ in range(rng.randrange(1, 3))).replace(" ", "$ ").replace("\n", "") or "p"


def gen_manifest(rng, files=("build.ninja",)):
    nl = rng.choice(["\n", "\n", "\n", "\r\n", "\r"])
    ind = rng.choice(["  ", " ", "\t", "    "])
    out = []
    for _ in range(rng.randrange(1, 9)):
        k = rng.random()
        if k < 0.2:
            out.append("%s = %s%s" % (rng.choice(_IDS), _val(rng), nl))
        elif k < 0.4:
            out.append("rule %s%s" % (rng.choice(_IDS), nl))
            for _ in range(rng.randrange(0, 4)):
                p = rng.choice(_RULE_PARAMS + ["bogus"])
                v = _val(rng) if rng.random() < 0.7 else "$" + rng.choice(_RULE_PARAMS)
                out.append("%s%s = %s%s" % (ind, p, v, nl))
        elif k < 0.65:
            outs = " ".join(_path(rng) for _ in range(rng.randrange(1, 3)))
            ins = " ".join(_path(rng) for _ in range(rng.randrange(0, 3)))
            extra = ""
            if rng.random() < 0.3:
                extra += " | " + _path(rng)
            if rng.random() < 0.3:
                extra += " || " + _path(rng)
            out.append("build %s: %s %s%s%s" % (outs, rng.choice(_IDS), ins, extra, nl))
            for _ in range(rng.randrange(0, 3)):
                out.append("%s%s = %s%s" % (ind, rng.choice(_IDS), _val(rng), nl))
        elif k < 0.72:
            out.append("pool %s%s%sdepth = %s%s" % (rng.choice(_IDS), nl, ind, rng.choice(["1", "0", "-1", "x", "99999999999999999999", "$x"]), nl))
        elif k < 0.80:
            out.append("default %s%s" % (" ".join(_path(rng) for _ in range(rng.randrange(0, 3))), nl))
        elif k < 0.92:
            out.append("%s %s%s" % (rng.choice(["include", "subninja"]), rng.choice(list(files) + ["missing.ninja", "$x", ""]), nl))
        elif k < 0.96:
            out.append("# %s%s" % (_val(rng), nl))
        else:
            out.append(_val(rng) + nl)
    s = "".join(out)
    if rng.random() < 0.3:
        s = s.rstrip("\r\n")
    return s.encode("latin-1", "replace")


def gen_table(rng):
    names = ["build.ninja"] + rng.sample(["sub.ninja", "inc", "a", "x", "d/e.ninja"], rng.randrange(0, 3))
    res = gen_manifest(rng, names)
    for n in names[1:]:
        if not res.endswith(b"\n"):
            res += b"\n"
        res += MARK + n.encode() + b"\n" + gen_manifest(rng, names)
    return res


# ------------------------------------------------------------------ dependency files

def _dep_word(rng):
    w = []
    for _ in range(rng.randrange(1, 5)):
        r = rng.random()
        if r < 0.55:
            w.append("".join(rng.choice("abcdefgh/._-+0123") for _ in range(rng.randrange(1, 8))))
        elif r < 0.85:
            w.append(rng.choice(["\\ ", "\\#", "\\\\", "$$", "\\x", "\\:", ":", "$", "%", "\\\t", "\\\\\\ "]))
        else:
            w.append(rng.choice(["\xff", "\x80", "\x00", "C:/", "c:\\"]))
    return "".join(w)


def gen_makedeps(rng):
    nl = rng.choice(["\n", "\n", "\r\n"])
    out = []
    for _ in range(rng.randrange(1, 4)):
        if rng.random() < 0.2:
            out.append("# " + _dep_word(rng) + nl)
        line = _dep_word(rng) + rng.choice([":", " :", ": ", ":  ", " ", "::"])
        for _ in range(rng.randrange(0, 6)):
            line += rng.choice([" ", "  ", "\t", " \\" + nl + "  ", " \\" + nl, "\\" + nl]) + _dep_word(rng)
        out.append(line + rng.choice([nl, nl, nl + nl, "", " \\" + nl, "\\"]))
    return "".join(out).encode("latin-1", "replace")


def gen_depinfo(rng):
    out = b""
    ops = [0x00, 0x10, 0x10, 0x10, 0x11, 0x40, 0x40]
    first = True
    for _ in range(rng.randrange(0, 7)):
        op = 0x00 if (first and rng.random() < 0.85) else rng.choice(ops + [rng.randrange(256)])
        first = False
        s = "".join(rng.choice("abc/._ld64-0129") for _ in range(rng.randrange(0, 12))) if rng.random() < 0.9 else ""
        out += bytes([op]) + s.encode() + (b"\0" if rng.random() < 0.95 else b"")
    if rng.random() < 0.15:
        out += bytes([rng.choice(ops)])
    return out


# ------------------------------------------------------------------ entry point

def _write_all(d, items):
    os.makedirs(d, exist_ok=True)
    seen = set()
    for b in items:
        b = b[:MAX_LEN]
        h = hashlib.sha1(b).hexdigest()
        if h in seen:
            continue
        seen.add(h)
        with open(os.path.join(d, h), "wb") as f:
            f.write(b)
    return len(seen)


def generate(repo, outdir, seed, tier):
    """Writes <outdir>/<target>/ seed corpora and <outdir>/<target>.dict; returns {target: number of seeds}."""
    rng = random.Random(seed * 7919 + 19)
    thorough = tier == "thorough"
    tests = _tests_ninja(repo)
    n_gen = 150 if not thorough else 400
    k = 3 if not thorough else 6

    man_full = [b for _, b in tests] + [_resolve_includes(p, b) for p, b in tests if re.search(br"^(include|subninja)\b", b, re.M)]
    man_full += [gen_manifest(rng) for _ in range(n_gen)] + [gen_table(rng) for _ in range(n_gen)]
    # hand-picked structural seeds: self inclusion, mutual inclusion, rule variables that refer to each other
    man_full += [b"include build.ninja\n", b"subninja build.ninja\n",
                 b"include a\n" + MARK + b"a\ninclude b\n" + MARK + b"b\nsubninja a\n",
                 b"rule r\n  command = $description\n  description = $command\nbuild o: r i\n",
                 b"x = 1\nrule cc\n  command = cc $in -o $out $x\n  depfile = $out.d\n  deps = gcc\nbuild a.o: cc a.c | h || o\n  x = 2\ndefault a.o\npool p\n  depth = 2\n"]
    manifest = []
    for b in man_full:
        manifest.append(b)
        manifest += _prefixes(rng, b, k)

    lexer = []
    for i, b in enumerate(man_full):
        body = b.split(b"\n" + MARK)[0]
        ctrls = [0, 1, 2, 3, 4 + (i & 3)] if i % 3 == 0 else [(i * 5 + 1) & 7]
        for c in ctrls:
            lexer.append(bytes([c]) + body)
        for p in _prefixes(rng, body, k):
            lexer.append(bytes([rng.randrange(8)]) + p)

    mk_full = [gen_makedeps(rng) for _ in range(2 * n_gen)]
    mk_full += [b"a.o: a.c a.h \\\n  b.h\n", b"out: in\\ 1 in\\#2 in$$3 \\\\x\n", b"a: b\r\nc: d \\\r\n e\r\n", b"# comment\nx : y:z\n"]
    makedeps = []
    for i, b in enumerate(mk_full):
        makedeps.append(bytes([i & 1]) + b)
        for p in _prefixes(rng, b, k):
            makedeps.append(bytes([rng.randrange(2)]) + p)

    di_full = [gen_depinfo(rng) for _ in range(2 * n_gen)]
    di_full += [b"\0ld64-1\0\x10/in\0\x11/missing\0\x40/out\0"]
    depinfo = []
    for b in di_full:
        depinfo.append(b)
        depinfo += _prefixes(rng, b, k)

    counts = {
        "fz_manifest": _write_all(os.path.join(outdir, "fz_manifest"), manifest),
        "fz_lexer": _write_all(os.path.join(outdir, "fz_lexer"), lexer),
        "fz_makedeps": _write_all(os.path.join(outdir, "fz_makedeps"), makedeps),
        "fz_depinfo": _write_all(os.path.join(outdir, "fz_depinfo"), depinfo),
    }
    ninja_dict = ["build", "rule", "pool", "default", "include", "subninja", "command", "depfile", "deps", "description", "generator",
                  "restat", "rspfile", "rspfile_content", "depth", "phony", "console", "gcc", "msvc", "$in", "$out", "$in_newline",
                  "${", "}", "$\\x0a", "$\\x0d\\x0a", "$$", "$ ", "$:", " | ", " || ", ": ", " = ", "\\x0a  ", "\\x0d\\x0a", "#", "build.ninja",
                  "#@file ", "\\x0a#@file a\\x0a", "include build.ninja\\x0a", "subninja a\\x0a", "\\xff"]
    with open(os.path.join(outdir, "ninja.dict"), "w") as f:
        for w in ninja_dict:
            f.write('"%s"\n' % w.replace('"', '\\"'))
    with open(os.path.join(outdir, "makedeps.dict"), "w") as f:
        for w in ["\\\\\\x0a", "\\\\\\x0d\\x0a", "\\\\ ", "\\\\#", "\\\\\\\\", "$$", ": ", ":", "#", "\\x0a", "\\x0d\\x0a"]:
            f.write('"%s"\n' % w)
    with open(os.path.join(outdir, "depinfo.dict"), "w") as f:
        for w in ["\\x00", "\\x10", "\\x11", "\\x40", "\\x00v\\x00", "\\x10a\\x00", "\\x40b\\x00"]:
            f.write('"%s"\n' % w)
    return counts
