"""C19 shape generator for build-description files (`llbuild buildsystem parse`).

Emits WELL-FORMED YAML documents only (the property quantifies over well-formed documents of any shape): a tiny
document model (map with ordered, possibly duplicate keys / seq / scalar / null) and two emitters, JSON-style flow
(JSON is a YAML subset) and conservative block style (double-quoted or plain-safe scalars, `? key` form for
non-scalar keys). Shapes: valid descriptions; every position of a description replaced by every other node
kind; missing / duplicate / misordered / unknown sections; command-specific shapes (tool key missing, late,
wrong kind, duplicate commands and keys); deep nesting; huge scalars; many entries; several documents, empty
documents, anchors / aliases / tags. Everything derives from the seed.
"""
import hashlib, json, random, sys
sys.setrecursionlimit(20000)

# ---------------------------------------------------------------- model helpers
def S(x): return ("str", str(x))
def M(*pairs): return ("map", [(k if isinstance(k, tuple) else S(k), v) for k, v in pairs])
def L(*items): return ("seq", list(items))
NULL = ("null",)

_PLAIN_OK = set("abcdefghijklmnopqrstuvwxyzABCDEFGHIJKLMNOPQRSTUVWXYZ0123456789_./")


def _scalar(s, rng):
    if s and all(c in _PLAIN_OK for c in s) and not s[0].isdigit() and s not in ("null", "true", "false", "yes", "no") and rng.random() < 0.5:
        return s
    return json.dumps(s)          # double-quoted, JSON escapes are YAML escapes


def flow(n, rng):
    k = n[0]
    if k == "str":
        return _scalar(n[1], rng)
    if k == "null":
        return "null"
    if k == "seq":
        return "[" + ", ".join(flow(x, rng) for x in n[1]) + "]"
    parts = []
    for key, val in n[1]:
        # implicit keys (scalar or JSON-like flow collection, single line, < 1024 characters: emit() guarantees it);
        # the vendored YAML parser does not accept the explicit `? key : value` form inside flow mappings
        parts.append((json.dumps(key[1]) if key[0] == "str" else flow(key, rng)) + ": " + flow(val, rng))
    return "{" + ", ".join(parts) + "}"


def block(n, rng, ind=0):
    """Returns a list of lines (without indentation of the first level applied by the caller)."""
    pad = " " * ind
    k = n[0]
    if k == "str":
        return [pad + _scalar(n[1], rng)]
    if k == "null":
        return [pad + "~"]
    if k == "seq":
        if not n[1]:
            return [pad + "[]"]
        out = []
        for x in n[1]:
            if x[0] in ("str", "null") or not x[1]:
                out.append(pad + "- " + block(x, rng, 0)[0])
            else:
                out.append(pad + "-")
                out += block(x, rng, ind + 2)
        return out
    if not n[1]:
        return [pad + "{}"]
    out = []
    for key, val in n[1]:
        if key[0] == "str" and len(key[1]) <= 256:
            head = pad + json.dumps(key[1]) + ":"
        elif key[0] == "str":          # an implicit key may not be longer than 1024 characters: explicit form
            out.append(pad + "? " + json.dumps(key[1]))
            head = pad + ":"
        else:
            out.append(pad + "?")
            out += block(key, rng, ind + 2)
            head = pad + ":"
        if val[0] in ("str", "null") or not val[1]:
            out.append(head + " " + block(val, rng, 0)[0])
        else:
            out.append(head)
            out += block(val, rng, ind + 2)
    return out


def _has_long_key(n):
    if n[0] == "map":
        return any((k[0] == "str" and len(k[1]) > 256) or (k[0] != "str" and len(flow(k, random.Random(0))) > 256) or _has_long_key(k) or _has_long_key(v)
                   for k, v in n[1])
    if n[0] == "seq":
        return any(_has_long_key(x) for x in n[1])
    return False


def emit(n, rng, style=None):
    style = style or rng.choice(["flow", "block", "block"])
    if style == "flow" and _has_long_key(n):
        style = "block"
    if style == "flow":
        return flow(n, rng) + "\n"
    return "\n".join(block(n, rng)) + "\n"


# ---------------------------------------------------------------- valid descriptions
_TOOLS = ["shell", "phony", "clang", "mkdir", "symlink", "archive", "stale-file-removal", "swift-compiler", "nonexistent-tool", ""]
_ATTRS = ["args", "env", "deps", "deps-style", "allow-missing-inputs", "inherit-env", "always-out-of-date", "working-directory",
          "control-enabled", "signature", "can-safely-interrupt", "roots", "expectedOutputs", "content-exclusion-patterns", "is-mutated",
          "is-command-timestamp", "is-directory", "is-virtual", "type", "bogus-attribute", ""]


def _name(rng):
    return rng.choice(["a", "b", "out", "<all>", "<t>", "/tmp/x", "dir/", "dir/sub/", "dir/sub/file", "", " ", "C1", "\u00e9", "a\nb", "x" * 40])


def _attr_value(rng):
    r = rng.random()
    if r < 0.5:
        return S(rng.choice(["true", "false", "yes", "1", "echo hi", "", "makefile", "directory", "x"]))
    if r < 0.8:
        return L(*[S(_name(rng)) for _ in range(rng.randrange(0, 4))])
    return M(*[(rng.choice(["K", "PATH", "", "a"]), S(_name(rng))) for _ in range(rng.randrange(0, 3))])


def valid_doc(rng):
    client = [("name", S(rng.choice(["basic", "swift-build", "x", ""]))), ("version", S(rng.choice(["0", "1", "7", "4294967295"])))]
    if rng.random() < 0.4:
        client.append(("perform-ownership-analysis", S(rng.choice(["yes", "no"]))))
    if rng.random() < 0.3:
        client.append((rng.choice(["file-system", "prop"]), S(rng.choice(["default", "device-agnostic", "checksum-only", "v"]))))
    secs = [("client", M(*client))]
    if rng.random() < 0.6:
        secs.append(("tools", M(*[(rng.choice(_TOOLS), M(*[(rng.choice(_ATTRS), _attr_value(rng)) for _ in range(rng.randrange(0, 3))]))
                                   for _ in range(rng.randrange(0, 3))])))
    tnames = [rng.choice(["", "all", "t", "x y"]) for _ in range(rng.randrange(0, 3))]
    if rng.random() < 0.7:
        secs.append(("targets", M(*[(t, L(*[S(_name(rng)) for _ in range(rng.randrange(0, 4))])) for t in tnames])))
        if tnames and rng.random() < 0.5:
            secs.append(("default", S(rng.choice(tnames))))
    if rng.random() < 0.5:
        secs.append(("nodes", M(*[(_name(rng), M(*[(rng.choice(_ATTRS), _attr_value(rng)) for _ in range(rng.randrange(0, 3))]))
                                   for _ in range(rng.randrange(0, 4))])))
    if rng.random() < 0.85:
        cmds = []
        for i in range(rng.randrange(0, 5)):
            attrs = [("tool", S(rng.choice(_TOOLS)))]
            if rng.random() < 0.7:
                attrs.append(("inputs", L(*[S(_name(rng)) for _ in range(rng.randrange(0, 4))])))
            if rng.random() < 0.7:
                attrs.append(("outputs", L(*[S(_name(rng)) for _ in range(rng.randrange(0, 4))])))
            if rng.random() < 0.4:
                attrs.append(("description", S(rng.choice(["", "d", "x" * 30]))))
            for _ in range(rng.randrange(0, 3)):
                attrs.append((rng.choice(_ATTRS), _attr_value(rng)))
            cmds.append((rng.choice(["C%d" % i, "C0", "", "<cmd>"]), M(*attrs)))
        secs.append(("commands", M(*cmds)))
    return M(*secs)


# ---------------------------------------------------------------- mutations
def _kinds(rng):
    deep = S("leaf")
    for _ in range(rng.randrange(2, 7)):
        deep = L(deep) if rng.random() < 0.5 else M(("k", deep))
    return [S("scalar"), S(""), NULL, M(), L(), M(("k", S("v"))), L(S("i")), L(L()), L(M()), M(("k", L())), M(("k", M())),
            M((L(S("ck")), S("v"))), M((M(("a", S("b"))), S("v"))), deep]


def positions(n, path=()):
    """All node positions: ('v', i) value of entry i, ('k', i) key of entry i, ('i', i) item i."""
    yield path
    if n[0] == "map":
        for i, (k, v) in enumerate(n[1]):
            yield path + (("k", i),)
            for p in positions(v, path + (("v", i),)):
                yield p
    elif n[0] == "seq":
        for i, x in enumerate(n[1]):
            for p in positions(x, path + (("i", i),)):
                yield p


def replace_at(n, path, new):
    if not path:
        return new
    (t, i), rest = path[0], path[1:]
    if n[0] == "map":
        ents = list(n[1])
        k, v = ents[i]
        if t == "k":
            ents[i] = (replace_at(k, rest, new), v)
        else:
            ents[i] = (k, replace_at(v, rest, new))
        return ("map", ents)
    items = list(n[1])
    items[i] = replace_at(items[i], rest, new)
    return ("seq", items)


def _section_shapes(rng, doc):
    secs = doc[1]
    order = ["client", "tools", "targets", "default", "nodes", "commands"]
    have = {k[1]: v for k, v in secs}
    full = [(S(o), have.get(o, S("t") if o == "default" else M())) for o in order]
    out = []
    for mask in range(64):
        out.append(("sections-subset", ("map", [e for i, e in enumerate(full) if mask >> i & 1])))
    for i in range(6):
        for j in range(7):
            ents = list(full)
            ents.insert(j, full[i])
            out.append(("section-duplicate", ("map", ents)))
    for _ in range(40):
        ents = list(full)
        rng.shuffle(ents)
        out.append(("sections-permuted", ("map", ents)))
    for j in range(7):
        for unk in (S("bogus"), S(""), L(S("k")), NULL):
            ents = list(full)
            ents.insert(j, (unk, rng.choice(_kinds(rng))))
            out.append(("section-unknown", ("map", ents)))
    return out


def _command_shapes(rng):
    base = [("client", M(("name", S("basic"))))]
    def doc(cmds):
        return M(*(base + [("commands", ("map", cmds))]))
    tool = (S("tool"), S("shell"))
    out = [
        doc([(S("c"), M())]),
        doc([(S("c"), M(("inputs", L(S("a")))))]),
        doc([(S("c"), M(("inputs", L(S("a"))), ("tool", S("shell"))))]),
        doc([(S("c"), ("map", [(S("tool"), M())]))]),
        doc([(S("c"), ("map", [(S("tool"), L())]))]),
        doc([(S("c"), ("map", [(S("tool"), NULL)]))]),
        doc([(S("c"), ("map", [(L(S("tool")), S("shell"))]))]),
        doc([(S("c"), ("map", [tool, tool]))]),
        doc([(S("c"), ("map", [tool])), (S("c"), ("map", [tool]))]),
        doc([(L(S("c")), ("map", [tool]))]),
        doc([(M(), ("map", [tool])), (S("d"), ("map", [tool]))]),
        doc([(S("c"), S("scalar")), (S("d"), L()), (S("e"), NULL), (S("f"), ("map", [tool]))]),
    ]
    for key in ("inputs", "outputs", "description", "args", "env", ""):
        for val in _kinds(rng):
            out.append(doc([(S("c"), ("map", [tool, (S(key), val)]))]))
            out.append(doc([(S("c"), ("map", [tool, (S(key), L(val, S("ok"), val))]))]))
            out.append(doc([(S("c"), ("map", [tool, (S(key), M(("k", val), (val, S("v"))))]))]))
    # the same node used as an output of several commands, directory-looking names, ownership analysis on
    own = [("client", M(("name", S("basic")), ("perform-ownership-analysis", S("yes"))))]
    for names in (["d/", "d/x", "d"], ["", "/"], ["a", "a", "a/"], ["x" * 3000, "x" * 3000 + "/y"]):
        cmds = [(S("c%d" % i), ("map", [tool, (S("inputs"), L(*[S(n) for n in names])), (S("outputs"), L(*[S(n) for n in reversed(names)]))])) for i in range(3)]
        out.append(M(*(own + [("commands", ("map", cmds))])))
    return [("command-shape", d) for d in out]


def _nest(kind, depth, leaf):
    n = leaf
    for _ in range(depth):
        n = L(n) if kind == "seq" else M(("k", n))
    return n


def _big_shapes(rng, tier):
    out = []
    depths = [8, 32, 64, 128] if tier == "quick" else [8, 32, 64, 128, 256, 512]
    for d in depths:
        for kind in ("seq", "map"):
            deep = _nest(kind, d, S("x"))
            out.append(("deep-nesting", deep))                                     # as the root
            out.append(("deep-nesting", M(("client", deep))))
            out.append(("deep-nesting", M(("client", M(("name", S("basic")))), ("tools", M(("t", M(("a", deep))))))))
            out.append(("deep-nesting", M(("client", M(("name", S("basic")))), ("commands", M(("c", M(("tool", S("shell")), ("args", deep))))))))
    sizes = [1 << 12, 1 << 16, 1 << 20] if tier == "quick" else [1 << 12, 1 << 16, 1 << 20, 1 << 24]
    for sz in sizes:
        big = S("A" * sz)
        out.append(("huge-scalar", big))
        out.append(("huge-scalar", M(("client", M(("name", big), ("version", big))))))
        out.append(("huge-scalar", M((big, M()))))
        out.append(("huge-scalar", M(("client", M(("name", S("basic")))), ("targets", M((big, L(big, big)))), ("default", big),
                                     ("commands", M((big, M(("tool", big), ("inputs", L(big)), ("description", big), (big, big))))))))
    for cnt in ([1000] if tier == "quick" else [1000, 20000]):
        cmds = [("c%d" % i, M(("tool", S("shell")), ("inputs", L(S("n%d" % (i - 1)))), ("outputs", L(S("n%d" % i))))) for i in range(cnt)]
        out.append(("many-entries", M(("client", M(("name", S("basic")), ("perform-ownership-analysis", S("yes")))), ("commands", M(*cmds)))))
        out.append(("many-entries", M(("client", M(*[("k%d" % i, S("v")) for i in range(cnt)])))))
    return out


_RAW = [
    ("raw-stream", ""), ("raw-stream", "\n"), ("raw-stream", "# only a comment\n"), ("raw-stream", "---\n"), ("raw-stream", "---\n...\n"),
    ("raw-stream", "--- {}\n"), ("raw-stream", "{}\n"), ("raw-stream", "[]\n"), ("raw-stream", "~\n"), ("raw-stream", "\"\"\n"),
    ("raw-stream", "client:\n"), ("raw-stream", "client:\n  name: basic\n---\nclient:\n  name: basic\n"),
    ("raw-stream", "client:\n  name: basic\n---\n"), ("raw-stream", "client:\n  name: basic\n...\n---\n[]\n"),
    ("raw-stream", "%YAML 1.2\n---\nclient:\n  name: basic\n"),
    ("anchors-tags", "client: &a\n  name: basic\ntools: *a\n"), ("anchors-tags", "client: &a {name: basic}\ncommands: {c: *a}\n"),
    ("anchors-tags", "&r client: {name: basic}\n"), ("anchors-tags", "client: {name: basic}\ncommands:\n  c: {tool: &t shell, inputs: [*t, *t], *t : *t}\n"),
    ("anchors-tags", "!!map {client: !!map {name: !!str basic}}\n"), ("anchors-tags", "client: !foo {name: !bar basic}\ncommands: !!seq []\n"),
    ("block-scalars", "client:\n  name: |\n    basic\n  version: >\n    0\n"), ("block-scalars", "client:\n  name: basic\ncommands:\n  c:\n    tool: shell\n    args: |\n      echo\n      hi\n"),
    ("block-scalars", "client: {name: 'single ''quoted'''}\n"), ("block-scalars", "client: {name: \"esc \\x41 \\u00e9 \\t \\\\ \\\"\"}\n"),
]


def generate(seed, tier):
    """Returns a list of (category, text); texts are distinct."""
    rng = random.Random(seed * 104729 + 7)
    quick = tier == "quick"
    shapes = []
    bases = [valid_doc(rng) for _ in range(12 if quick else 60)]
    for b in bases:
        shapes.append(("valid", emit(b, rng, "flow")))
        shapes.append(("valid", emit(b, rng, "block")))
    # every position x every other kind (systematic on a few bases, sampled on the rest)
    for bi, b in enumerate(bases):
        pos = list(positions(b))
        kinds = _kinds(rng)
        combos = [(p, k) for p in pos for k in kinds]
        if quick and len(combos) > 110:
            combos = rng.sample(combos, 110)
        elif not quick and bi >= 10 and len(combos) > 400:
            combos = rng.sample(combos, 400)
        for p, k in combos:
            shapes.append(("wrong-kind-at-position", emit(replace_at(b, p, k), rng)))
    for b in bases[:2 if quick else 8]:
        for cat, d in _section_shapes(rng, b):
            shapes.append((cat, emit(d, rng)))
    for cat, d in _command_shapes(rng):
        shapes.append((cat, emit(d, rng)))
    for cat, d in _big_shapes(rng, tier):
        shapes.append((cat, emit(d, rng, "flow" if cat != "deep-nesting" or rng.random() < 0.5 else "block")))
    shapes += _RAW
    # random combinations of 2-4 replacements
    for _ in range(300 if quick else 20000):
        b = rng.choice(bases)
        for _ in range(rng.randrange(2, 5)):
            pos = list(positions(b))
            b = replace_at(b, rng.choice(pos), rng.choice(_kinds(rng)))
        shapes.append(("random-combination", emit(b, rng)))
    seen, out = set(), []
    for cat, text in shapes:
        h = hashlib.sha1(text.encode("utf-8", "surrogatepass")).digest()
        if h in seen:
            continue
        seen.add(h)
        out.append((cat, text))
    return out
