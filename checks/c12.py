"""C12 - directory-tree signatures change exactly when the tree changes (tree vs structure nodes, every spelling, exclusion patterns)."""
import os, shutil, json, random, fnmatch, ctypes, hashlib
import vlib, bslib
from bslib import Cmd

_libc = ctypes.CDLL(None)
_libc.fnmatch.argtypes = [ctypes.c_char_p, ctypes.c_char_p, ctypes.c_int]


def c_fnmatch(pattern, name):
    return _libc.fnmatch(pattern.encode(), name.encode(), 0) == 0


SPELLINGS = [
    # (node name, node attributes, kind). Directory nodes are named '<path>/' (the documented convention: a directory node named without the slash
    # would be the same node as the directory's own file node and the description is rejected with a cycle).
    ("tree/", None, "tree"),
    ("tree/", {"type": "directory"}, "tree"),
    ("tree/", {"is-directory": "true"}, "tree"),
    ("tree/", {"is-directory-structure": "true"}, "structure"),
    ("tree/", {"type": "directory-structure"}, "structure"),
    # the same with the node named by its absolute path
    ("ABS:tree/", None, "tree"),
    ("ABS:tree/", {"type": "directory-structure"}, "structure"),
]
PATTERN_SETS = [None, None, ["*.tmp"], ["skip*", "*.o"], ["x?z"], ["*.tmp", "skip*", "x?z"], ["*.o", "*.tmp"]]


def excluded(rel, patterns):
    """True when any component of rel (below the root) matches a pattern: such a path is hidden."""
    if not patterns:
        return False
    return any(c_fnmatch(p, comp) for comp in rel.split("/") for p in patterns)


class Tree:
    def __init__(self, sb, rnd):
        self.sb, self.rnd = sb, rnd
        self.files, self.dirs, self.links = set(), set(), set()
        self.n = 0

    def fresh(self, ext_pool):
        self.n += 1
        return self.rnd.choice(ext_pool) % self.n

    NAMES = ["f%d.c", "f%d.h", "g%d.tmp", "skip%d", "k%d.o", "xyz", "x%dz"[:3] + "z", "data%d"]

    def populate(self):
        rnd = self.rnd
        self.dirs.add("")
        frontier = [""]
        for depth in range(rnd.randint(1, 3)):
            nxt = []
            for d in frontier:
                for _ in range(rnd.randint(1, 3)):
                    name = self.newname()
                    rel = (d + "/" + name) if d else name
                    if rnd.random() < 0.35 and depth < 2:
                        os.makedirs(self.sb.p("tree/" + rel))
                        self.dirs.add(rel); nxt.append(rel)
                    else:
                        self.sb.write("tree/" + rel, "content of %s\n" % rel)
                        self.files.add(rel)
            frontier = nxt or frontier
        # sibling directories one of whose names is a character prefix of the other's (pre, pre-gen): a link from the longer-named one to
        # the shorter-named one does not point to a parent
        if rnd.random() < 0.5:
            for dname in ("pre", "pre-gen"):
                os.makedirs(self.sb.p("tree/" + dname)); self.dirs.add(dname)
                self.sb.write("tree/%s/m.c" % dname, "member of %s\n" % dname); self.files.add(dname + "/m.c")
            self.prefix_siblings = True
        # a symlink to a file outside the tree, and one to the tree root (a loop)
        self.sb.write("outside.txt", "outside\n")
        if rnd.random() < 0.5:
            os.symlink(self.sb.p("outside.txt"), self.sb.p("tree/link_out"))
            self.links.add("link_out")
        if rnd.random() < 0.3 and len(self.dirs) > 1:
            d = sorted(self.dirs)[-1]
            os.symlink(self.sb.p("tree"), self.sb.p("tree/" + d + "/loop"))
            self.links.add(d + "/loop")
        for d in sorted(self.dirs, key=len, reverse=True):
            self.sb.touch("tree/" + d if d else "tree")

    def newname(self):
        self.n += 1
        t = self.rnd.choice(["f%d.c", "f%d.h", "g%d.tmp", "skip%d", "k%d.o", "xyz%d", "x%dz", "data%d"])
        return t % self.n

    def retouch_dirs(self, rel):
        """Assign fresh explicit mtimes to the directories whose listing changed (they changed anyway)."""
        d = os.path.dirname(rel)
        self.sb.touch("tree/" + d if d else "tree")


EDITS = ["noop", "add_file", "add_dir", "remove_file", "remove_dir", "rename_file", "retype_file_to_dir", "retype_dir_to_file", "content_size", "content_same_size",
         "mtime_only", "replace_by_rename", "add_excluded", "content_excluded", "retarget_link", "add_file_deep", "add_keep_dir_mtime", "link_to_prefix_sibling",
         "add_dangling_link", "edit_beside_dangling_link", "edit_beside_dangling_link"]


def apply_edit(t, kind, patterns):
    """Returns (rel path touched, class) or None when not applicable. class: 'structural' | 'content' | 'none'."""
    rnd, sb = t.rnd, t.sb
    vis_files = sorted(f for f in t.files if not excluded(f, patterns))
    vis_dirs = sorted(d for d in t.dirs if d and not excluded(d, patterns))
    all_dirs = sorted(d for d in t.dirs if not excluded(d, patterns))
    if kind == "noop":
        return ("", "none")
    if kind in ("add_file", "add_file_deep"):
        d = (max(all_dirs, key=lambda x: x.count("/")) if kind == "add_file_deep" else rnd.choice(all_dirs))
        name = t.newname()
        rel = (d + "/" + name) if d else name
        if excluded(rel, patterns):
            return None
        sb.write("tree/" + rel, "new file\n"); t.files.add(rel); t.retouch_dirs(rel)
        return (rel, "structural")
    if kind == "add_keep_dir_mtime":
        # an entry appears but the containing directory's own stat record is put back (touch -r, a time-preserving extract):
        # only reading the listing again can notice it
        d = rnd.choice(all_dirs); name = t.newname()
        rel = (d + "/" + name) if d else name
        if excluded(rel, patterns):
            return None
        dpath = sb.p("tree/" + d if d else "tree")
        st = os.stat(dpath)
        if rnd.random() < 0.5:
            sb.write("tree/" + rel, "new file\n"); t.files.add(rel)
        else:
            rel = rel.replace(".", "_"); os.makedirs(sb.p("tree/" + rel)); t.dirs.add(rel); sb.touch("tree/" + rel)
        os.utime(dpath, ns=(st.st_atime_ns, st.st_mtime_ns))
        st2 = os.stat(dpath)
        if (st2.st_mtime_ns, st2.st_size, st2.st_ino) != (st.st_mtime_ns, st.st_size, st.st_ino):
            return (rel, "structural")   # the file system changed the record anyway; still a structural change
        return (rel, "structural")
    if kind == "link_to_prefix_sibling" and getattr(t, "prefix_siblings", False):
        # pre-gen/lnk -> ../pre appears or disappears (keeping the directory's own mtime half of the time)
        rel = "pre-gen/lnk"
        if excluded(rel, patterns) or excluded("pre-gen", patterns) or not os.path.isdir(sb.p("tree/pre-gen")) or not os.path.isdir(sb.p("tree/pre")):
            return None
        dpath = sb.p("tree/pre-gen"); st = os.stat(dpath)
        if os.path.lexists(sb.p("tree/" + rel)):
            os.unlink(sb.p("tree/" + rel)); t.links.discard(rel)
        else:
            os.symlink("../pre", sb.p("tree/" + rel)); t.links.add(rel)
        if rnd.random() < 0.5:
            os.utime(dpath, ns=(st.st_atime_ns, st.st_mtime_ns))
        else:
            t.retouch_dirs(rel)
        return (rel, "structural")
    if kind == "add_dangling_link":
        d = rnd.choice(all_dirs); name = "aaa_dangling%d" % t.n; t.n += 1     # sorts early: entries listed after it must not get lost
        rel = (d + "/" + name) if d else name
        if excluded(rel, patterns):
            return None
        os.symlink("no-such-target-%d" % t.n, sb.p("tree/" + rel)); t.links.add(rel); t.dangling = getattr(t, "dangling", set()) | {rel}; t.retouch_dirs(rel)
        return (rel, "structural")
    if kind == "edit_beside_dangling_link" and getattr(t, "dangling", None):
        live = sorted(l for l in t.dangling if os.path.lexists(sb.p("tree/" + l)))
        if not live:
            return None
        d = os.path.dirname(rnd.choice(live))
        beside = sorted(f for f in vis_files if os.path.dirname(f) == d)
        if not beside:
            return None
        rel = rnd.choice(beside); sb.write("tree/" + rel, (sb.read("tree/" + rel) or b"") + b"beside\n")
        return (rel, "content")
    if kind == "add_dir":
        d = rnd.choice(all_dirs); name = t.newname().replace(".", "_")
        rel = (d + "/" + name) if d else name
        if excluded(rel, patterns):
            return None
        os.makedirs(sb.p("tree/" + rel)); t.dirs.add(rel); sb.touch("tree/" + rel); t.retouch_dirs(rel)
        return (rel, "structural")
    if kind == "remove_file" and vis_files:
        rel = rnd.choice(vis_files); sb.remove("tree/" + rel); t.files.discard(rel); t.retouch_dirs(rel)
        return (rel, "structural")
    if kind == "remove_dir" and vis_dirs:
        rel = rnd.choice(vis_dirs); sb.remove("tree/" + rel)
        t.files = {f for f in t.files if not f.startswith(rel + "/")}; t.dirs = {d for d in t.dirs if d != rel and not d.startswith(rel + "/")}
        t.links = {l for l in t.links if not l.startswith(rel + "/")}; t.retouch_dirs(rel)
        return (rel, "structural")
    if kind == "rename_file" and vis_files:
        rel = rnd.choice(vis_files); new = os.path.join(os.path.dirname(rel), t.newname())
        if excluded(new, patterns):
            return None
        os.rename(sb.p("tree/" + rel), sb.p("tree/" + new)); t.files.discard(rel); t.files.add(new); t.retouch_dirs(rel)
        return (rel, "structural")
    if kind == "retype_file_to_dir" and vis_files:
        rel = rnd.choice(vis_files); sb.remove("tree/" + rel); os.makedirs(sb.p("tree/" + rel)); t.files.discard(rel); t.dirs.add(rel); sb.touch("tree/" + rel); t.retouch_dirs(rel)
        return (rel, "structural")
    if kind == "retype_dir_to_file" and vis_dirs:
        rel = rnd.choice(vis_dirs); sb.remove("tree/" + rel)
        t.files = {f for f in t.files if not f.startswith(rel + "/")}; t.dirs = {d for d in t.dirs if d != rel and not d.startswith(rel + "/")}
        t.links = {l for l in t.links if not l.startswith(rel + "/")}
        sb.write("tree/" + rel, "now a file\n"); t.files.add(rel); t.retouch_dirs(rel)
        return (rel, "structural")
    if kind == "content_size" and vis_files:
        rel = rnd.choice(vis_files); sb.write("tree/" + rel, (sb.read("tree/" + rel) or b"") + b"more\n")
        return (rel, "content")
    if kind == "content_same_size" and vis_files:
        rel = rnd.choice(vis_files); c = bytearray(sb.read("tree/" + rel) or b"x")
        if not c:
            return None
        c[0] = (c[0] + 1) % 256; sb.write("tree/" + rel, bytes(c))
        return (rel, "content")
    if kind == "mtime_only" and vis_files:
        rel = rnd.choice(vis_files); sb.touch("tree/" + rel)
        return (rel, "content")
    if kind == "replace_by_rename" and vis_files:
        rel = rnd.choice(vis_files); c = sb.read("tree/" + rel) or b""
        sb.write("tree/" + rel, c + b"!", same_inode=False)
        return (rel, "replace")
    if kind == "add_excluded" and patterns:
        d = rnd.choice(all_dirs)
        name = {"*.tmp": "n%d.tmp", "skip*": "skipped%d", "*.o": "n%d.o", "x?z": "x%dz"}[rnd.choice(patterns)] % (t.n % 10)
        t.n += 1
        rel = (d + "/" + name) if d else name
        if not excluded(rel, patterns) or sb.exists("tree/" + rel):
            return None
        sb.write("tree/" + rel, "hidden\n"); t.files.add(rel)
        return (rel, "excluded-structural")
    if kind == "content_excluded" and patterns:
        hid = sorted(f for f in t.files if excluded(os.path.basename(f), patterns) and not excluded(os.path.dirname(f), patterns))
        if not hid:
            return None
        rel = rnd.choice(hid); sb.write("tree/" + rel, (sb.read("tree/" + rel) or b"") + b"+")
        return (rel, "excluded-content")
    if kind == "retarget_link" and "link_out" in t.links:
        sb.write("outside2.txt", "other outside\n")
        os.unlink(sb.p("tree/link_out")); os.symlink(sb.p("outside2.txt"), sb.p("tree/link_out")); t.retouch_dirs("link_out")
        return ("link_out", "structural-or-content")
    return None


def expectation(kind_node, cls):
    """'must' re-run / 'mustnot' / 'dontcare' (counted, not judged)."""
    if cls == "none":
        return "mustnot"
    if cls == "structural":
        return "must"
    if cls == "content":
        return "must" if kind_node == "tree" else "mustnot"
    if cls == "replace":
        return "must" if kind_node == "tree" else "dontcare"
    if cls == "excluded-content":
        return "mustnot"
    if cls == "excluded-structural":
        # a tree node also signs the mtime of the directory the hidden entry was added to, so it may re-run; a structure node signs
        # names and types only, and hidden names are not among them
        return "dontcare" if kind_node == "tree" else "mustnot"
    if cls == "structural-or-content":
        return "must" if kind_node == "tree" else "dontcare"
    return "dontcare"


def case(args):
    seed, index, sd, nedits = args
    rnd = random.Random(seed * 4241 + index)
    sb = bslib.Sandbox(os.path.join(sd, "t%d" % index))
    res = dict(viol=[], builds=0, judged=0, must=0, mustnot=0, dontcare=0, classes=set(), sample=None, inconclusive=[], edits={})
    try:
        node, attrs, knode = SPELLINGS[index % len(SPELLINGS)]
        if node.startswith("ABS:"):
            node = sb.p(node[4:-1]) + "/"
        patterns = PATTERN_SETS[(index // len(SPELLINGS)) % len(PATTERN_SETS)]
        t = Tree(sb, rnd)
        os.makedirs(sb.p("tree"))
        t.populate()
        d = bslib.Desc()
        d.sources = []
        d.cmds["T"] = Cmd("T", "shell", inputs=[node], outputs=["out/t.o"], salt="t")
        d.cmds["Call"] = Cmd("Call", "phony", inputs=["out/t.o"], outputs=["<all>"])
        d.targets[""] = ["<all>"]; d.default = ""
        na = dict(attrs or {})
        if patterns:
            na["content-exclusion-patterns"] = list(patterns)
        if rnd.random() < 0.3:
            # the directory is to be scanned after these paths (ordering only)
            sb.write("marker.txt", "marker\n"); sb.write("marker2.txt", "marker\n")
            na["must-scan-after-paths"] = ["marker.txt", "marker2.txt"]
        if na:
            d.nodes[node] = na
        sb.write_desc(d)
        cfg = "node %r attrs %r" % (node, na)
        log = [cfg]
        r = bslib.build(sb, "asan")
        res["builds"] += 1
        if r.sanitizer:
            res["viol"].append(("crash: " + r.sanitizer, dict(seed=seed, index=index, history=log))); return res
        if r.rc != 0 or "T" not in r.ran:
            res["inconclusive"].append("initial build failed or did not run T: %s %s" % (cfg, r.text[-200:])); return res
        for e in range(nedits):
            kind = rnd.choice(EDITS)
            ed = apply_edit(t, kind, patterns)
            if ed is None:
                continue
            rel, cls = ed
            exp = expectation(knode, cls)
            log.append("%s(%s) -> %s" % (kind, rel, exp))
            res["edits"][kind] = res["edits"].get(kind, 0) + 1
            r = bslib.build(sb, "asan")
            res["builds"] += 1
            reran = "T" in r.ran
            log.append("  build rc=%d reran=%s" % (r.rc, reran))
            wit = dict(seed=seed, index=index, config=cfg, history=list(log), output=r.text[-600:])
            if r.sanitizer:
                res["viol"].append(("crash: " + r.sanitizer, wit)); return res
            if r.rc != 0:
                res["viol"].append(("build with a directory input failed after a tree edit (%s)" % kind, wit)); return res
            depth = rel.count("/")
            if exp == "dontcare":
                res["dontcare"] += 1
            else:
                res["judged"] += 1
                res[exp] += 1
                res["classes"].add("%s|%s|%s|d%d|%s" % (knode, bool(patterns), kind, min(depth, 2), node))
                if exp == "must" and not reran:
                    res["viol"].append(("%s input (%s%s): command not re-executed after %s at depth %d" % (knode, "declared by name" if attrs is None else "declared with " + sorted(attrs)[0] + "=" + attrs[sorted(attrs)[0]], ", with exclusion patterns" if patterns else "", kind, depth), wit)); return res
                if exp == "mustnot" and reran:
                    res["viol"].append(("%s input (%s%s): command re-executed although %s" % (knode, "declared by name" if attrs is None else "declared with " + sorted(attrs)[0] + "=" + attrs[sorted(attrs)[0]], ", with exclusion patterns" if patterns else "",
                                        "nothing changed" if cls == "none" else "only %s changed (%s)" % ("an excluded file's content" if cls == "excluded-content" else "file content/mtime", kind)), wit)); return res
            if res["sample"] is None and len(log) > 5:
                res["sample"] = {"history": list(log)}
    finally:
        shutil.rmtree(sb.path, ignore_errors=True)
    return res


def run(tier, replay):
    chk = vlib.Check("C12", tier)
    vlib.build_flavor("asan")
    bslib.bscmd_path()
    sd = vlib.scratch_dir("c12")
    try:
        th = tier == "thorough"
        n = 210 if not th else 7000
        jobs = [(chk.seed, i, sd, 5 if not th else 8) for i in range(n)]
        if replay:
            w = json.load(open(replay))["witness"]
            jobs = [(w["seed"], w["index"], sd, 12)]
        results = vlib.pmap(case, jobs)
        tot = dict(builds=0, judged=0, must=0, mustnot=0, dontcare=0)
        classes, edits = set(), {}
        for r in results:
            for k in tot:
                tot[k] += r[k]
            classes |= r["classes"]
            for k, v in r["edits"].items():
                edits[k] = edits.get(k, 0) + v
            for key, w in r["viol"]:
                chk.violation(key, w)
            for m in r["inconclusive"]:
                chk.inconclusive.append(m)
            if r["sample"]:
                chk.sample(r["sample"])
        chk.add(tot["builds"], len(classes))
        chk.cov.update(tot)
        chk.cov["edits_by_kind"] = edits
        chk.cov["cases"] = len(results)
        chk.cov["rule"] = ("case = (spelling of the directory input: trailing-slash name, type: directory, is-directory, is-directory-structure, type: directory-structure on names with and "
                           "without slash) x (exclusion patterns or none) x random tree (depth<=3, files, directories, symlink out of the tree, symlink loop to the root) x sequence of edits "
                           "{no-op, add/remove/rename file or dir, add with the directory's own mtime restored, dangling links and edits beside them, links between prefix-named siblings, retype, content with/without size change, mtime only, replace by rename, edits of excluded names, link retarget}, a new "
                           "process per build; three-valued expectation from the property text (pattern semantics = libc fnmatch via ctypes); observed = whether the consuming command appears "
                           "in its own run log; distinct = (node kind, patterns?, edit kind, depth, spelling) classes judged")
        chk.assumptions = ["directory listings are only changed by the harness between builds", "replace-by-rename under a structure node, and additions/removals of excluded names under a tree node (the parent directory's mtime is part of its signature), are not judged"]
    finally:
        shutil.rmtree(sd, ignore_errors=True)
    return chk.finish()
