"""C10 - a failed or cancelled command never feeds dependents and is always retried; after repair the build converges."""
import os, shutil, json, random, hashlib
import vlib, bslib, bs_history as bh
from bslib import is_virtual

LIBS = ["llbuildBuildSystem", "llbuildCore", "llbuildBasic", "llvmSupport"]
FAIL_MODES = ["exit 1", "exit 2", "exit 255", "exit 127", "signal 15", "signal 11", "signal 2", "signal 9", "late-exit 1", "late-exit 7", "missing-read", "unwritable-output", "missing-declared-input"]


def downstream_cmds(desc, cmdname):
    """Names of commands that directly or transitively consume an output of cmdname.
    The virtual outputs of PHONY commands are ordering-only by documented design (PhonyCommand::getResultForOutput: "to avoid them
    incorrectly propagating failed/cancelled states onwards to downstream commands when they are being used only for ordering
    purposes"), so the cone stops at a phony command: what is behind its virtual outputs does not consume the failed command's outputs."""
    res, work = set(), list(desc.cmds[cmdname].outputs)
    seen = set(work)
    while work:
        n = work.pop()
        for c in desc.cmds.values():
            if n in c.inputs and c.name not in res:
                res.add(c.name)
                if c.tool == "phony":
                    continue
                for o in c.outputs:
                    if o not in seen:
                        seen.add(o); work.append(o)
    return res


def run_events(binp, sb, target, jobs, keep_going, cancel_on=None):
    ev = sb.p("events.jsonl")
    if os.path.exists(ev):
        os.unlink(ev)
    cmd = [binp, "--events", ev]
    if target:
        cmd += ["--target", target]
    if jobs:
        cmd += ["--jobs", str(jobs)]
    if keep_going:
        cmd.append("--keep-going")
    if cancel_on is not None:
        cmd += ["--cancel-on-event", str(cancel_on)]
    import time
    t0 = time.time()
    rc, out, err, to = vlib.run_child(cmd, 120, env={"BSCMD_LOG": sb.p("ran.log")}, cwd=sb.path)
    r = bslib.BuildResult(rc, out, err, to, sb.ran_since(), time.time() - t0)
    r.events = []
    if os.path.exists(ev):
        for l in open(ev):
            try:
                r.events.append(json.loads(l))
            except ValueError:
                pass
    return r


def history(args):
    seed, index, sd, binp, nrounds = args
    rnd = random.Random(seed * 31337 + index)
    sb = bslib.Sandbox(os.path.join(sd, "f%d" % index))
    res = dict(viol=[], builds=0, failing_builds=0, retry_builds=0, repair_builds=0, failures_injected=0, commands_run=0, modes={}, nontrivial=False, shape="", sample=None, inconclusive=[])
    log = []
    try:
        desc = bslib.gen_desc(rnd, ncmds=rnd.randint(4, 10), tools=("shell", "shell", "shell", "shell", "shell", "phony"),
                              virtual_out_p=0.45, virtual_in_p=0.55)
        bslib.populate_sources(sb, desc, rnd)
        sb.write_desc(desc)
        use_driver = rnd.random() < 0.5
        keep_going = use_driver and rnd.random() < 0.75

        def do_build(jobs):
            if use_driver:
                return run_events(binp, sb, None, jobs, keep_going)
            return bslib.build(sb, "asan", jobs=jobs)
        wit = lambda r, extra=None: dict(seed=seed, index=index, history=list(log), frontend="bsdriver keep-going=%s" % keep_going if use_driver else "llbuild CLI (cancels on first failure)",
                                         description=desc.to_obj(sb.path), extra=extra, output=r.text[-1200:] if r else "")
        # optional initial clean build so that failures hit an incremental state
        counter = 0
        if rnd.random() < 0.7:
            r = do_build(None)
            res["builds"] += 1
            log.append("initial build rc=%d ran=%s" % (r.rc, r.ran))
            if r.sanitizer:
                res["viol"].append(("crash during build: " + r.sanitizer, wit(r))); return res
            if r.rc != 0:
                res["inconclusive"].append("initial build failed: " + r.text[-200:]); return res
        # --- whole-build cancellation while commands run (frontend client only): the build must report failure, and the next build must
        # re-execute every command that was started but did not finish successfully, and converge
        if use_driver and rnd.random() < 0.6:
            shells = [c for c in desc.cmds.values() if c.tool == "shell"]
            for c in shells:
                c.salt = "k%d" % rnd.randint(0, 99)     # make everything re-run
                c.sleep_ms = rnd.choice([0, 5, 20, 40])
            sb.write_desc(desc)
            jobs = rnd.choice([None, 4])
            k = rnd.randint(3, 40)
            r = run_events(binp, sb, None, jobs, keep_going, cancel_on=k)
            res["builds"] += 1
            res["cancel_builds"] = res.get("cancel_builds", 0) + 1
            log.append("build(jobs=%r, cancel on delegate event %d) rc=%d ran=%s" % (jobs, k, r.rc, r.ran))
            if r.timed_out:
                res["viol"].append(("hang: cancelled build did not terminate", wit(r))); return res
            if r.sanitizer:
                res["viol"].append(("crash during cancelled build: " + r.sanitizer, wit(r))); return res
            issued = any(e.get("ev") == "cancelIssued" for e in r.events)
            fin = {}
            for e in r.events:
                if e.get("ev") == "finished":
                    fin[e["cmd"]] = e["status"]
            started = [e["cmd"] for e in r.events if e.get("ev") == "started"]
            unfinished = [c for c in started if fin.get(c) != 0 and desc.cmds.get(c) is not None and desc.cmds[c].tool == "shell"]
            after_cancel_started = []
            seen_cancel = False
            for e in r.events:
                if e.get("ev") == "cancelIssued":
                    seen_cancel = True
                elif seen_cancel and e.get("ev") == "buildEnd":
                    break
            if issued and unfinished and r.rc == 0:
                res["viol"].append(("cancelled build reported success although commands were cancelled", wit(r, dict(unfinished=unfinished)))); return res
            if issued:
                res["cancels_issued"] = res.get("cancels_issued", 0) + 1
            for c in shells:
                c.sleep_ms = 0
            # sleep_ms is part of the command line: changing it back re-runs everything anyway; keep the salt so only the definition change applies
            sb.write_desc(desc)
            r = run_events(binp, sb, None, jobs, keep_going)
            res["builds"] += 1
            log.append("build(jobs=%r) rc=%d ran=%s" % (jobs, r.rc, r.ran))
            if r.sanitizer:
                res["viol"].append(("crash during build: " + r.sanitizer, wit(r))); return res
            if r.rc != 0:
                res["viol"].append(("the build after a cancelled build fails", wit(r))); return res
            badfiles, pr = bh.check_outputs(sb, desc, desc.targets[""])
            if badfiles and not pr.fails:
                res["viol"].append(("after a cancelled build the next build did not converge to the clean-build state", wit(r, badfiles[:4]))); return res
            res["nontrivial"] = res["nontrivial"] or bool(issued and unfinished)
        for rd in range(nrounds):
            shells = [c for c in desc.cmds.values() if c.tool == "shell"]
            # make sure the victims will really run: edit one of their inputs (or they were never built)
            victims = rnd.sample(shells, min(len(shells), rnd.randint(1, 2)))
            plan = {}
            for v in victims:
                mode = rnd.choice(FAIL_MODES)
                srcs = [i for i in v.inputs if desc.producer(i) is None and not is_virtual(i)]
                if mode == "missing-declared-input" and not srcs:
                    mode = "exit 3"
                plan[v.name] = mode
            saved = {}
            for name, mode in plan.items():
                v = desc.cmds[name]
                counter += 1
                res["modes"][mode.split()[0]] = res["modes"].get(mode.split()[0], 0) + 1
                if mode == "unwritable-output":
                    o = [x for x in v.outputs if not is_virtual(x)][0]
                    sb.remove(o)
                    os.makedirs(sb.p(o), exist_ok=True)
                    saved[name] = ("dir", o)
                elif mode == "missing-declared-input":
                    s = [i for i in v.inputs if desc.producer(i) is None and not is_virtual(i)][0]
                    saved[name] = ("input", s, sb.read(s))
                    sb.remove(s)
                else:
                    sb.write(name + ".fail", mode + "\n")
                    saved[name] = ("file",)
                    # force a re-run: touch one of its inputs / salt
                    v.salt = "f%d" % counter
            sb.write_desc(desc)
            log.append("inject " + ", ".join("%s:%s" % kv for kv in sorted(plan.items())))
            res["failures_injected"] += len(plan)
            failset = set(plan)
            blocked = set()
            for f in failset:
                blocked |= downstream_cmds(desc, f)
            jobs = rnd.choice([None, None, 4])
            # --- failing build, then a second one with nothing repaired
            attempted_total = set()
            for attempt in range(2):
                r = do_build(jobs)
                res["builds"] += 1
                res["commands_run"] += len(r.ran)
                log.append("build(jobs=%r) rc=%d ran=%s" % (jobs, r.rc, r.ran))
                if attempt == 0:
                    res["failing_builds"] += 1
                else:
                    res["retry_builds"] += 1
                if r.timed_out:
                    res["viol"].append(("hang: build with failing commands did not terminate", wit(r))); return res
                if r.sanitizer:
                    res["viol"].append(("crash during build: " + r.sanitizer, wit(r))); return res
                started = set(r.ran)
                if use_driver:
                    started |= {e["cmd"] for e in r.events if e.get("ev") == "started"}
                attempted = started & failset
                # commands whose failure is 'missing declared input' never start; they count as attempted when the build reports them
                for name, mode in plan.items():
                    if mode == "missing-declared-input" and ("missing input" in r.text or any(e.get("ev") == "missingInputs" and e.get("cmd") == name for e in getattr(r, "events", []))):
                        attempted.add(name)
                attempted_total |= attempted
                bad = sorted((started - failset) & blocked)
                # a dependent of a failing command may only run if the failing command did not run/fail before it in this build AND its own inputs were complete -- it cannot: its input is produced by the failing command
                fed = [b for b in bad if any(f in attempted or True for f in failset if b in downstream_cmds(desc, f))]
                really = []
                for b in fed:
                    # only a violation if some failing upstream command was actually reached (attempted) in this or the previous attempt: otherwise the upstream result is still the old valid one
                    ups = [f for f in failset if b in downstream_cmds(desc, f)]
                    if any(u in attempted_total for u in ups):
                        really.append(b)
                if really:
                    res["viol"].append(("a command consuming the output of a failed or cancelled command was executed (%s)" % plan[[f for f in failset if really[0] in downstream_cmds(desc, f)][0]].split()[0],
                                        wit(r, dict(executed=really, failing=plan)))); return res
                if attempted and r.rc == 0:
                    res["viol"].append(("build reported success although a command failed (%s)" % plan[sorted(attempted)[0]].split()[0], wit(r, dict(failing=plan, attempted=sorted(attempted))))); return res
                if attempt == 1 and attempted_total and not attempted and r.rc == 0:
                    res["viol"].append(("failed command was not retried by the next build: the build succeeded without attempting it", wit(r, dict(failing=plan)))); return res
                if attempt == 1 and attempted_total and not (attempted or r.rc != 0):
                    res["viol"].append(("failed command was not retried by the next build", wit(r, dict(failing=plan)))); return res
            if not attempted_total:
                log.append("(no injected failure was reached)")
            else:
                res["nontrivial"] = True
            # --- repair and converge
            for name, sv in saved.items():
                if sv[0] == "file":
                    sb.remove(name + ".fail")
                elif sv[0] == "dir":
                    sb.remove(sv[1])
                elif sv[0] == "input":
                    sb.write(sv[1], sv[2] if isinstance(sv[2], bytes) else b"restored\n")
            log.append("repair")
            r = do_build(jobs)
            res["builds"] += 1
            res["repair_builds"] += 1
            res["commands_run"] += len(r.ran)
            log.append("build(jobs=%r) rc=%d ran=%s" % (jobs, r.rc, r.ran))
            if r.sanitizer:
                res["viol"].append(("crash during build: " + r.sanitizer, wit(r))); return res
            if r.rc != 0:
                res["viol"].append(("after the cause of the failure was removed the build still fails", wit(r, dict(failing=plan)))); return res
            missing = [f for f in attempted_total if f not in r.ran and plan[f] != "missing-declared-input"]
            # a command whose failing attempt was reached must run again now (its result must not have been recorded as up to date)
            if missing:
                res["viol"].append(("a command that failed (%s) was not re-executed after the cause was removed" % plan[missing[0]].split()[0], wit(r, dict(failing=plan, not_rerun=missing)))); return res
            badfiles, pr = bh.check_outputs(sb, desc, desc.targets[""])
            if pr.fails:
                res["inconclusive"].append("prediction says a command cannot succeed after repair: %r" % pr.fails); return res
            if badfiles:
                res["viol"].append(("after repair the build did not converge to the clean-build state", wit(r, badfiles[:4]))); return res
            if res["sample"] is None:
                res["sample"] = {"history": list(log)}
    finally:
        res["shape"] = hashlib.sha1("|".join(log).encode()).hexdigest()
        shutil.rmtree(sb.path, ignore_errors=True)
    return res


def run(tier, replay):
    chk = vlib.Check("C10", tier)
    vlib.build_flavor("asan")
    bslib.bscmd_path()
    binp = vlib.build_harness("bsdriver", "asan", ["bsdriver.cpp"], libs=LIBS)
    sd = vlib.scratch_dir("c10")
    try:
        th = tier == "thorough"
        n = 200 if not th else 5000
        jobs = [(chk.seed, i, sd, binp, 2 if not th else 4) for i in range(n)]
        if replay:
            w = json.load(open(replay))["witness"]
            jobs = [(w["seed"], w["index"], sd, binp, 4)]
        results = vlib.pmap(history, jobs)
        tot = dict(builds=0, failing_builds=0, retry_builds=0, repair_builds=0, failures_injected=0, commands_run=0, cancel_builds=0, cancels_issued=0)
        modes, shapes = {}, set()
        for r in results:
            for k in tot:
                tot[k] += r.get(k, 0)
            for k, v in r["modes"].items():
                modes[k] = modes.get(k, 0) + v
            if r["nontrivial"]:
                shapes.add(r["shape"])
            for key, w in r["viol"]:
                chk.violation(key, w)
            for m in r["inconclusive"]:
                chk.inconclusive.append(m)
            if r["sample"]:
                chk.sample(r["sample"])
        chk.add(tot["builds"], len(shapes))
        chk.cov.update(tot)
        chk.cov["failure_modes_injected"] = modes
        chk.cov["histories"] = len(results)
        chk.cov["rule"] = ("history = generated description + rounds of {inject failures into 1-2 commands (exit status, TERM/SEGV/INT/KILL self-signal, failure after writing outputs, "
                           "missing undeclared input, unwritable output, missing declared input), failing build, second build with nothing repaired, repair, build}; serial and -j4; "
                           "through the llbuild CLI (cancels on first failure) and through a BuildSystemFrontend client that keeps going; oracles from the commands' own run log and "
                           "delegate events: no consumer of a failing command starts, exit status non-zero, the failing command is attempted again, after repair it re-executes and "
                           "all outputs equal the predicted clean-build contents; non-trivial = a history in which an injected failure was actually reached")
        chk.assumptions = ["commands are deterministic except for the injected failure directive", "the sandbox runs as root, so unwritable outputs are staged as directories"]
    finally:
        shutil.rmtree(sd, ignore_errors=True)
    return chk.finish()
