"""Runs one generated build-system history under the C08 (clean-build equivalence) and C09 (null build) monitors."""
import os, random, shutil, hashlib
import vlib, bslib, bs_history as bh


def run_history(args):
    """args: dict(seed, index, sd, flavor, steps, tsan_every). Returns dict with violations [(prop, key, witness)], counts."""
    seed, index, sd, flavor = args["seed"], args["index"], args["sd"], args.get("flavor", "asan")
    rnd = random.Random(seed * 100003 + index)
    sb = bslib.Sandbox(os.path.join(sd, "h%d" % index))
    res = dict(viol=[], builds=0, ok_builds=0, failed_builds=0, null_builds=0, commands_run=0, steps=0, files_checked=0, clean_oracle_runs=0,
               unexpected_failures=0, nontrivial=False, shape=None, sample=None, inconclusive=[], step_kinds={})
    desc = bslib.gen_desc(rnd)
    bslib.populate_sources(sb, desc, rnd)
    log = []
    counter = 0
    nsteps = args.get("steps", 10)
    steps_done = 0
    first = True
    edited_since_build = False
    try:
        while steps_done < nsteps:
            counter += 1
            if first:
                st = bh.Step("build", target="", jobs=None)
                first = False
            else:
                st = bh.gen_step(rnd, sb, desc, counter)
                if st is None:
                    continue
            if st.kind != "build":
                if not bh.apply_step(st, sb, desc):
                    continue
                log.append(repr(st))
                res["step_kinds"][st.kind] = res["step_kinds"].get(st.kind, 0) + 1
                edited_since_build = True
                steps_done += 1
                continue
            steps_done += 1
            target = st.kw["target"]
            node = st.kw.get("node")
            if node is None and target not in desc.targets:
                continue
            if node is not None and (desc.producer(node) is None or args.get("driver") is None):
                continue
            sb.write_desc(desc)
            fl = flavor
            roots = [node] if node is not None else desc.targets[target]
            def do_build():
                if node is not None:
                    return bslib.drive(sb, args["driver"], node=node, jobs=st.kw.get("jobs"))
                if st.kw.get("twice") and args.get("driver") is not None:
                    return bslib.drive(sb, args["driver"], target=target, jobs=st.kw.get("jobs"), twice=True)   # frontend reused for two builds in one process
                return bslib.build(sb, fl, target=target, jobs=st.kw.get("jobs"))
            r = do_build()
            if node is not None:
                res["node_builds"] = res.get("node_builds", 0) + 1
            res["builds"] += 1
            res["commands_run"] += len(r.ran)
            log.append("build(%s, jobs=%r%s) -> rc=%d ran=%s" % (("node=%r" % node) if node is not None else ("target=%r" % target), st.kw.get("jobs"), ", twice in one process" if st.kw.get("twice") else "", r.rc, r.ran))
            wit = lambda extra=None: dict(seed=seed, index=index, history=list(log), description=desc.to_obj(sb.path), extra=extra, output=r.text[-1500:])
            if r.timed_out:
                res["viol"].append(("C08", "hang: build did not terminate", wit()))
                break
            if r.sanitizer:
                res["viol"].append(("C08", "crash during build: " + r.sanitizer, wit()))
                break
            if r.rc != 0:
                res["failed_builds"] += 1
                pr = bslib.predict(desc, roots, sb.read)
                if not pr.fails:
                    res["unexpected_failures"] += 1
                    log.append("  (build failed although the prediction has no failing command: %s)" % r.text[-200:].replace("\n", " | "))
                edited_since_build = False
                continue
            res["ok_builds"] += 1
            # the secondary oracle builds exactly what was asked for: when a single node was built, a copy of the description with a
            # target naming that node (the clean build of the whole default target may legitimately fail elsewhere)
            odesc, otarget = desc, target
            if node is not None:
                odesc = desc.clone(); otarget = "oracle-node"; odesc.targets[otarget] = [node]
            bad, pr = bh.check_outputs(sb, desc, roots)
            res["files_checked"] += len(pr.files)
            res["archives_checked"] = res.get("archives_checked", 0) + len(pr.archives)
            if pr.fails:
                res["viol"].append(("C08", "build reported success although a command it needs cannot succeed (%s)" % list(pr.fails.values())[0].split()[0], wit(pr.fails)))
                break
            if bad:
                # secondary oracle before believing the primary one
                clean = bh.clean_build_oracle(sb, odesc, otarget, fl, "x")
                res["clean_oracle_runs"] += 1
                agree = clean is not None and all(clean.get(p_) == v for p_, v in pr.files.items())
                if not agree:
                    res["inconclusive"].append("prediction and real clean build disagree (seed %d index %d): %s" % (seed, index, bad[0]))
                else:
                    res["viol"].append(("C08", "after a successful incremental build an output differs from the clean-build content", wit(bad[:5])))
                break
            elif rnd.random() < 0.15:
                clean = bh.clean_build_oracle(sb, odesc, otarget, fl, "s")
                res["clean_oracle_runs"] += 1
                if clean is None or any(clean.get(p_) != v for p_, v in pr.files.items()):
                    res["inconclusive"].append("prediction and real clean build disagree (seed %d index %d)" % (seed, index))
                    break
            if edited_since_build and r.ran and len(r.ran) < len([c for c in bslib.reachable_cmds(desc, roots).values() if c.tool == "shell"]):
                res["nontrivial"] = True
            edited_since_build = False
            # C09 monitor 1: an immediate rebuild (new process) of the same target runs nothing
            r2 = do_build() if node is not None else bslib.build(sb, fl, target=target, jobs=st.kw.get("jobs"))
            res["null_builds"] += 1
            if r2.sanitizer:
                res["viol"].append(("C09", "crash during null build: " + r2.sanitizer, wit()))
                break
            if r2.rc != 0:
                res["viol"].append(("C09", "null build failed after a successful build", dict(wit(), null_output=r2.text[-800:])))
                break
            aood = set(c.name for c in desc.cmds.values() if c.attrs.get("always-out-of-date") == "true")
            extra = [x for x in r2.ran if x not in aood]
            if extra:
                res["viol"].append(("C09", "null build executed commands", dict(wit(), reran=extra)))
                break
            if res["sample"] is None and len(log) > 4:
                res["sample"] = {"history": list(log), "commands": len(desc.cmds)}
    finally:
        res["steps"] = steps_done
        res["shape"] = hashlib.sha1(("|".join(log)).encode()).hexdigest()
        shutil.rmtree(sb.path, ignore_errors=True)
    return res
