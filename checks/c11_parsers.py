"""C11, parser part (DESIGN.md section 4, C11 item 1): round trip + corruption monitor for MakefileDepsParser and DependencyInfoParser.

run_parsers(chk, tier, sd) builds harness/depsrt_mon.cpp on the asan flavor, runs it in shards, adds one violation per distinct
violation key (smallest input over all shards; for over-reads the AddressSanitizer report of the same input in an exact-size
malloc buffer is attached) to `chk`, calls chk.add(judged parses, distinct judged inputs), stores the counts in
chk.cov["parsers"] and returns the same dict. `sd` (scratch directory) is not needed by this part."""
import vlib

LIBS = ["llbuildCore", "llbuildBasic", "llvmSupport"]
SUM_KEYS = ("cases", "judged", "mk_round_trips", "mk_round_trips_first_rule_only", "mk_dependencies_compared", "mk_corruptions_judged",
            "mk_corruptions_dont_care", "mk_over_reads", "di_round_trips", "di_records_compared", "di_corruptions_judged",
            "di_corruptions_dont_care", "di_over_reads", "error_calls_seen", "distinct", "violations")


def run_parsers(chk, tier, sd=None):
    binp = vlib.build_harness("depsrt_mon", "asan", ["depsrt_mon.cpp"], libs=LIBS)
    shards = vlib.NCPU
    total = 320000 if tier == "quick" else 12000000      # cases; about 1.1 round trips and 1.3 corruptions per case
    per = (total + shards - 1) // shards
    cmds = [[binp, "--seed", str(chk.seed * 1000 + i), "--cases", str(per)] for i in range(shards)]

    class _Collect:   # smallest witness per key over all shards
        def __init__(self):
            self.best = {}
            self.inconclusive = chk.inconclusive

        def violation(self, key, w):
            if not isinstance(w, dict) or "input_hex" not in w:
                chk.violation(key, w)
                return
            if key not in self.best or len(w["input_hex"]) < len(self.best[key]["input_hex"]):
                self.best[key] = w
    col = _Collect()
    sums = vlib.run_shards(col, cmds, timeout=3600, label="dependency parsers")
    counts, by_corr = {}, {}
    for s in sums:
        for k, v in s.get("viol_counts", {}).items():
            counts[k] = counts.get(k, 0) + v
        for k, v in s.get("by_corruption", {}).items():
            by_corr[k] = by_corr.get(k, 0) + v
    for key, w in sorted(col.best.items()):
        parser = "di" if key.startswith("DependencyInfoParser") or key.startswith("dependency-info") else "mk"
        if (w.get("detail") or {}).get("ignoreSubsequentOutputs") is True:
            parser = "mk-ignore"
        w = dict(w, occurrences=counts.get(key, 0), replay="%s --one %s --parser %s" % (binp, w["input_hex"] or '""', parser))
        if "reads past the end" in key and w["input_hex"]:
            # the same bytes in an exact-size malloc buffer: AddressSanitizer names the reading function
            rc, out, err, to = vlib.run_child([binp, "--heap", "--one", w["input_hex"], "--parser", parser], 120)
            e = err.decode("utf-8", "replace")
            w["asan"] = vlib.sanitizer_summary(e) or ("no report (rc %d)" % rc)
            w["asan_stderr"] = e[:2500]
        chk.violation(key, w)
    res = {k: vlib.sum_key(sums, k) for k in SUM_KEYS}
    res["by_corruption"] = by_corr
    res["violations_by_key"] = counts
    chk.add(res["judged"], res["distinct"])
    chk.cov["parsers"] = res
    chk.cov["parsers_rule"] = ("inputs live in a buffer that ends at a page boundary followed by a PROT_NONE page (a read past the end faults and is recorded), no terminator. "
                               "Round trip: 1..3 rules x 0..40 paths over an alphabet with space # $ \\ : % quotes and bytes >= 0x80 (no NUL/TAB/CR/LF, no leading ':'), written "
                               "with '\\ ' '\\#' '\\\\' '$$', separators = spaces / ' \\'+LF / ' \\'+CRLF / '\\'+LF, LF or CRLF line ends, with/without final newline; the "
                               "unescaped words of actOnRuleDependency must equal the list in order, without error(), one start/end pair per rule (first rule only with "
                               "ignoreSubsequentOutputs). Dependency-info: version + 0..60 (0x10|0x11|0x40, NUL-free operand) records must come back in order. Judged "
                               "corruptions (must call error()): file ends in a dangling backslash or lone '$', colon of the first rule missing or cut away, lone '$' before "
                               "a prerequisite; dependency-info: missing terminator, empty file, first record not the version, empty operand, duplicate version, stray NUL. "
                               "Cuts that leave a well-formed shorter file and unknown opcodes are don't-care. distinct = distinct judged inputs (hash), summed over shards")
    for s in sums[:1]:
        chk.sample({"makefile_deps": s.get("sample_mk"), "dependency_info_hex": s.get("sample_di_hex")})
    if res["mk_round_trips"] < 1 or res["di_round_trips"] < 1:
        chk.inconclusive.append("dependency parsers: no round trip was judged")
    return res
