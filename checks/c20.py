"""C20 - the C API is a faithful binding of the engine (same histories through core.h and through the C++ interface, compared event by event)."""
import shutil
import vlib, enginecommon as ec

KEYS = ["cases", "runs", "builds", "rules_executed", "rules_up_to_date", "provide_value_events", "restarts", "db_checks", "diff_compared"]


def run(tier, replay):
    chk = vlib.Check("C20", tier)
    if replay:
        return ec.replay(chk, replay, capi=True)
    binp = ec.build("asan", capi=True)
    sd = vlib.scratch_dir("c20")
    try:
        th = tier == "thorough"
        m = ec.run_profile(chk, binp, "c20", 3200 if not th else 60000, sd, thorough=th)
        ec.fold(chk, m, KEYS)
        chk.add(int(m.get("builds", 0)), int(m.get("distinct_nontrivial", 0)))
        if int(m.get("diff_compared", 0)) < 1:
            chk.inconclusive.append("no differential comparison happened")
        chk.cov["rule"] = ("each generated history (keys and values with NUL, 0x80-0xFF, numeric-looking and empty spellings; force-change, must-follow, discovered "
                           "dependencies, external outputs, SQLite attachment with a client schema version, restarts) is run once through BuildEngine/Rule/Task and once only "
                           "through llb_buildengine_* / llb_task_* ; the per-build traces projected onto the shared vocabulary (tasks created in order, provide_value(id, bytes), "
                           "build result, cycle keys) must be identical, both runs are watched by M-proto/M-value/M-justify, and the database written through the C interface "
                           "is read back with an independent BuildDB reader and compared with the observer's shadow; non-trivial as C01")
        chk.assumptions = ["single-use requests, prior values, run reasons and rule signatures are outside the C interface and not compared",
                           "llb_database_* (db.h) interprets keys as build-system keys and is exercised by the build-system checks, not here",
                           "Swift bindings are out of reach (no Swift toolchain use)"]
    finally:
        shutil.rmtree(sd, ignore_errors=True)
    return chk.finish()
