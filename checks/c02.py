"""C02 - work happens at most once per build and only for a true, reported reason (engine monitor, M-justify)."""
import shutil
import vlib, enginecommon as ec

KEYS = ["cases", "runs", "builds", "rules_executed", "rules_up_to_date", "provide_value_events", "prior_value_events", "restarts",
        "hook_loop_top", "hook_before_wait", "delivered_at_hook", "sync_completions", "distinct_delivery_orders"]


def run(tier, replay):
    chk = vlib.Check("C02", tier)
    if replay:
        return ec.replay(chk, replay)
    binp = ec.build("asan")
    sd = vlib.scratch_dir("c02")
    try:
        n = 6400 if tier == "quick" else 200000
        m = ec.run_profile(chk, binp, "c02", n, sd, thorough=(tier == "thorough"))
        ec.fold(chk, m, KEYS)
        if tier == "thorough":
            tb = ec.build("tsan")
            m2 = ec.run_profile(chk, tb, "c06t", 2000, sd, thorough=False, env={"TSAN_OPTIONS": "halt_on_error=1:second_deadlock_stack=1"}, label="c02t")
            chk.cov["threaded_runs"] = int(m2.get("runs", 0))
        chk.add(int(m.get("builds", 0)), int(m.get("distinct_nontrivial", 0)))
        chk.cov["rule"] = ("case = generated program (static/dynamic/discovered/single-use/must-follow requests, external outputs) x history of "
                           "{set input, tamper/remove output, build any key, restart engine (with/without SQLite DB, signature bumps)} x schedule "
                           "(synchronous or deferred completion at engine idle points); every createTask must be the first for its key in the build and be justified against a shadow of epochs kept by the "
                           "observer (never built / signature changed / isResultValid false in this build / a recorded non-order-only, non-single-use "
                           "dependency changed after the rule was last up to date / interrupted); every determinedRuleNeedsToRun reason is checked against the same shadow; "
                           "non-trivial = after a mutation some build both skipped and re-ran rules; distinct by hash(program, history)")
        chk.assumptions = ["tasks are deterministic functions of requested/discovered inputs (by construction)", "external state is constant during a build"]
    finally:
        shutil.rmtree(sd, ignore_errors=True)
    return chk.finish()
