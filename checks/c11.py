"""C11 - dependencies discovered while a command runs are honoured on later builds.
Part 1 (checks/c11_parsers.py): parser round trips on exact-size buffers. Part 2 (here): end to end through `llbuild buildsystem build`."""
import os, shutil, json, random, importlib
import vlib, bslib

STYLES = ["makefile", "makefile-ignoring-subsequent-outputs", "dependency-info"]
# bytes special to the Makefile format or to shells/YAML, plus high bytes; NUL, TAB, CR, LF cannot be expressed by the format and are not generated
ALPHA = [b" ", b"#", b"$", b"\\", b":", b"%", b"'", b"\"", b"a", b"b", b"Z", b"0", b".", b"-", b"_", b"\xc3\xa9", b"\xff", b"\x80", b"(", b"&", b";", b"=", b"~", b"*", b"?", b"["]


def gen_name(rnd):
    n = rnd.randint(1, 8)
    s = b"".join(rnd.choice(ALPHA) for _ in range(n))
    s = s.replace(b"/", b"_")
    if s in (b".", b".."):
        s = b"d" + s
    if s.startswith(b":"):
        s = b"c" + s    # a word cannot START with ':' in the Makefile dependency syntax (inside a word it is accepted)
    return s + b".h"


def case(args):
    seed, index, sd = args
    rnd = random.Random(seed * 6151 + index)
    sb = bslib.Sandbox(os.path.join(sd, "d%d" % index))
    res = dict(viol=[], builds=0, judged=0, must=0, mustnot=0, paths=0, classes=set(), sample=None, inconclusive=[], malformed=0)
    log = []
    try:
        A = sb.path.encode()
        style = STYLES[index % 3]
        use_wd = (index // 3) % 2 == 1
        wd = os.path.join(sb.path, "w d") if use_wd else sb.path
        os.makedirs(wd, exist_ok=True)
        bs = bslib.bscmd_path()
        # discovered paths
        paths = []
        for i in range(rnd.randint(2, 4)):
            name = gen_name(rnd)
            relative = rnd.random() < 0.4
            sub = rnd.choice([b"hdr", b"h dr", b"inc#1", b"."])
            rel = os.path.normpath(os.path.join(sub, name)) if sub != b"." else name
            full = os.path.join(wd.encode(), rel)
            if rnd.random() < 0.2:
                # '..' after a symbolic link to a directory: the textual parent (view) is not the real parent (store/v1)
                os.makedirs(os.path.join(wd, "store/v1/inc"), exist_ok=True)
                os.makedirs(os.path.join(wd, "view"), exist_ok=True)
                if not os.path.lexists(os.path.join(wd, "view/cur")):
                    os.symlink("../store/v1/inc", os.path.join(wd, "view/cur"))
                rel = b"view/cur/../" + name
                full = os.path.join(wd.encode(), b"store/v1", name)
                sub = b"view/cur/.."
            if use_wd and rnd.random() < 0.2:
                # spelled exactly like the command's declared input, but relative to the working directory: a different file
                rel = b"src/main.c"; full = os.path.join(wd.encode(), rel); relative = True; sub = b"src"
            written = rel if relative else os.path.join(wd.encode(), rel)   # `full` is where the file really lives
            exists = rnd.random() < 0.7
            if any(p["full"] == full for p in paths):
                continue
            paths.append(dict(written=written, full=full, exists=exists, relative=relative))
        for p in paths:
            if p["exists"]:
                os.makedirs(os.path.dirname(p["full"]), exist_ok=True)
                with open(p["full"], "wb") as f:
                    f.write(b"header v0\n")
                t = sb.tick(); os.utime(p["full"], ns=(t * 10**9, t * 10**9))
        with open(os.path.join(sb.path, "R.reads"), "wb") as f:
            f.write(b"\n".join(p["written"] for p in paths) + b"\n")
        sb.write("src/main.c", "main v0\n")
        ap = lambda rel: os.path.join(sb.path, rel)
        # one to three dependency files; the helper reports read i in file i % ndeps
        ndeps = 1 if (index // 6) % 2 == 0 else rnd.randint(2, 3)
        depfiles = [ap("R.d")] + [ap("R%d.d" % i) for i in range(1, ndeps)]
        args_ = [bs, "R", "--salt", "s", "--log", ap("ran.log"), "--in", ap("src/main.c"), "--out", ap("out/r.o"), "--reads-file", ap("R.reads")]
        for dfile in depfiles:
            args_ += ["--dep-out", dfile]
        args_ += ["--dep-style", "depinfo" if style == "dependency-info" else "makefile", "--fail-file", ap("R.fail")]
        cmd = {"tool": "shell", "inputs": ["src/main.c"], "outputs": [ap("out/r.o")], "args": list(args_), "deps": depfiles[0] if ndeps == 1 else list(depfiles), "deps-style": style, "description": "RUN R"}
        if use_wd:
            cmd["working-directory"] = wd
        desc = {"client": {"name": "basic"}, "targets": {"": ["<all>"]}, "default": "",
                "commands": {"R": cmd, "Call": {"tool": "phony", "inputs": [ap("out/r.o")], "outputs": ["<all>"]}}}
        def write_desc():
            with open(sb.p("build.llbuild"), "w") as f:
                json.dump(desc, f, indent=1)
        write_desc()
        cfg = "style=%s dependency-files=%d working-directory=%s paths=%s" % (style, ndeps, "set" if use_wd else "unset", [(p["written"].decode("latin-1").replace(sb.path, "$A"), "exists" if p["exists"] else "missing") for p in paths])
        log.append(cfg)

        def build(expect_run, why, klass):
            r = bslib.build(sb, "asan")
            res["builds"] += 1
            ran = "R" in r.ran
            log.append("%s -> rc=%d ran=%s" % (why, r.rc, ran))
            wit = dict(seed=seed, index=index, history=list(log), output=r.text[-800:], depfile=(open(sb.p("R.d"), "rb").read()[:400].decode("latin-1") if os.path.exists(sb.p("R.d")) else None))
            if r.sanitizer:
                res["viol"].append(("crash: " + r.sanitizer, wit)); return None
            if r.rc != 0:
                res["viol"].append(("build failed with a well-formed dependency file (%s)" % style, wit)); return None
            res["judged"] += 1
            if expect_run:
                res["must"] += 1
                if not ran:
                    res["viol"].append(("discovered dependency not honoured: %s did not re-execute the command (%s)" % (why.split(" ")[0], klass), wit)); return None
            else:
                res["mustnot"] += 1
                if ran:
                    res["viol"].append(("command re-executed although no declared or discovered input changed (%s)" % klass, wit)); return None
            res["classes"].add(klass + "|" + why.split(" ")[0])
            return r
        if build(True, "initial build", "initial") is None:
            return res
        if build(False, "null build", style) is None:
            return res
        order = list(paths)
        rnd.shuffle(order)
        for p in order:
            res["paths"] += 1
            special = sorted(set(ch for ch in " #$\\:%'\"" if ch.encode() in os.path.basename(p["written"])))
            klass = "%s, %s path%s%s%s%s" % (style, "relative" if p["relative"] else "absolute", ", working-directory set" if use_wd else "", (", name contains " + "".join(special)) if special else "",
                                          ", '..' after a symlinked directory" if b"view/cur/../" in p["written"] else (", spelled like a declared input" if p["written"] == b"src/main.c" else ""),
                                          (", file %d of %d dependency files" % (paths.index(p) % ndeps + 1, ndeps)) if ndeps > 1 else "")
            if p["exists"]:
                # edit, then delete
                with open(p["full"], "ab") as f:
                    f.write(b"edited\n")
                t = sb.tick(); os.utime(p["full"], ns=(t * 10**9, t * 10**9))
                if build(True, "edit of discovered path %r" % p["written"].decode("latin-1").replace(sb.path, "$A"), klass) is None:
                    return res
                if build(False, "null build", klass) is None:
                    return res
                if rnd.random() < 0.6:
                    os.unlink(p["full"]); p["exists"] = False
                    if build(True, "deletion of discovered path %r" % p["written"].decode("latin-1").replace(sb.path, "$A"), klass) is None:
                        return res
                    if build(False, "null build", klass) is None:
                        return res
            else:
                os.makedirs(os.path.dirname(p["full"]), exist_ok=True)
                with open(p["full"], "wb") as f:
                    f.write(b"created\n")
                t = sb.tick(); os.utime(p["full"], ns=(t * 10**9, t * 10**9))
                p["exists"] = True
                if build(True, "creation of discovered path %r (reported while missing)" % p["written"].decode("latin-1").replace(sb.path, "$A"), klass + ", reported missing") is None:
                    return res
                if build(False, "null build", klass) is None:
                    return res
        # malformed dependency file: the command must fail, and be retried
        if ndeps > 1 or rnd.random() < 0.35:
            res["malformed"] += 1
            which = rnd.randrange(ndeps)          # with several files only one of them (often not the last) is malformed
            mid = rnd.random() < 0.5              # malformed after a well-formed prefix, or from the first byte
            how = "%s, file %d of %d malformed %s" % (style, which + 1, ndeps, "after a well-formed prefix" if mid else "from the start")
            desc["commands"]["R"]["args"] = list(args_) + ["--dep-corrupt", "--dep-corrupt-index", str(which)] + (["--dep-corrupt-mid"] if mid else [])
            write_desc()
            r = bslib.build(sb, "asan"); res["builds"] += 1
            log.append("malformed dependency file (%s) -> rc=%d ran=%s" % (how, r.rc, "R" in r.ran))
            wit = dict(seed=seed, index=index, history=list(log), output=r.text[-800:],
                       depfiles={os.path.basename(d): open(d, "rb").read()[:300].decode("latin-1") for d in depfiles if os.path.exists(d)})
            if r.sanitizer:
                res["viol"].append(("crash: " + r.sanitizer, wit)); return res
            if "R" not in r.ran:
                res["inconclusive"].append("command with a changed definition did not run"); return res
            if r.rc == 0:
                res["viol"].append(("a malformed dependency file (%s%s) did not fail the command" % (style, ", one of several dependency files" if ndeps > 1 else ""), wit)); return res
            res["classes"].add("malformed|" + ("several" if ndeps > 1 else "single") + "|" + style + "|" + ("mid" if mid else "start") + ("|last" if which == ndeps - 1 else "|not-last"))
            r2 = bslib.build(sb, "asan"); res["builds"] += 1
            log.append("rebuild -> rc=%d ran=%s" % (r2.rc, "R" in r2.ran))
            if "R" not in r2.ran:
                res["viol"].append(("a command that failed on a malformed dependency file (%s) was not retried" % style, dict(wit, history=list(log)))); return res
            # repaired dependency files: the command succeeds again and every reported path is honoured
            desc["commands"]["R"]["args"] = list(args_)
            write_desc()
            if build(True, "dependency files well-formed again", style) is None:
                return res
            live = [p for p in paths if p["exists"]]
            if live:
                p = rnd.choice(live)
                with open(p["full"], "ab") as f:
                    f.write(b"edited after repair\n")
                t = sb.tick(); os.utime(p["full"], ns=(t * 10**9, t * 10**9))
                if build(True, "edit of discovered path %r after the malformed episode" % p["written"].decode("latin-1").replace(sb.path, "$A"), style) is None:
                    return res
        if res["sample"] is None:
            res["sample"] = {"history": list(log)}
    finally:
        shutil.rmtree(sb.path, ignore_errors=True)
    return res


def run(tier, replay):
    chk = vlib.Check("C11", tier)
    vlib.build_flavor("asan")
    bslib.bscmd_path()
    sd = vlib.scratch_dir("c11")
    try:
        th = tier == "thorough"
        parsers = {}
        try:
            mod = importlib.import_module("c11_parsers")
            parsers = mod.run_parsers(chk, tier, sd) or {}
        except ImportError:
            chk.inconclusive.append("parser round-trip part (checks/c11_parsers.py) is missing")
        n = 96 if not th else 1800
        jobs = [(chk.seed, i, sd) for i in range(n)]
        if replay:
            w = json.load(open(replay))["witness"]
            if "index" in w:
                jobs = [(w["seed"], w["index"], sd)]
        results = vlib.pmap(case, jobs)
        tot = dict(builds=0, judged=0, must=0, mustnot=0, paths=0, malformed=0)
        classes = set()
        for r in results:
            for k in tot:
                tot[k] += r[k]
            classes |= r["classes"]
            for key, w in r["viol"]:
                chk.violation(key, w)
            for m in r["inconclusive"]:
                chk.inconclusive.append(m)
            if r["sample"]:
                chk.sample(r["sample"])
        chk.add(tot["builds"], len(classes))
        chk.cov.update(tot)
        chk.cov["parsers"] = parsers
        chk.cov["cases"] = len(results)
        chk.cov["malformed_classes"] = sorted(c for c in classes if c.startswith("malformed"))
        chk.cov["rule"] = ("end to end: one shell command whose undeclared reads (2-4 paths, a fifth of them spelled through '..' after a symbolic link to a directory, over an alphabet with space # $ \\\\ : % quotes and bytes >= 0x80, absolute or relative to "
                           "working-directory, existing or missing) are reported through deps/deps-style {makefile, makefile-ignoring-subsequent-outputs, dependency-info} written by the helper with "
                           "the documented escaping; then each discovered path is edited / deleted / created in turn, each followed by a build (must re-run) and a null build (must not), "
                           "each build a new process; half of the cases use 2-3 dependency files (read i reported in file i % n); a quarter of the single-file cases and all multi-file cases end with one malformed dependency file (any position; malformed from the start or after a well-formed prefix: must fail the command, be retried, and after the repair every path is honoured again); plus parser round trips "
                           "(checks/c11_parsers.py); distinct = (style, path class, event) classes judged")
        chk.assumptions = ["NUL, TAB, CR, LF in paths are outside what the Makefile format can express and are not generated"]
    finally:
        shutil.rmtree(sd, ignore_errors=True)
    return chk.finish()
