"""C18 - Ninja builds converge to the clean-build state and do no unnecessary work.

History = generated Ninja manifest (every command is harness/bscmd.c) + steps over {edit/touch a source, edit a header that is only
discovered through a depfile, edit the list of undeclared reads, delete an output, edit the manifest, build default / named target,
failure round}, run through `llbuild ninja build` (ASan+UBSan; TSan subset in thorough), -j1/-j4, with build.db and with --no-db.
Oracles: contents predicted in Python (primary), a clean build by the real ninja in a pristine copy (secondary), the commands' own
run log (start/end records with monotonic timestamps) and the exit status."""
import os, shutil, json, random, hashlib, time
import vlib, bslib
import nb_model as nm
from nb_model import CMD, PHONY

NINJA = "/usr/bin/ninja"
FAIL_MODES = ["exit 1", "exit 2", "exit 255", "exit 127", "signal 15", "signal 11", "signal 9", "signal 6", "late-exit 1", "late-exit 7", "missing-read", "missing-input"]


class Build:
    def __init__(self, rc, out, err, timed_out, recs, cmd):
        self.rc, self.timed_out, self.recs, self.cmd = rc, timed_out, recs, cmd
        e = err.decode("utf-8", "replace")
        self.text = out.decode("utf-8", "replace") + e
        self.sanitizer = None
        if rc not in (0, 1) or "Sanitizer" in e or "runtime error:" in e or "Assertion" in e:
            self.sanitizer = vlib.sanitizer_summary(e)
            if self.sanitizer is None and rc not in (0, 1):
                self.sanitizer = "exit status %d" % rc
        self.ran = [r["name"] for r in recs]


class History:
    def __init__(self, args):
        self.a = args
        self.seed, self.index, self.flavor = args["seed"], args["index"], args.get("flavor", "asan")
        self.rnd = random.Random(self.seed * 1000003 + self.index)
        self.sb = nm.NSandbox(os.path.join(args["sd"], "n%d" % self.index))
        self.man = None
        self.db = True
        self.log = []
        self.tick = 0
        self.changed_at = {}     # path -> tick of the last edit / deletion / (re)production
        self.last_ok = {}        # statement -> tick of its last successful run
        self.ok_cmdline = {}
        self.ok_reads = {}
        self.ok_deps = {}
        self.force_edit = []     # files whose declaration as an implicit input should be followed by an edit
        self.failed_last = set()
        self.maybe_skipped = set()   # statements a failed / cancelled build may have marked 'skipped' (they lose their prior result and re-run later)
        self.oo_seen = set()
        self.gen_stale = set()   # generator statements whose command line changed since their last run (documented: not re-run)
        self.counter = 0
        self.res = dict(viol=[], inconclusive=[], builds=0, ok_builds=0, null_builds=0, null_not_judged_nodb=0, failing_builds=0, retry_builds=0,
                        repair_builds=0, commands_run=0, files_checked=0, ninja_oracle_runs=0, order_pairs_checked=0, order_only_pairs_checked=0,
                        order_only_change_kept=0, unexplained_runs=0, indirectly_triggered_runs=0, cmdline_reruns_seen=0, implicit_reruns_seen=0, discovered_reruns_seen=0,
                        generator_cmdline_dontcare=0, restat_pruned_seen=0, failures_injected=0, failures_reached=0, touch_rerun=0, touch_kept=0,
                        steps=0, step_kinds={}, fail_modes={}, nontrivial=False, shape="", sample=None, edits_not_observable=0, double_runs=0)

    # ------------------------------------------------------------ helpers
    def note(self, s):
        self.log.append(s)

    def kind(self, k):
        self.res["step_kinds"][k] = self.res["step_kinds"].get(k, 0) + 1

    def viol(self, key, b=None, extra=None):
        w = dict(seed=self.seed, index=self.index, flavor=self.flavor, db=self.db, history=list(self.log),
                 manifest=nm.manifest_text(self.man, self.sb.path), extra=extra, output=(b.text[-1500:] if b else ""), cmd=(b.cmd if b else None))
        self.res["viol"].append((key, w))

    def bump(self, path):
        self.tick += 1
        self.changed_at[path] = self.tick

    def edit(self, path, content, replace_inode=False, gap_ns=10_000_000):
        if not self.sb.edit(path, content, replace_inode, gap_ns):
            self.res["edits_not_observable"] += 1
            return False
        self.bump(path)
        return True

    def write_manifest(self):
        self.sb.write_manifest(self.man)

    def cmdline(self, st):
        return nm.command_line(self.man, st, self.sb.path)

    def deps_of(self, st):
        return (tuple(st.ins), tuple(st.imps), tuple(st.oos))

    def reads_of(self, st):
        return nm.parse_reads(self.sb.read(st.reads_file)) if st.reads_file else []

    def data_inputs(self, st):
        """(path, class) for everything whose change must re-run the statement."""
        res = []
        for f in st.ins:
            for g in self.man.alias_files(f):
                res.append((g, "explicit" if g == f else "explicit-through-phony"))
        for f in st.imps:
            for g in self.man.alias_files(f):
                res.append((g, "implicit" if g == f else "implicit-through-phony"))
        for f in self.ok_reads.get(st.name, []):
            res.append((f, "depfile-discovered"))
        return res

    def order_inputs(self, st):
        """Files that are order-only for the statement (directly, or order-only inputs of a phony alias it names), not also data inputs."""
        data = set(p for p, _ in self.data_inputs(st))
        res = []

        def walk(f, through_oo):
            p = self.man.producer(f)
            if p is not None and p.kind == PHONY and f not in self.man.phony_sources:
                for i in p.ins + p.imps:
                    walk(i, through_oo)
                for i in p.oos:
                    walk(i, True)
            elif through_oo and f not in data and f not in res:
                res.append(f)
        for f in st.oos:
            walk(f, True)
        for f in st.ins + st.imps:
            walk(f, False)
        return res

    def triggers(self, st):
        r = []
        if st.name not in self.last_ok:
            return ["never-ran"]
        t = self.last_ok[st.name]
        if st.name in self.failed_last:
            r.append("retry")
        if self.ok_cmdline.get(st.name) != self.cmdline(st):
            r.append("cmdline")
        if self.ok_deps.get(st.name) != self.deps_of(st):
            r.append("dependency-list")
        for o in st.outs:
            if self.changed_at.get(o, 0) > t:
                r.append("output")
        for f, cls in self.data_inputs(st):
            if self.changed_at.get(f, 0) > t:
                r.append(cls)
        return r

    def pre_triggers(self):
        """Statements that have a reason to be looked at by the next build: a direct trigger, or (transitively) a producer of one of their
        data inputs has one (its task runs and may publish a new value even when its command is only 'updated', not run)."""
        pre = set()
        outs = set()
        for st in self.man.sts.values():     # manifest order is topological
            if st.kind == PHONY:
                if any(f in outs for f in st.ins + st.imps):
                    outs.update(st.outs)
                continue
            if self.triggers(st) or st.name in self.maybe_skipped or any(f in outs for f, _ in self.data_inputs(st)) \
                    or any(f in outs for f in st.ins + st.imps):
                pre.add(st.name)
                outs.update(st.outs)
        return pre

    # ------------------------------------------------------------ running
    def run_build(self, target=None, jobs=1, keep_going=False, chdir=False):
        pre = self.pre_triggers()
        self.sb.settle()
        cmd = [vlib.llbuild_bin(self.flavor), "ninja", "build"]
        cwd = self.sb.path
        if chdir:
            cmd += ["-C", self.sb.path]
            cwd = os.path.dirname(self.sb.path)
        cmd += ["--db", "build.db"] if self.db else ["--no-db"]
        cmd += ["-j", str(jobs)] if jobs != 4 or self.rnd.random() < 0.5 else ["-j4"]
        if keep_going:
            cmd += ["-k", "0"]
        if target:
            cmd += list(target)
        env = {}
        if self.flavor == "tsan":
            env["TSAN_OPTIONS"] = "halt_on_error=1:exitcode=66"
        rc, out, err, to = vlib.run_child(cmd, 180, env=env, cwd=cwd)
        b = Build(rc, out, err, to, self.sb.log_since(), " ".join(cmd))
        b.pre = pre
        self.res["builds"] += 1
        self.res["commands_run"] += len(b.recs)
        return b

    def fatal(self, b):
        """Crash / hang handling common to every build. Returns True when the history must stop."""
        if b.timed_out:
            self.res["inconclusive"].append("watchdog fired (seed %d index %d): %s" % (self.seed, self.index, b.cmd))
            return True
        if b.sanitizer:
            self.viol("crash during ninja build: " + b.sanitizer, b)
            return True
        return False

    def ninja_oracle(self, target):
        """Clean build of the current state by the real ninja in a pristine copy. Returns path -> bytes, or None when it fails."""
        self.res["ninja_oracle_runs"] += 1
        pr = nm.NSandbox(self.sb.path + ".clean")
        try:
            for f in self.man.sources + self.man.headers + self.man.late + [s.reads_file for s in self.man.sts.values() if s.reads_file]:
                c = self.sb.read(f)
                if c is not None:
                    with open(pr.p(f), "wb") as fh:
                        fh.write(c)
            with open(pr.p("build.ninja"), "w") as fh:
                fh.write(nm.manifest_text(self.man, pr.path))
            cmd = [NINJA, "-j", "4"] + (list(target) if target else [])
            rc, out, err, to = vlib.run_child(cmd, 180, cwd=pr.path)
            if rc != 0 or to:
                return None
            res = {}
            for st in self.man.sts.values():
                if st.kind == CMD:
                    for o in st.outs:
                        c = pr.read(o)
                        if c is not None:
                            res[o] = c
            return res
        finally:
            shutil.rmtree(pr.path, ignore_errors=True)

    # ------------------------------------------------------------ judging one build's run log
    def process_log(self, b, judge_unnecessary=True):
        """Walk the run records in start order: ordering monitor, order-only monitor, bookkeeping. Returns False on violation."""
        man = self.man
        by_name = {}
        for r in b.recs:
            by_name.setdefault(r["name"], []).append(r)
        for n, rs in by_name.items():
            if len(rs) > 1:
                self.res["double_runs"] += 1
        ok = True
        for r in sorted(b.recs, key=lambda r: r["start"]):
            st = man.sts.get(r["name"])
            if st is None or st.kind != CMD:
                continue
            # --- ordering: every producer that ran in this build finished before this consumer started
            classes = [(f, "explicit") for f in st.ins] + [(f, "implicit") for f in st.imps] + [(f, "order-only") for f in st.oos]
            seen = set()
            while classes:
                f, cls = classes.pop()
                if (f, cls) in seen:
                    continue
                seen.add((f, cls))
                p = man.producer(f)
                if p is None:
                    continue
                if p.kind == PHONY:
                    classes += [(g, cls) for g in p.ins + p.imps] + [(g, "order-only") for g in p.oos]
                    continue
                for pr in by_name.get(p.name, []):
                    self.res["order_pairs_checked"] += 1
                    if cls == "order-only":
                        self.res["order_only_pairs_checked"] += 1
                    if pr["start"] > r["start"] or (pr["end"] is not None and pr["end"] > r["start"]):
                        self.viol("a command started before the producer of its %s input finished" % cls, b,
                                  dict(consumer=r, producer=pr, input=f))
                        ok = False
            # --- why did it run?
            trig = self.triggers(st)
            if "cmdline" in trig:
                self.res["cmdline_reruns_seen"] += 1
            if "implicit" in trig or "implicit-through-phony" in trig:
                self.res["implicit_reruns_seen"] += 1
            if "depfile-discovered" in trig:
                self.res["discovered_reruns_seen"] += 1
            if not trig and self.db and judge_unnecessary and st.name not in b.pre:
                oo = [f for f in self.order_inputs(st) if self.changed_at.get(f, 0) > self.last_ok[st.name]]
                if oo:
                    self.viol("a change of only an order-only input re-ran the consumer", b, dict(consumer=st.name, order_only_changed=oo))
                    ok = False
                else:
                    self.res["unexplained_runs"] += 1
            elif not trig and self.db and judge_unnecessary:
                self.res["indirectly_triggered_runs"] += 1
            # --- bookkeeping
            self.tick += 1
            for o in st.outs + ([st.depfile] if st.depfile else []):
                self.changed_at[o] = self.tick
            succeeded = (r["rc"] == 0)
            if succeeded:
                self.last_ok[st.name] = self.tick
                self.ok_cmdline[st.name] = self.cmdline(st)
                self.ok_reads[st.name] = self.reads_of(st)
                self.ok_deps[st.name] = self.deps_of(st)
                self.failed_last.discard(st.name)
                self.gen_stale.discard(st.name)
            else:
                self.failed_last.add(st.name)
        return ok

    def engine_view_reachable(self, nodes):
        """Names of statements reachable from `nodes` when every already-built statement whose declared inputs changed WITHOUT a
        command-line change (or which is a generator) is followed through the inputs it had when it last ran: what a tool that only
        rescans previously requested dependencies can see (known finding C18 'dependency newly declared ...')."""
        man = self.man
        need, work = set(), list(nodes)
        while work:
            n = work.pop()
            p = man.producer(n)
            if p is None or p.name in need:
                continue
            need.add(p.name)
            deps = self.deps_of(p)
            old = self.ok_deps.get(p.name)
            if p.name in self.last_ok and old is not None and old != deps and (self.ok_cmdline.get(p.name) == self.cmdline(p) or p.generator):
                deps = old
            for lst in deps:
                work.extend(lst)
        return need

    def stale_cause(self, st, ran, nodes=None):
        """Why should `st` have re-run? (classification for the violation key)"""
        if st.name in ran:
            return "it ran, but with inputs that were not yet up to date"
        if nodes is not None and st.name not in self.engine_view_reachable(nodes):
            return ("its command never ran: it is needed through a dependency newly declared in the manifest for a command whose command line did not change"
                    if st.name not in self.last_ok else
                    "its command did not re-run although changed: declared inputs in the manifest (it is only reachable through a dependency newly declared for a command whose command line did not change)")
        if st.name not in self.last_ok:
            # distinguish the case where the statement is needed only because a dependency on it was newly declared for an
            # already-built statement whose command line did not change (one known defect) from every other reason
            # (transitively: the never-built statement may itself only be needed by other never-built statements)
            seen, work = set(), [st]
            while work:
                cur = work.pop()
                if cur.name in seen:
                    continue
                seen.add(cur.name)
                outs = set(cur.outs)
                for c in self.man.sts.values():
                    if c.name == cur.name:
                        continue
                    ins, imps, oos = self.deps_of(c)
                    if not (outs & (set(ins) | set(imps) | set(oos))):
                        continue
                    if c.name not in self.last_ok:
                        work.append(c)
                    elif self.ok_deps.get(c.name) != self.deps_of(c) and (self.ok_cmdline.get(c.name) == self.cmdline(c) or c.generator):   # a generator statement is documented not to re-run for a changed command line
                        return "its command never ran: it is needed through a dependency newly declared in the manifest for a command whose command line did not change"
            return "its command never ran"
        t = self.last_ok[st.name]
        cls, soft = set(), set()
        if self.ok_cmdline.get(st.name) != self.cmdline(st) and not st.generator:   # a generator statement is documented not to re-run for a changed command line
            cls.add("command line")
        old = self.ok_deps.get(st.name)
        deps_changed = old != self.deps_of(st)
        old_direct = (set(old[0]) | set(old[1])) if old else set()
        if deps_changed:
            soft.add("declared inputs in the manifest")
        for o in st.outs:
            if self.changed_at.get(o, 0) > t:
                cls.add("deleted output")
        for f, c in self.data_inputs(st):
            if self.changed_at.get(f, 0) > t:
                # with an edited input list, a changed input that the statement did not have when it last ran (directly, or possibly
                # through an alias) is what the known finding is about; a changed input it already had is not
                if deps_changed and c in ("explicit", "implicit") and f not in old_direct:
                    soft.add("newly declared %s input" % c)
                elif deps_changed and c.endswith("-through-phony"):
                    soft.add("possibly newly declared %s input" % c)
                else:
                    cls.add(c + " input")
        if st.name in self.failed_last:
            cls.add("previous failure")
        if cls and soft:
            return "its command did not re-run although changed: " + ", ".join(sorted(cls)) + " (its input list was edited as well)"
        return "its command did not re-run although changed: " + ", ".join(sorted(cls) + sorted(soft) or ["(nothing the harness tracked)"])

    def check_converged(self, b, target):
        """After a successful build: every output reachable from the target equals the clean-build content. Returns False to stop."""
        man, sb = self.man, self.sb
        nodes = man.target_nodes(target)
        pred = nm.predict(man, nodes, sb.read)
        reach = man.reachable(nodes)
        excluded = set(g for g in self.gen_stale if g in man.sts)
        if excluded:
            tainted = set(o for g in excluded for o in man.sts[g].outs)
            for st in man.sts.values():     # manifest order is topological
                reads = [f for f, _ in self.data_inputs(st)] + self.reads_of(st)
                if st.name not in excluded and any(f in tainted for f in reads):
                    excluded.add(st.name)
                if st.name in excluded:
                    tainted.update(st.outs)
        bad = []
        for st in reach:
            if st.kind != CMD or st.name in excluded:
                continue
            for o in st.outs:
                self.res["files_checked"] += 1
                got = sb.read(o)
                if got != pred[o]:
                    bad.append((st, o, got))
        if excluded:
            self.res["generator_cmdline_dontcare"] += 1
        ran = set(b.ran)
        # a changed command line must have re-run its command (content-neutral changes included)
        for st in reach:
            if st.kind == CMD and not st.generator and st.name in self.last_ok and st.name not in ran and self.ok_cmdline.get(st.name) != self.cmdline(st) \
                    and not any(st is s for s, _, _ in bad):
                self.viol("a changed command line did not re-run its command", b, dict(statement=st.name, was=self.ok_cmdline.get(st.name), now=self.cmdline(st)))
                return False
        if not bad:
            if self.rnd.random() < 0.12:
                clean = self.ninja_oracle(target)
                if clean is None or any(clean.get(o) != pred[o] for st in reach if st.kind == CMD for o in st.outs):
                    self.res["inconclusive"].append("prediction and the real ninja's clean build disagree (seed %d index %d)" % (self.seed, self.index))
                    return False
            return True
        clean = self.ninja_oracle(target)
        if clean is None or any(clean.get(o) != pred[o] for st in reach if st.kind == CMD for o in st.outs):
            self.res["inconclusive"].append("prediction and the real ninja's clean build disagree (seed %d index %d): %s" % (self.seed, self.index, bad[0][1]))
            return False
        st, o, got = bad[0]     # first in topological order: its inputs are as predicted
        self.viol("after a successful build an output differs from the clean-build content: " + self.stale_cause(st, ran, nodes), b,
                  dict(output=o, on_disk=(got[:60] if got is not None else None), clean=pred[o][:60], stale=[x[1] for x in bad][:8]))
        return False

    def features(self, st):
        f = []
        man = self.man
        if any(man.is_alias(i) for i in st.ins + st.imps):
            return "an input is a phony alias"
        if any(man.is_alias(i) for i in st.oos):
            f.append("order-only phony alias")
        if any(i in man.phony_sources for i in st.ins + st.imps):
            f.append("input declared by an input-less phony")
        if st.reads_file:
            f.append("depfile")
        if st.restat:
            f.append("restat")
        if st.generator:
            f.append("generator")
        if len(st.outs) > 1:
            f.append("multiple outputs")
        if st.pool:
            f.append("pool")
        return ", ".join(f) or "plain"

    def null_build(self, target, jobs):
        b = self.run_build(target, jobs)
        self.res["null_builds"] += 1
        self.note("  immediate rebuild -> rc=%d ran=%s" % (b.rc, b.ran))
        if self.fatal(b):
            return False
        if b.rc != 0:
            self.viol("immediate rebuild failed after a successful build", b)
            return False
        if not self.db:
            self.res["null_not_judged_nodb"] += 1
            return self.process_log(b, judge_unnecessary=False)
        if b.recs:
            first = None
            for st in self.man.sts.values():
                if st.name in b.ran:
                    first = st
                    break
            self.viol("immediate rebuild re-ran a command (%s)" % (self.features(first) if first else "unknown command"), b, dict(reran=b.ran))
            return False
        return True

    def judged_build(self, target, jobs, expect_ran=()):
        """Build that must succeed; judged for convergence, ordering, order-only, command-line; then the immediate rebuild."""
        chdir = self.rnd.random() < 0.1
        pre_touch = dict(self.touched) if hasattr(self, "touched") else {}
        b = self.run_build(target, jobs, chdir=chdir)
        self.note("build(target=%r, jobs=%d%s) -> rc=%d ran=%s" % (target, jobs, ", -C" if chdir else "", b.rc, b.ran))
        if self.fatal(b):
            return False
        if b.rc != 0:
            clean = self.ninja_oracle(target)
            if clean is None:
                self.res["inconclusive"].append("build failed and so does the real ninja's clean build (seed %d index %d): %s" % (self.seed, self.index, b.text[-300:]))
            else:
                self.viol("build failed although every command succeeds (the real ninja builds the same state)", b)
            return False
        self.res["ok_builds"] += 1
        # restat observation (not judged): a restat producer ran and some data consumer did not
        pre_ok = dict(self.last_ok)
        if not self.process_log(b):
            return False
        for n in expect_ran:
            if n not in b.ran:
                self.viol("a command that failed was not re-executed after the cause was removed", b, dict(statement=n))
                return False
        for st in self.man.sts.values():
            if st.kind == CMD and st.restat and st.name in b.ran and any(c not in b.ran and c in pre_ok for c in self.man.downstream(st.name)):
                self.res["restat_pruned_seen"] += 1
                break
        for path, consumers in pre_touch.items():
            for c in consumers:
                if c in b.ran:
                    self.res["touch_rerun"] += 1
                else:
                    self.res["touch_kept"] += 1
        self.touched = {}
        for st in self.man.reachable(self.man.target_nodes(target)):
            if st.kind == CMD and st.name in self.last_ok and st.name not in b.ran:
                for f in self.order_inputs(st):
                    t = self.changed_at.get(f, 0)
                    if t > self.last_ok[st.name] and (st.name, f, t) not in self.oo_seen:
                        self.oo_seen.add((st.name, f, t))
                        self.res["order_only_change_kept"] += 1
        if not self.check_converged(b, target):
            return False
        reach = [s for s in self.man.reachable(self.man.target_nodes(target)) if s.kind == CMD]
        if b.recs and len(b.recs) < len(reach) and self.edits_since_build:
            self.res["nontrivial"] = True
        self.edits_since_build = 0
        self.builds_since_edit = 1
        self.maybe_skipped -= set(st.name for st in self.man.reachable(self.man.target_nodes(target)))
        return self.null_build(target, jobs)

    # ------------------------------------------------------------ steps
    def populate(self):
        man, rnd = self.man, self.rnd
        for s in man.sources + man.headers + man.late:
            self.edit(s, "%s v%d\n" % (s, rnd.randint(0, 9)), gap_ns=1000)
        for st in man.sts.values():
            if st.reads_file:
                self.edit(st.reads_file, "".join(r + "\n" for r in nm.gen_reads(rnd, man, st)), gap_ns=1000)
        self.write_manifest()

    def all_targets(self):
        return [o for s in self.man.sts.values() for o in s.outs if o not in self.man.phony_sources]

    def cmds(self):
        return [s for s in self.man.sts.values() if s.kind == CMD]

    def files_before(self, st):
        """Sources and outputs of command statements that precede st in the manifest (keeps the graph acyclic)."""
        res = list(self.man.sources)
        for s in self.man.sts.values():
            if s.name == st.name:
                break
            if s.kind == CMD:
                res += s.outs
        return res

    def step_edit(self):
        """One random non-build step. Returns True when something was changed."""
        man, rnd, sb = self.man, self.rnd, self.sb
        self.counter += 1
        c = self.counter
        x = rnd.random()
        cmds = self.cmds()
        und = [st for st in cmds if st.undecl]
        if und and x < 0.25:
            st = rnd.choice(und)
            f = st.undecl.pop(0)
            st.imps.append(f)
            if not any(f in q.undecl for q in cmds) and f not in man.sources:
                man.sources.append(f)
                self.force_edit.append(f)
            self.kind("declare_implicit_input_cmdline_unchanged")
            self.note("declare_implicit(%s, %s)" % (st.name, f))
            self.write_manifest()
            return True
        if self.force_edit and self.builds_since_edit and x < 0.7:
            s = self.force_edit.pop(0)
            self.kind("edit_source")
            self.note("edit_source(%s)  # declared late" % s)
            return self.edit(s, "%s edited %d\n" % (s, c))
        if x < 0.10:
            # targeted: edit a source upstream of something a command only reaches through a phony alias / an order-only input /
            # an order-only input that it also reads and reports through its depfile (the generated-header pattern)
            want = rnd.choice(["alias", "order-only", "order-only+read"])
            want_alias = want == "alias"
            cands = []
            for st in cmds:
                if want == "order-only+read":
                    rd = set(self.reads_of(st))
                    fs = [f for f in st.oos if f in rd]
                    cands += [f for f in fs if man.producer(f) is None and f in man.sources]     # a plain source used that way: edited directly below
                else:
                    fs = [g for f in st.ins + st.imps if man.is_alias(f) for g in man.alias_files(f)] if want_alias else self.order_inputs(st)
                cands += [f for f in fs if man.producer(f) is not None and man.producer(f).kind == CMD]
            srcs = []
            if cands:
                work, seen = [rnd.choice(cands)], set()
                while work:
                    f = work.pop()
                    if f in seen:
                        continue
                    seen.add(f)
                    pr = man.producer(f)
                    if pr is None or f in man.phony_sources:
                        if f in man.sources:
                            srcs.append(f)
                    else:
                        work += pr.ins + pr.imps
            if srcs:
                s = rnd.choice(sorted(srcs))
                self.kind({"alias": "edit_source_behind_alias", "order-only": "edit_source_behind_order_only", "order-only+read": "edit_source_behind_order_only_input_that_is_also_read"}[want])
                self.note("edit_source(%s)  # upstream of %s" % (s, {"alias": "a phony alias", "order-only": "an order-only input", "order-only+read": "an order-only input that the command also reads (depfile)"}[want]))
                return self.edit(s, "%s edited %d\n" % (s, c))
        if x < 0.26:
            s = rnd.choice(man.sources)
            self.kind("edit_source")
            self.note("edit_source(%s)" % s)
            return self.edit(s, "%s edited %d\n" % (s, c), replace_inode=rnd.random() < 0.3)
        if x < 0.31:
            s = rnd.choice(man.sources + man.headers)
            self.kind("touch_source")
            self.note("touch_source(%s)" % s)
            if self.edit(s, None):
                self.touched[s] = [st.name for st in cmds if any(f == s for f, _ in self.data_inputs(st))]
                return True
            return False
        if x < 0.41:
            used = [h for h in man.headers if any(h in self.reads_of(st) for st in cmds)]
            if not used:
                return False
            h = rnd.choice(used)
            self.kind("edit_discovered_header")
            self.note("edit_header(%s)" % h)
            return self.edit(h, "%s edited %d\n" % (h, c))
        if x < 0.46:
            ds = [st for st in cmds if st.reads_file]
            if not ds:
                return False
            st = rnd.choice(ds)
            new = "".join(r + "\n" for r in nm.gen_reads(rnd, man, st))
            if new.encode() == sb.read(st.reads_file):
                return False
            self.kind("edit_reads_list")
            self.note("edit_reads(%s -> %s)" % (st.reads_file, new.split()))
            return self.edit(st.reads_file, new)
        if x < 0.58:
            outs = [o for st in cmds for o in st.outs if sb.exists(o)]
            if not outs:
                return False
            o = rnd.choice(outs)
            sb.remove(o)
            self.bump(o)
            self.kind("delete_output")
            self.note("delete_output(%s)" % o)
            return True
        # ---- manifest edits
        if x < 0.66 and cmds:
            st = rnd.choice(cmds)
            st.salt = "n%d" % c
            if st.generator and st.name in self.last_ok:
                self.gen_stale.add(st.name)
            self.kind("change_salt")
            self.note("change_salt(%s)" % st.name)
        elif x < 0.73 and cmds:
            st = rnd.choice(cmds)
            st.note = c
            self.kind("change_cmdline_neutral")
            self.note("change_note(%s)" % st.name)
        elif x < 0.78:
            name = "N%d" % c
            files = list(man.sources) + [o for s in cmds for o in s.outs]
            produced = [o for s in cmds for o in s.outs]
            aliases = [o for s in man.sts.values() if s.kind == PHONY for o in s.outs if o not in man.phony_sources]
            st = nm.new_cmd(rnd, man, name, files, produced, aliases)
            man.sts[name] = st
            if st.reads_file:
                self.edit(st.reads_file, "".join(r + "\n" for r in nm.gen_reads(rnd, man, st)))
            if man.defaults and rnd.random() < 0.5:
                man.defaults.append(st.outs[0])
            self.kind("add_statement")
            self.note("add_statement(%s)" % name)
        elif x < 0.82:
            leaves = [s for s in man.sts.values() if not any(man.consumers(o) for o in s.outs) and not (man.defaults and any(o in man.defaults for o in s.outs))
                      and not any(o in man.phony_sources for o in s.outs)]
            if len(man.sts) < 3 or not leaves:
                return False
            st = rnd.choice(leaves)
            if len([s for s in cmds if s.name != st.name]) < 1:
                return False
            del man.sts[st.name]
            if not man.roots() and not man.defaults:
                man.sts[st.name] = st
                return False
            self.kind("remove_statement")
            self.note("remove_statement(%s)" % st.name)
        elif x < 0.87 and cmds:
            st = rnd.choice(cmds)
            cand = [f for f in self.files_before(st) if f not in st.imps + st.oos]
            if not cand:
                return False
            new = rnd.sample(cand, rnd.randint(1, min(3, len(cand))))
            if new == st.ins:
                return False
            st.ins = new
            if st.generator and st.name in self.last_ok:
                self.gen_stale.add(st.name)
            self.kind("rewire_explicit_inputs")
            self.note("rewire(%s, %s)" % (st.name, new))
        elif x < 0.92 and cmds:
            st = rnd.choice(cmds)
            reads = self.reads_of(st)
            removable = [f for f in st.oos if f not in reads]
            if removable and rnd.random() < 0.5:
                f = rnd.choice(removable)
                st.oos.remove(f)
                self.note("remove_order_only(%s, %s)" % (st.name, f))
            else:
                cand = [f for f in self.files_before(st) if f not in st.ins + st.imps + st.oos and man.producer(f) is not None]
                if not cand:
                    return False
                f = rnd.choice(cand)
                st.oos.append(f)
                self.note("add_order_only(%s, %s)" % (st.name, f))
            self.kind("change_order_only_inputs")
        elif x < 0.97 and cmds:
            st = rnd.choice(cmds)
            removable = [f for f in st.imps if f != st.reads_file]
            if removable and rnd.random() < 0.5:
                f = rnd.choice(removable)
                st.imps.remove(f)
                self.note("remove_implicit(%s, %s)" % (st.name, f))
            else:
                cand = [f for f in self.files_before(st) if f not in st.ins + st.imps + st.oos]
                if not cand:
                    return False
                f = rnd.choice(cand)
                st.imps.append(f)
                self.note("add_implicit(%s, %s)" % (st.name, f))
            if st.generator and st.name in self.last_ok:
                self.gen_stale.add(st.name)
            self.kind("change_implicit_inputs")
        else:
            cands = [o for s in man.sts.values() for o in s.outs if o not in man.phony_sources]
            man.defaults = rnd.sample(cands, min(len(cands), rnd.randint(1, 2))) if rnd.random() < 0.7 else None
            if not man.defaults and not man.roots():
                man.defaults = [cands[-1]]
            self.kind("change_default")
            self.note("change_default(%s)" % man.defaults)
        self.write_manifest()
        return True

    def fail_round(self, jobs):
        """Inject failures, failing build, retry with nothing repaired, repair, build. Returns False to stop the history."""
        man, rnd, sb = self.man, self.rnd, self.sb
        nodes = man.target_nodes(None)
        reach = [s for s in man.reachable(nodes) if s.kind == CMD]
        if not reach:
            return True
        victims = rnd.sample(reach, min(len(reach), rnd.randint(1, 2)))
        plan, restore, failfiles = {}, [], []
        phony_used = set(f for s in man.sts.values() if s.kind == PHONY for f in s.ins + s.imps + s.oos + s.outs)
        for v in victims:
            self.counter += 1
            mode = rnd.choice(FAIL_MODES)
            if v.generator and mode.startswith("late-exit"):
                # documented deviation shared with ninja: a generator statement is judged by mtimes alone, so one that wrote its outputs and then
                # failed looks up to date afterwards; not injected
                mode = "exit 3"
            if mode == "missing-input":
                cand = [f for f in v.ins + v.imps if f in man.sources and f not in phony_used and not any(f in s.oos for s in man.sts.values())]
                if not cand or restore:
                    mode = "exit 3"
                else:
                    f = cand[0]
                    restore.append((f, sb.read(f)))
                    sb.remove(f)
                    self.bump(f)
                    for s in reach:
                        if f in s.ins + s.imps:
                            plan[s.name] = "missing-input"
                    continue
            if v.name in plan:
                continue
            # make sure the victim really has to run
            srcs = [f for f, _ in self.data_inputs(v) if f in man.sources and sb.exists(f)]
            if srcs and (v.generator or rnd.random() < 0.5):
                self.edit(srcs[0], "%s forced %d\n" % (srcs[0], self.counter))
            elif not v.generator:
                v.salt = "f%d" % self.counter
            else:
                continue
            with open(sb.p(v.name + ".fail"), "w") as fh:
                fh.write(mode + "\n")
            failfiles.append(v.name + ".fail")
            plan[v.name] = mode
        if not plan:
            return True
        self.write_manifest()
        for m in plan.values():
            self.res["fail_modes"][m.split()[0]] = self.res["fail_modes"].get(m.split()[0], 0) + 1
        self.res["failures_injected"] += len(plan)
        keep_going = rnd.random() < 0.4
        self.kind("fail_round")
        self.note("inject %s%s" % (", ".join("%s:%s" % kv for kv in sorted(plan.items())), " (-k 0)" if keep_going else ""))
        blocked_data, blocked_oo = set(), set()
        attempted_total = set()
        for attempt in range(2):
            b = self.run_build(None, jobs, keep_going=keep_going)
            self.res["failing_builds" if attempt == 0 else "retry_builds"] += 1
            self.note("build(jobs=%d%s) -> rc=%d ran=%s" % (jobs, ", -k 0" if keep_going else "", b.rc, b.ran))
            if self.fatal(b):
                return False
            started = set(b.ran)
            attempted = set(n for n in started if n in plan and plan[n] != "missing-input")
            if "missing input" in b.text:
                attempted |= set(n for n, m in plan.items() if m == "missing-input")
            attempted_total |= attempted
            for f in attempted_total:
                blocked_data |= man.downstream(f, data_only=True)
            # order-only: only DIRECT order-only consumers (through aliases) of something that failed or is blocked; a clean statement in
            # between is not blocked, so nothing is concluded about what lies behind it
            failed_outs = set(o for n in attempted_total | blocked_data if n in man.sts for o in man.sts[n].outs)
            blocked_oo = set(st.name for st in self.cmds() if st.name not in blocked_data and st.name not in attempted_total
                             and any(f in failed_outs for f in self.order_inputs(st)))
            self.maybe_skipped |= b.pre | blocked_data | blocked_oo
            wrongly = sorted(n for n in started if n in plan and plan[n] == "missing-input")
            if wrongly:
                self.viol("a command ran although a declared input is missing and nothing produces it", b, dict(ran=wrongly, failing=plan))
                return False
            bad = sorted((started - set(plan)) & blocked_data)
            if bad:
                up = [f for f in attempted_total if bad[0] in man.downstream(f)]
                d = man.sts[bad[0]]
                fouts = set(o for f in up for o in man.sts[f].outs)
                if any(f in fouts for f in d.ins + d.imps):
                    how = "it consumes the failed command's output directly"
                elif any(g in fouts for f in d.ins + d.imps for g in man.alias_files(f)):
                    how = "it consumes the failed command's output through a phony alias"
                else:
                    how = "behind an intermediate statement"
                self.viol("a dependent of a failed command ran (%s; %s)" % (plan[up[0]].split()[0], how), b, dict(ran=bad, failing=plan, attempted=sorted(attempted_total)))
                return False
            bad = sorted((started - set(plan)) & (blocked_oo - blocked_data))
            if bad:
                self.viol("a command ran although the producer of its order-only input failed%s" % (" (-k 0)" if keep_going else ""), b,
                          dict(ran=bad, failing=plan, attempted=sorted(attempted_total)))
                return False
            if attempted and b.rc == 0:
                self.viol("exit status 0 although a command failed (%s)" % plan[sorted(attempted)[0]], b, dict(failing=plan, attempted=sorted(attempted)))
                return False
            if attempt == 1 and attempted_total and not attempted:
                self.viol("a failed command was not retried by the next build" + (" (which exited 0)" if b.rc == 0 else ""), b, dict(failing=plan, failed_before=sorted(attempted_total)))
                return False
            if not self.process_log(b, judge_unnecessary=False):
                return False
        if attempted_total:
            self.res["failures_reached"] += len(attempted_total)
            self.res["nontrivial"] = True
        # --- repair
        for ff in failfiles:
            sb.remove(ff)
        for f, content in restore:
            self.edit(f, content)
        self.note("repair")
        self.res["repair_builds"] += 1
        self.edits_since_build += 1
        must = [n for n in attempted_total if plan[n] != "missing-input"]
        return self.judged_build(None, jobs, expect_ran=must)

    # ------------------------------------------------------------ the history
    def run(self):
        rnd = self.rnd
        self.touched = {}
        self.edits_since_build = 0
        self.builds_since_edit = 0
        try:
            self.man = nm.gen_manifest(rnd)
            self.db = self.a.get("db", rnd.random() < 0.8)
            self.populate()
            nsteps = self.a.get("steps") or rnd.randint(4, 12)
            self.note("config: %s, %s, %d steps, %d statements" % ("--db build.db" if self.db else "--no-db", self.flavor, nsteps, len(self.man.sts)))
            force_j4 = self.flavor == "tsan"
            steps = 0
            first = True
            while steps < nsteps:
                jobs = 4 if force_j4 or rnd.random() < 0.5 else 1
                x = rnd.random()
                last = steps == nsteps - 1
                if first and x < 0.8 or (last and self.edits_since_build):
                    do = "build"
                elif x < 0.30:
                    do = "build"
                elif x < 0.38 and steps + 3 <= nsteps:
                    do = "fail"
                else:
                    do = "edit"
                first = False
                if do == "edit":
                    if self.step_edit():
                        steps += 1
                        self.edits_since_build += 1
                        self.builds_since_edit = 0
                    continue
                if do == "fail":
                    steps += 3
                    if not self.fail_round(jobs):
                        break
                    continue
                steps += 1
                target = None
                if rnd.random() < 0.35:
                    at = self.all_targets()
                    target = rnd.sample(at, 1 if rnd.random() < 0.75 else min(len(at), rnd.randint(2, 3)))
                self.kind("build_default" if target is None else "build_named_target")
                if not self.judged_build(target, jobs):
                    break
            if steps >= nsteps and self.edits_since_build and not self.res["viol"] and not self.res["inconclusive"]:
                self.kind("build_default")
                self.judged_build(None, 4 if force_j4 or rnd.random() < 0.5 else 1)
            self.res["steps"] = steps
            if self.res["sample"] is None and len(self.log) > 5 and not self.res["viol"]:
                self.res["sample"] = {"history": list(self.log), "manifest": nm.manifest_text(self.man, "<sandbox>")}
        finally:
            self.res["shape"] = hashlib.sha1("|".join(self.log).encode()).hexdigest()
            shutil.rmtree(self.sb.path, ignore_errors=True)
            shutil.rmtree(self.sb.path + ".clean", ignore_errors=True)
        return self.res


def run_history(args):
    return History(args).run()


SUMS = ["builds", "ok_builds", "null_builds", "null_not_judged_nodb", "failing_builds", "retry_builds", "repair_builds", "commands_run", "files_checked",
        "ninja_oracle_runs", "order_pairs_checked", "order_only_pairs_checked", "order_only_change_kept", "unexplained_runs", "indirectly_triggered_runs", "cmdline_reruns_seen", "implicit_reruns_seen",
        "discovered_reruns_seen", "generator_cmdline_dontcare", "restat_pruned_seen", "failures_injected", "failures_reached", "touch_rerun", "touch_kept",
        "steps", "edits_not_observable", "double_runs"]


def run(tier, replay):
    chk = vlib.Check("C18", tier)
    vlib.build_flavor("asan")
    bslib.bscmd_path()
    if not os.path.exists(NINJA):
        raise vlib.HarnessFailure("the reference ninja is not installed at " + NINJA)
    sd = vlib.scratch_dir("c18")
    try:
        th = tier == "thorough"
        n = 120 if not th else 3000
        jobs = [dict(seed=chk.seed, index=i, sd=sd, flavor="asan") for i in range(n)]
        if th:
            vlib.build_flavor("tsan")
            jobs += [dict(seed=chk.seed, index=1000000 + i, sd=sd, flavor="tsan") for i in range(150)]
        if replay:
            w = json.load(open(replay))["witness"]
            if w.get("flavor") == "tsan":
                vlib.build_flavor("tsan")
            jobs = [dict(seed=w["seed"], index=w["index"], sd=sd, flavor=w.get("flavor", "asan"))]
        results = vlib.pmap(run_history, jobs)
        tot = {k: 0 for k in SUMS}
        kinds, modes, shapes = {}, {}, set()
        nodb = 0
        for r in results:
            for k in SUMS:
                tot[k] += r[k]
            for k, v in r["step_kinds"].items():
                kinds[k] = kinds.get(k, 0) + v
            for k, v in r["fail_modes"].items():
                modes[k] = modes.get(k, 0) + v
            if r["nontrivial"]:
                shapes.add(r["shape"])
            for key, w in r["viol"]:
                chk.violation(key, w)
            for m in r["inconclusive"]:
                chk.inconclusive.append(m)
            if r["sample"]:
                chk.sample(r["sample"])
        chk.add(tot["builds"], len(shapes))
        chk.cov.update(tot)
        chk.cov["histories"] = len(results)
        chk.cov["steps_by_kind"] = kinds
        chk.cov["failure_modes_injected"] = modes
        chk.cov["rule"] = ("history = generated Ninja manifest whose every command is one deterministic helper (explicit / implicit / order-only inputs, multiple outputs, phony aliases "
                           "and phony-declared sources, depfile + deps = gcc with undeclared reads incl. the generated-header pattern, restat, generator, pools, console pool, default "
                           "statements) + 4..12 steps over {edit/touch a source with a FORWARD real-time mtime, edit a depfile-discovered header, edit the list of undeclared reads, "
                           "delete an output, manifest edits (salt, content-neutral command-line change, add/remove statement, rewire $in, add/remove implicit and order-only inputs, "
                           "default), build default / named target, failure round (inject, build, retry, repair, build)}; each build is a new `llbuild ninja build` process (ASan+UBSan; "
                           "TSan -j4 subset in thorough), -j1 / -j4, --db build.db (80%) / --no-db. Judged: contents of every output reachable from the built target equal contents "
                           "PREDICTED in Python (cross-checked against clean builds by the real ninja 1.11.1, disagreement = inconclusive); immediate rebuild appends nothing to the "
                           "commands' run log (database mode); a command that ran with nothing but an order-only input changed; producer finished before consumer started (run-log "
                           "timestamps) for all three input classes; a changed command line re-ran; failing command: dependents do not start, exit status non-zero, retried by the "
                           "next build, re-executed after repair, then convergence. non-trivial = a history with an incremental build that ran some but not all commands after an "
                           "edit, or a reached injected failure")
        chk.assumptions = ["commands are deterministic functions of what they read, by construction (one helper, hash recomputed in Python)",
                           "edits move mtimes forward in real time (update-if-newer is a documented Ninja-compatible mtime comparison); every edit is verified to change (dev, inode, size, mtime)",
                           "output directories exist before the build (llbuild's ninja mode documents that it does not create them: tests/Ninja/Build/nonexistent-subdir.ninja, XFAIL)",
                           "not judged, only counted: immediate rebuilds with --no-db (nothing persisted: everything re-runs), generator statements whose command line changed "
                           "(documented: not re-run) and everything downstream of them, restat pruning, re-runs after touch-only edits, re-runs the harness cannot explain outside "
                           "immediate rebuilds"]
        if tot["ok_builds"] == 0 or tot["null_builds"] == 0:
            chk.inconclusive.append("no successful build was observed")
    finally:
        shutil.rmtree(sd, ignore_errors=True)
    return chk.finish()
