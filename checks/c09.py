"""C09 - null builds run nothing; a command re-runs exactly when its definition changed; signatures separate definitions."""
import os, shutil, json, random, copy
import vlib, bslib, bs_runner, bs_history as bh
from bslib import Cmd

SIG_LIBS = ["llbuildBuildSystem", "llbuildCore", "llbuildBasic", "llvmSupport"]


def base_desc(rnd):
    """A small chain/dag of shell commands with every optional attribute present on the subject command 'S'."""
    d = bslib.Desc()
    d.sources = ["src/a.txt", "src/b.txt", "src/c.txt", "src/hdr.h"]
    up = Cmd("U", "shell", inputs=["src/a.txt"], outputs=["out/u.o"], salt="u")
    s = Cmd("S", "shell", inputs=["src/b.txt", "out/u.o"], outputs=["out/s.o", "out/s2.o"], salt="s")
    s.extra_args = ["--x", "ab", "c"]
    s.env = {"AB": "C", "K": "v"}
    s.inherit_env = True
    s.reads = ["src/hdr.h"]
    s.deps_style = "makefile"
    tf = lambda pr: "true" if rnd.random() < pr else "false"
    s.attrs.update({"description": "RUN S", "allow-missing-inputs": tf(0.3), "allow-modified-outputs": tf(0.3), "always-out-of-date": "false", "can-safely-interrupt": tf(0.7), "control-enabled": tf(0.6)})
    if rnd.random() < 0.3:
        s.attrs["working-directory"] = "."
    dn = Cmd("D", "shell", inputs=["out/s.o"], outputs=["out/d.o"], salt="d")
    side = Cmd("X", "shell", inputs=["src/c.txt"], outputs=["out/x.o"], salt="x")
    if rnd.random() < 0.5:
        # an output that the build mutates (only its existence is checked) declared before the ordinary one
        side.outputs = ["out/x_mut.o", "out/x.o"]
        d.nodes["out/x_mut.o"] = {"is-mutated": "true"}
    for c in (up, s, dn, side):
        c.attrs.setdefault("description", "RUN " + c.name)
        d.cmds[c.name] = c
    d.cmds["Call"] = Cmd("Call", "phony", inputs=["out/u.o", "out/s.o", "out/s2.o", "out/d.o", "out/x.o"], outputs=["<all>"])
    d.targets[""] = ["<all>"]
    d.default = ""
    return d


def mutations():
    """(name, relevant, fn(desc) -> name of the subject command afterwards, needs_build_ok)."""
    def salt(d): d.cmds["S"].salt = "s-changed"; return "S"
    def addarg(d): d.cmds["S"].extra_args.append("zz"); return "S"
    def argbound(d): d.cmds["S"].extra_args = ["--x", "a", "bc"]; return "S"
    def envval(d): d.cmds["S"].env["K"] = "w"; return "S"
    def envkey(d): e = d.cmds["S"].env; e["K2"] = e.pop("K"); return "S"
    def envbound(d): e = d.cmds["S"].env; del e["AB"]; e["A"] = "BC"; d.cmds["S"].env = dict(sorted(e.items())); return "S"
    def inherit(d): d.cmds["S"].inherit_env = False; return "S"
    def addin(d): d.cmds["S"].inputs.append("src/c.txt"); return "S"
    def addout(d): d.cmds["S"].outputs.append("out/s3.o"); d.cmds["Call"].inputs.append("out/s3.o"); return "S"
    def in2out(d):
        c = d.cmds["S"]; c.inputs.remove("src/b.txt"); c.outputs.insert(0, "src/b.txt"); return "S"
    def depstyle(d): d.cmds["S"].extra["deps-style"] = "makefile-ignoring-subsequent-outputs"; return "S"
    def flip(d, k): a = d.cmds["S"].attrs; a[k] = "false" if a.get(k) == "true" else "true"; return "S"
    def ami(d): return flip(d, "allow-missing-inputs")
    def amo(d): return flip(d, "allow-modified-outputs")
    def aood(d): d.cmds["S"].attrs["always-out-of-date"] = "true"; return "S"
    def csi(d): return flip(d, "can-safely-interrupt")
    def wdir(d): a = d.cmds["S"].attrs; a["working-directory"] = "./" if a.get("working-directory") == "." else "."; return "S"   # same directory, another definition
    def ctl(d): return flip(d, "control-enabled")
    def rename(d):
        items = list(d.cmds.items()); d.cmds = {}
        for n, v in items:
            if n == "S": v.name = "S_renamed"
            d.cmds[v.name] = v
        return "S_renamed"
    def descr(d): d.cmds["S"].attrs["description"] = "RUN S (new text)"; return "S"
    def reorder(d): d.cmds = dict(reversed(list(d.cmds.items()))); return "S"
    def target(d): d.targets["extra"] = ["out/x.o"]; return "S"
    def otherdesc(d): d.cmds["X"].attrs["description"] = "other"; return "S"
    return [("args: salt", True, salt), ("args: extra argument appended", True, addarg), ("args: one character moved across the boundary of adjacent arguments", True, argbound),
            ("env: value", True, envval), ("env: key", True, envkey), ("env: one character moved from key to value", True, envbound), ("inherit-env", True, inherit),
            ("inputs: declared input added", True, addin), ("outputs: declared output added", True, addout), ("node moved from inputs to outputs", True, in2out),
            ("deps-style", True, depstyle), ("allow-missing-inputs", True, ami), ("allow-modified-outputs", True, amo), ("always-out-of-date", True, aood),
            ("can-safely-interrupt", True, csi), ("working-directory", True, wdir), ("control-enabled", True, ctl), ("name", True, rename),
            ("description", False, descr), ("order of commands in the file", False, reorder), ("additional target", False, target), ("description of an unrelated command", False, otherdesc)]


def explicit_sig_mutations():
    def sig(d): d.cmds["S"].attrs["signature"] = "explicit-2"; return "S"
    def argonly(d): d.cmds["S"].extra_args.append("ignored-by-explicit-signature"); return "S"
    return [("explicit signature", True, sig)]


def signatures(binp, sb):
    ev = sb.p("sig-events.jsonl")
    if os.path.exists(ev):
        os.unlink(ev)
    rc, out, err, to = vlib.run_child([binp, "--signatures", "--events", ev], 60, cwd=sb.path)
    sigs = {}
    if os.path.exists(ev):
        for l in open(ev):
            try:
                r = json.loads(l)
            except ValueError:
                continue
            if r.get("ev") == "preparing":
                sigs[r["cmd"]] = r["sig"]
    return sigs, rc, err.decode("utf-8", "replace")


def pair_case(args):
    """One definition pair: monitor 2 (re-run iff relevant) and monitor 3 (signatures differ / are stable)."""
    seed, index, sd, binp = args
    rnd = random.Random(seed * 7919 + index)
    res = dict(viol=[], pairs=0, builds=0, sig_pairs=0, kinds=[], inconclusive=[])
    muts = mutations()
    explicit = rnd.random() < 0.2
    name, relevant, fn = muts[index % len(muts)]
    sb = bslib.Sandbox(os.path.join(sd, "p%d" % index))
    try:
        d0 = base_desc(rnd)
        if explicit:
            d0.cmds["S"].attrs["signature"] = "explicit-1"
            if rnd.random() < 0.5:
                name, relevant, fn = explicit_sig_mutations()[0]
            elif relevant and name not in ("name", "inputs: declared input added", "outputs: declared output added", "node moved from inputs to outputs",
                                           "allow-missing-inputs", "allow-modified-outputs", "always-out-of-date"):
                relevant = None   # with an explicit signature the built-in strategy is replaced: not judged
        for s in d0.sources:
            sb.write(s, "source %s %d\n" % (s, rnd.randint(0, 99)))
        sb.write("S.reads", "src/hdr.h\n")
        sb.write_desc(d0)
        env = {"K": "inherited", "AB": "inherited"}
        r0 = bslib.build(sb, "asan", extra_env=env)
        res["builds"] += 1
        wit = dict(seed=seed, index=index, attribute=name, explicit_signature=explicit)
        if r0.sanitizer:
            res["viol"].append(("crash: " + r0.sanitizer, wit)); return res
        if r0.rc != 0:
            res["inconclusive"].append("base build failed: " + r0.text[-300:]); return res
        sig0, rc, e = signatures(binp, sb)
        # same description, separate processes: identical signatures (ASLR on)
        for rep in range(2):
            sigr, rc, e = signatures(binp, sb)
            if sigr != sig0:
                res["viol"].append(("signature: the same definition has different signatures in different processes", dict(wit, a=sig0, b=sigr)))
        d1 = d0.clone()
        subj = fn(d1)
        sb.write_desc(d1)
        sig1, rc, e = signatures(binp, sb)
        res["sig_pairs"] += 1
        old = sig0.get("S"); new = sig1.get(subj)
        if old is None or new is None:
            res["inconclusive"].append("no signature observed for the subject command (%s): %s" % (name, e[-200:]))
        elif relevant and old == new:
            res["viol"].append(("signature: definitions differing in '%s' have the same signature" % name, dict(wit, signature=old)))
        elif relevant is False and name == "description" and old != new:
            pass  # whether description is hashed is decided by the re-run monitor below
        r1 = bslib.build(sb, "asan", extra_env=env)
        res["builds"] += 1
        res["pairs"] += 1
        res["kinds"].append(name)
        if r1.sanitizer:
            res["viol"].append(("crash: " + r1.sanitizer, wit)); return res
        if relevant and subj not in r1.ran:
            res["viol"].append(("re-run: a change of '%s' did not re-execute the command" % name, dict(wit, ran=r1.ran, output=r1.text[-400:])))
        if relevant is False and r1.ran:
            res["viol"].append(("re-run: a change of '%s' (not part of the definition) re-executed commands" % name, dict(wit, ran=r1.ran)))
        # output tampering re-runs the producer, and nothing that is not downstream of it
        if r1.rc == 0 and index % 3 == 0:
            victim = rnd.choice(["out/u.o", "out/x.o", "out/x.o", "out/d.o"])
            prod = {"out/u.o": "U", "out/x.o": "X", "out/d.o": "D"}[victim]
            if rnd.random() < 0.5:
                sb.remove(victim)
                how = "deleted"
            else:
                sb.write(victim, "tampered\n")
                how = "overwritten"
            r2 = bslib.build(sb, "asan", extra_env=env)
            res["builds"] += 1
            allowed = {"U": {"U", subj, "D"}, "X": {"X"}, "D": {"D"}}[prod]
            aood = {c.name for c in d1.cmds.values() if c.attrs.get("always-out-of-date") == "true"}
            if aood:
                aood |= {"D"}   # downstream of the always-out-of-date subject
            if prod not in r2.ran:
                res["viol"].append(("re-run: an output that no longer matches what its command produced (%s) did not re-execute the producer" % how, dict(wit, victim=victim, ran=r2.ran)))
            extra = [x for x in r2.ran if x not in allowed and x not in aood]
            if extra:
                res["viol"].append(("re-run: tampering with one output re-executed commands that do not depend on it", dict(wit, victim=victim, ran=r2.ran)))
    finally:
        shutil.rmtree(sb.path, ignore_errors=True)
    return res


def structural_sig_cases(binp, sd, seed):
    """Monitor 3: structural near-collisions that need no build: pairs of descriptions loaded only for their signatures."""
    viol, n = [], 0
    rnd = random.Random(seed)
    sb = bslib.Sandbox(os.path.join(sd, "struct"))

    def sig_of(desc, cmd):
        sb.write_desc(desc)
        s, rc, e = signatures(binp, sb)
        return s.get(cmd)

    def mk(inputs, outputs, **kw):
        d = bslib.Desc()
        c = Cmd("S", "shell", inputs=inputs, outputs=outputs, salt="q")
        c.raw_args = ["true"] + list(kw.pop("extra_args", []))   # identical command line on both sides: only the attribute under test differs
        for k, v in kw.items():
            setattr(c, k, v) if hasattr(c, k) else c.extra.__setitem__(k, v)
        d.cmds["S"] = c
        d.cmds["Call"] = Cmd("Call", "phony", inputs=[o for o in outputs], outputs=["<all>"])
        d.targets[""] = ["<all>"]; d.default = ""
        return d
    pairs = [
        ("last input moved to the front of the outputs", mk(["a", "b"], ["c"]), mk(["a"], ["b", "c"])),
        ("first output moved to the end of the inputs", mk(["a"], ["b", "c"]), mk(["a", "b"], ["c"])),
        ("all inputs moved to outputs", mk(["a", "b"], ["c"]), mk([], ["a", "b", "c"])),
        ("deps-style makefile vs dependency-info", mk(["a"], ["c"], extra={"deps": "S.d", "deps-style": "makefile"}), mk(["a"], ["c"], extra={"deps": "S.d", "deps-style": "dependency-info"})),
        ("deps-style makefile vs makefile-ignoring-subsequent-outputs", mk(["a"], ["c"], extra={"deps": "S.d", "deps-style": "makefile"}), mk(["a"], ["c"], extra={"deps": "S.d", "deps-style": "makefile-ignoring-subsequent-outputs"})),
        ("deps-style dependency-info vs makefile-ignoring-subsequent-outputs", mk(["a"], ["c"], extra={"deps": "S.d", "deps-style": "dependency-info"}), mk(["a"], ["c"], extra={"deps": "S.d", "deps-style": "makefile-ignoring-subsequent-outputs"})),
        ("deps path", mk(["a"], ["c"], extra={"deps": "S.d", "deps-style": "makefile"}), mk(["a"], ["c"], extra={"deps": "T.d", "deps-style": "makefile"})),
        ("two deps paths vs one", mk(["a"], ["c"], extra={"deps": ["S.d", "T.d"], "deps-style": "makefile"}), mk(["a"], ["c"], extra={"deps": ["S.d"], "deps-style": "makefile"})),
        ("empty env vs absent env with inherit-env false", mk(["a"], ["c"], env={}, inherit_env=False), mk(["a"], ["c"], env={"Z": ""}, inherit_env=False)),
        ("env key/value boundary", mk(["a"], ["c"], env={"AB": "C"}), mk(["a"], ["c"], env={"A": "BC"})),
        ("argument boundary", mk(["a"], ["c"], extra_args=["ab", "c"]), mk(["a"], ["c"], extra_args=["a", "bc"])),
        ("argument vs env", mk(["a"], ["c"], extra_args=["K", "v"]), mk(["a"], ["c"], env={"K": "v"})),
        ("can-safely-interrupt", mk(["a"], ["c"], extra={"can-safely-interrupt": "true"}), mk(["a"], ["c"], extra={"can-safely-interrupt": "false"})),
        ("inherit-env", mk(["a"], ["c"], inherit_env=True), mk(["a"], ["c"], inherit_env=False)),
        ("allow-missing-inputs vs allow-modified-outputs", mk(["a"], ["c"], extra={"allow-missing-inputs": "true"}), mk(["a"], ["c"], extra={"allow-modified-outputs": "true"})),
        ("allow-modified-outputs vs always-out-of-date", mk(["a"], ["c"], extra={"allow-modified-outputs": "true"}), mk(["a"], ["c"], extra={"always-out-of-date": "true"})),
        ("explicit signature text", mk(["a"], ["c"], extra={"signature": "one"}), mk(["a"], ["c"], extra={"signature": "two"})),
    ]
    for what, da, db in pairs:
        sa, sbb = sig_of(da, "S"), sig_of(db, "S")
        n += 1
        if sa is None or sbb is None:
            viol.append(("inconclusive", what))
        elif sa == sbb:
            viol.append(("signature: definitions differing in '%s' have the same signature" % what, dict(signature=sa, a=da.to_obj(sb.path)["commands"]["S"], b=db.to_obj(sb.path)["commands"]["S"])))
    shutil.rmtree(sb.path, ignore_errors=True)
    return viol, n


def run(tier, replay):
    chk = vlib.Check("C09", tier)
    vlib.build_flavor("asan")
    bslib.bscmd_path()
    binp = vlib.build_harness("bsdriver", "asan", ["bsdriver.cpp"], libs=SIG_LIBS)
    sd = vlib.scratch_dir("c09")
    try:
        th = tier == "thorough"
        # monitor 1: null builds over the C08 history workload
        DRV = binp
        n = 96 if not th else 2500
        jobs = [dict(seed=chk.seed, index=500000 + i, sd=sd, flavor="asan", driver=DRV, steps=12 if not th else 20) for i in range(n)]
        hres = vlib.pmap(bs_runner.run_history, jobs)
        nulls = 0
        for r in hres:
            nulls += r["null_builds"]
            for p_, key, w in r["viol"]:
                if p_ == "C09" or key.startswith("crash") or key.startswith("hang"):
                    chk.violation(key, w)
            for m in r["inconclusive"]:
                chk.inconclusive.append(m)
        # monitors 2 and 3
        npairs = 200 if not th else 6000
        pres = vlib.pmap(pair_case, [(chk.seed, i, sd, binp) for i in range(npairs)])
        kinds, pairs, sigpairs, builds = {}, 0, 0, 0
        for r in pres:
            pairs += r["pairs"]; sigpairs += r["sig_pairs"]; builds += r["builds"]
            for k in r["kinds"]:
                kinds[k] = kinds.get(k, 0) + 1
            for key, w in r["viol"]:
                chk.violation(key, w)
            for m in r["inconclusive"]:
                chk.inconclusive.append(m)
        sv, sn = structural_sig_cases(binp, sd, chk.seed)
        for key, w in sv:
            if key == "inconclusive":
                chk.inconclusive.append("no signature for structural pair " + str(w))
            else:
                chk.violation(key, w)
        chk.add(nulls + pairs + sn + sigpairs, len(kinds) + sn)
        chk.cov.update(null_builds=nulls, definition_pairs_built=pairs, signature_pairs=sigpairs + sn, structural_signature_pairs=sn, builds=builds, pairs_by_attribute=kinds)
        chk.sample({"attribute": "args: one character moved across the boundary of adjacent arguments", "a": ["--x", "ab", "c"], "b": ["--x", "a", "bc"]})
        chk.cov["rule"] = ("(1) after every successful build of the C08 history workload the same target is rebuilt in a new process: the run log must not grow; (2) description pairs "
                           "differing in exactly one attribute of one shell command (22 attributes incl. argument/env boundaries, node moved from inputs to outputs, flags that start at a random value and are flipped, rename; "
                           "explicit-signature variants), files untouched: signature-relevant -> the command must appear in the run log, irrelevant (description, command order, extra "
                           "target) -> nothing may run; output tampering must re-run the producer and nothing outside its downstream cone; (3) Command::getSignature() observed through "
                           "the delegate for each pair and for 17 structural near-collisions must differ, and be identical across separate processes; distinct = attribute kinds exercised")
        chk.assumptions = ["a chance 64-bit collision is ignored", "commands downstream of a re-run command may legitimately re-run (their input file was rewritten)"]
    finally:
        shutil.rmtree(sd, ignore_errors=True)
    return chk.finish()
