"""C14, predicate part (DESIGN.md section 4, C14 item 1): pathIsPrefixedByPath against a MUST / MUST-NOT / don't-care reference.

run_predicate(chk, tier, sd) builds harness/prefix_mon.cpp on the asan flavor, runs it in shards, adds one violation per
distinct violation key (smallest witness over all shards) to `chk`, calls chk.add(judged pairs, distinct judged pairs (hash set per shard, summed)),
stores the counts in chk.cov["predicate"] and returns the same dict. `sd` (scratch directory) is not needed by this part."""
import vlib

LIBS = ["llbuildBuildSystem", "llbuildCore", "llbuildBasic", "llvmSupport"]


def run_predicate(chk, tier, sd=None):
    binp = vlib.build_harness("prefix_mon", "asan", ["prefix_mon.cpp"], libs=LIBS)
    shards = vlib.NCPU
    # exhaustive: every (path, root) over {'/','a','b','.'} up to L characters: L=5 -> 1.86 million pairs, L=6 -> 29.8 million
    ex_len = 5 if tier == "quick" else 6
    rnd = 1000000 if tier == "quick" else 40000000
    per = (rnd + shards - 1) // shards
    cmds = [[binp, "--seed", str(chk.seed * 1000 + i), "--cases", str(per), "--exhaustive", str(ex_len), "--shard", str(i), "--shards", str(shards)]
            for i in range(shards)]

    class _Collect:   # keep only the smallest witness per key over all shards, then report once
        def __init__(self):
            self.best = {}
            self.inconclusive = chk.inconclusive

        def violation(self, key, w):
            if not isinstance(w, dict) or "path" not in w:
                chk.violation(key, w)   # crash of a shard etc.
                return
            size = len(w.get("path_hex", "")) + len(w.get("root_hex", ""))
            if key not in self.best or size < self.best[key][0]:
                self.best[key] = (size, w)
    col = _Collect()
    sums = vlib.run_shards(col, cmds, timeout=3600, label="prefix predicate")
    counts = {}
    for s in sums:
        for k, v in s.get("viol_counts", {}).items():
            counts[k] = counts.get(k, 0) + v
    for key, (_, w) in sorted(col.best.items()):
        w = dict(w, occurrences=counts.get(key, 0), replay="%s --path %s --root %s" % (binp, w.get("path_hex"), w.get("root_hex")))
        chk.violation(key, w)
    res = {k: vlib.sum_key(sums, k) for k in ("pairs", "exhaustive_pairs", "random_pairs", "must", "must_not", "dont_care", "judged", "distinct_pairs", "violations")}
    res["classes"] = max([s.get("classes", 0) for s in sums] or [0])
    res["exhaustive_max_len"] = ex_len
    res["violations_by_key"] = counts
    chk.add(res["judged"], res["distinct_pairs"])
    chk.cov["predicate"] = res
    chk.cov["predicate_rule"] = ("pair = (path, root); reference = four lexical readings (literal components / separators collapsed / '.' dropped / '..' resolved), "
                                 "one trailing separator of the root never counts; MUST true when all readings agree and no doubled separator occurs, MUST-NOT when "
                                 "no reading has the path at or beneath the root, otherwise (and for empty strings and relative paths) don't care")
    if res["judged"] < 1:
        chk.inconclusive.append("prefix predicate: nothing was judged")
    return res
