"""Build-system monitor library (DESIGN.md section 3): description model + generator, deterministic command helper
(harness/bscmd.c) whose outputs are predicted in Python, sandbox with observable edits, build runner."""
import json, os, random, shutil, subprocess, time, copy, stat, threading
import vlib

MASK = (1 << 64) - 1


# ------------------------------------------------------------------ hash shared with harness/bscmd.c
class Hasher:
    def __init__(self):
        self.h = 1469598103934665603

    def hb(self, b):
        h = self.h
        for c in b:
            h ^= c
            h = (h * 1099511628211) & MASK
        self.h = h

    def hs(self, s):
        if isinstance(s, str):
            s = s.encode("utf-8", "surrogateescape")
        self.hb(s)
        self.hb(b"\0")

    def hfile(self, path, content):
        """content: bytes, None (missing) or 'dir'."""
        self.hs(path)
        if content is None:
            self.hs("<missing>")
        elif content == "dir":
            self.hs("<dir>")
        else:
            self.hs("<content>")
            self.hb(content)
            self.hb(b"\1")


def out_content(h, name, idx):
    return ("%016x %s %d\n" % (h, name, idx)).encode()


_bscmd = None


def bscmd_path():
    """Compiled once per check run; plain C, no sanitizer (it is the workload, not the subject). Safe to call from several threads/processes."""
    global _bscmd
    if _bscmd:
        return _bscmd
    os.makedirs(vlib.HBIN, exist_ok=True)
    out = os.path.join(vlib.HBIN, "bscmd")
    src = os.path.join(vlib.VERIF, "harness", "bscmd.c")
    with vlib._Lock(out + ".lock"):
        if not os.path.exists(out) or os.stat(out).st_mtime < os.stat(src).st_mtime:
            tmp = "%s.tmp%d.%d" % (out, os.getpid(), threading.get_ident())
            r = vlib.sh(["cc", "-O1", "-o", tmp, src])
            if r.returncode != 0:
                raise vlib.HarnessFailure("bscmd.c failed to compile: " + r.stdout)
            os.rename(tmp, out)
    _bscmd = out
    return out


# ------------------------------------------------------------------ description model
class Cmd:
    def __init__(self, name, tool="shell", inputs=None, outputs=None, salt="", **attrs):
        self.name, self.tool = name, tool
        self.inputs = list(inputs or [])
        self.outputs = list(outputs or [])
        self.salt = salt
        self.env = {}          # env mapping given to the tool
        self.envvars = []      # variables whose value the command hashes
        self.inherit_env = None
        self.reads = []        # undeclared reads (written to <name>.reads, reported through deps)
        self.deps_style = None  # makefile | dependency-info | makefile-ignoring-subsequent-outputs
        self.attrs = dict(attrs)   # allow-missing-inputs, always-out-of-date, allow-modified-outputs, can-safely-interrupt, signature, description, working-directory
        self.contents = None   # symlink
        self.sleep_ms = 0
        self.link_outs = False  # the helper makes every output a symbolic link to <output>.real
        self.extra = {}        # raw extra attributes
        self.raw_args = None   # if set, the exact command line (signature-only experiments; such commands are never executed)
        self.extra_args = []   # appended to the command line; ignored by the helper (signature-only differences)

    def clone(self):
        return copy.deepcopy(self)


def is_virtual(node):
    return node.startswith("<") and node.endswith(">")


class Desc:
    def __init__(self):
        self.cmds = {}        # name -> Cmd (insertion ordered)
        self.targets = {}     # name -> [nodes]
        self.default = None
        self.nodes = {}       # node attributes
        self.client = {"name": "basic"}

    def clone(self):
        return copy.deepcopy(self)

    def producer(self, node):
        for c in self.cmds.values():
            if node in c.outputs:
                return c
        return None

    def to_obj(self, sandbox_abs):
        bs = bscmd_path()
        o = {"client": dict(self.client), "targets": {k: list(v) for k, v in self.targets.items()}}
        if self.default is not None:
            o["default"] = self.default
        if self.nodes:
            o["nodes"] = {k: dict(v) for k, v in self.nodes.items()}
        cmds = {}
        for c in self.cmds.values():
            d = {"tool": c.tool}
            if "description" in c.attrs:
                d["description"] = c.attrs["description"]
            d["inputs"] = list(c.inputs)
            d["outputs"] = list(c.outputs)
            if c.tool == "shell":
                args = [bs, c.name, "--salt", c.salt, "--log", os.path.join(sandbox_abs, "ran.log")]
                for v in c.envvars:
                    args += ["--env", v]
                for i in c.inputs:
                    if not is_virtual(i) and not i.endswith("/"):
                        args += ["--in", i]
                for o_ in c.outputs:
                    if not is_virtual(o_) and not o_.endswith("/"):
                        args += ["--out", o_]
                args += ["--fail-file", c.name + ".fail"]
                if c.reads or c.deps_style:
                    args += ["--reads-file", c.name + ".reads", "--dep-out", c.name + ".d",
                             "--dep-style", "depinfo" if c.deps_style == "dependency-info" else "makefile"]
                    d["deps"] = c.name + ".d"
                    d["deps-style"] = c.deps_style or "makefile"
                if c.sleep_ms:
                    args += ["--sleep-ms", str(c.sleep_ms)]
                if c.link_outs:
                    args += ["--link-outs"]
                args += list(c.extra_args)
                d["args"] = list(c.raw_args) if c.raw_args is not None else args
                if c.env:
                    d["env"] = dict(c.env)
                if c.inherit_env is not None:
                    d["inherit-env"] = "true" if c.inherit_env else "false"
                for k, v in c.attrs.items():
                    if k != "description":
                        d[k] = v
            elif c.tool == "symlink":
                d["contents"] = c.contents
            d.update(c.extra)
            cmds[c.name] = d
        o["commands"] = cmds
        return o


def toposort(desc):
    order, seen, stack = [], {}, []

    def visit(c):
        st = seen.get(c.name)
        if st == 2:
            return True
        if st == 1:
            return False
        seen[c.name] = 1
        for i in c.inputs:
            p = desc.producer(i)
            if p is not None and not visit(p):
                return False
        seen[c.name] = 2
        order.append(c)
        return True
    for c in desc.cmds.values():
        if not visit(c):
            return None
    return order


def reachable_cmds(desc, roots):
    """Commands needed to build the given nodes (through declared inputs)."""
    need, work = {}, list(roots)
    while work:
        n = work.pop()
        p = desc.producer(n)
        if p is None or p.name in need:
            continue
        need[p.name] = p
        work.extend(p.inputs)
    return need


class Prediction:
    def __init__(self):
        self.files = {}     # path -> bytes expected after a clean build
        self.kinds = {}     # path -> 'file' | 'dir' | 'symlink:<target>' | 'archive'
        self.archives = {}  # path -> [(member name, bytes)] in order
        self.fails = {}     # command name -> reason (missing input, ...)


def predict(desc, roots, read_source, environ=None):
    """Contents every output reachable from `roots` must have after a successful build, computed from the description and the
    current contents of the files no command produces. read_source(path) -> bytes | None | 'dir'."""
    environ = environ if environ is not None else {}
    need = reachable_cmds(desc, roots)
    order = [c for c in (toposort(desc) or []) if c.name in need]
    pr = Prediction()
    cur = {}

    def content_of(path):
        if path in cur:
            return cur[path]
        if desc.producer(path) is not None:
            return cur.get(path)
        return read_source(path)
    for c in order:
        failed = None
        for i in c.inputs:
            if is_virtual(i) or i.endswith("/"):
                p = desc.producer(i)
                if p is not None and p.name in pr.fails:
                    failed = "input %s failed" % i
                continue
            p = desc.producer(i)
            if p is not None and p.name in pr.fails:
                failed = "input %s failed" % i
            elif p is None and read_source(i) is None and c.tool in ("shell", "phony", "archive") and c.attrs.get("allow-missing-inputs") != "true":
                failed = "missing input %s" % i
        if failed:
            pr.fails[c.name] = failed
            continue
        if c.tool == "shell":
            h = Hasher()
            h.hs(c.name)
            h.hs(c.salt)
            for v in c.envvars:
                h.hs(v)
                val = c.env.get(v)
                if val is None and c.inherit_env is not False:
                    val = environ.get(v)
                h.hs(val if val is not None else "<unset>")
            for i in c.inputs:
                if not is_virtual(i) and not i.endswith("/"):
                    h.hfile(i, content_of(i))
            for rpath in c.reads:
                h.hfile(rpath, content_of(rpath) if desc.producer(rpath) else read_source(rpath))
            idx = 0
            for o in c.outputs:
                if is_virtual(o) or o.endswith("/"):
                    continue
                cur[o] = out_content(h.h, c.name, idx)
                pr.files[o] = cur[o]
                pr.kinds[o] = "file"
                idx += 1
        elif c.tool == "mkdir":
            for o in c.outputs:
                cur[o] = "dir"
                pr.kinds[o] = "dir"
        elif c.tool == "archive":
            members = []
            for i in c.inputs:
                if not is_virtual(i) and not i.endswith("/"):
                    members.append((os.path.basename(i), content_of(i)))
            for o in c.outputs:
                if not is_virtual(o):
                    pr.kinds[o] = "archive"
                    pr.archives[o] = members
        elif c.tool == "symlink":
            for o in c.outputs:
                pr.kinds[o] = "symlink:" + c.contents
                cur[o] = read_source(os.path.normpath(os.path.join(os.path.dirname(o), c.contents)))
    return pr


# ------------------------------------------------------------------ sandbox
class Sandbox:
    """A build directory. Every edit is observable: mtimes are assigned explicitly and strictly increase."""
    _clock = 1_000_000_000

    def __init__(self, path):
        self.path = os.path.abspath(path)
        shutil.rmtree(self.path, ignore_errors=True)
        os.makedirs(self.path)
        self.ranpos = 0

    def p(self, rel):
        return rel if os.path.isabs(rel) else os.path.join(self.path, rel)

    def tick(self):
        Sandbox._clock += 7
        return Sandbox._clock

    def write(self, rel, content, same_inode=True):
        path = self.p(rel)
        os.makedirs(os.path.dirname(path), exist_ok=True)
        if isinstance(content, str):
            content = content.encode()
        if same_inode or not os.path.exists(path):
            with open(path, "wb") as f:
                f.write(content)
        else:
            tmp = path + ".new"
            with open(tmp, "wb") as f:
                f.write(content)
            os.rename(tmp, path)
        t = self.tick()
        os.utime(path, ns=(t * 10**9, t * 10**9 + (t % 997)))

    def touch(self, rel):
        t = self.tick()
        os.utime(self.p(rel), ns=(t * 10**9, t * 10**9 + (t % 997)), follow_symlinks=False)

    def remove(self, rel):
        path = self.p(rel)
        if os.path.islink(path) or os.path.isfile(path):
            os.unlink(path)
        elif os.path.isdir(path):
            shutil.rmtree(path)

    def read(self, rel):
        path = self.p(rel)
        try:
            st = os.stat(path)
        except OSError:
            return None
        if stat.S_ISDIR(st.st_mode):
            return "dir"
        with open(path, "rb") as f:
            return f.read()

    def exists(self, rel):
        return os.path.lexists(self.p(rel))

    def ran_since(self):
        """Commands that started since the last call (names, in order) from the O_APPEND run log."""
        path = self.p("ran.log")
        try:
            with open(path, "rb") as f:
                f.seek(self.ranpos)
                data = f.read()
        except OSError:
            return []
        self.ranpos += len(data)
        return [l.split()[0] for l in data.decode("utf-8", "replace").splitlines() if l.strip()]

    def write_desc(self, desc, name="build.llbuild"):
        with open(self.p(name), "w") as f:
            json.dump(desc.to_obj(self.path), f, indent=1)

    def snapshot(self, skip=()):
        """name -> (kind, content) for everything under the sandbox (symlinks not followed)."""
        snap = {}
        for root, dirs, files in os.walk(self.path):
            for n in dirs + files:
                full = os.path.join(root, n)
                rel = os.path.relpath(full, self.path)
                if any(rel.startswith(s) for s in skip):
                    continue
                if os.path.islink(full):
                    snap[rel] = ("link", os.readlink(full))
                elif os.path.isdir(full):
                    snap[rel] = ("dir", None)
                else:
                    with open(full, "rb") as f:
                        snap[rel] = ("file", f.read())
        return snap


class BuildResult:
    def __init__(self, rc, out, err, timed_out, ran, wall):
        self.rc, self.out, self.err, self.timed_out, self.ran, self.wall = rc, out, err, timed_out, ran, wall
        e = err.decode("utf-8", "replace")
        self.sanitizer = vlib.sanitizer_summary(e) if (rc not in (0, 1) or "Sanitizer" in e or "runtime error:" in e or "Assertion" in e) else None
        self.text = (out.decode("utf-8", "replace") + e)


def build(sb, flavor="asan", target=None, jobs=None, db="build.db", extra_env=None, timeout=120, buildfile="build.llbuild", binary=None):
    cmd = [binary or vlib.llbuild_bin(flavor), "buildsystem", "build", "-f", buildfile]
    cmd += ["--db", db] if db else ["--no-db"]
    cmd += ["--serial"] if not jobs else ["-j", str(jobs)]
    if target:   # the default target is selected by passing no name (an empty positional argument is rejected by the CLI)
        cmd.append(target)
    env = {"BSCMD_LOG": sb.p("ran.log")}
    if flavor == "tsan":
        env["TSAN_OPTIONS"] = "halt_on_error=1:exitcode=66"
    if extra_env:
        env.update(extra_env)
    t0 = time.time()
    rc, out, err, to = vlib.run_child(cmd, timeout, env=env, cwd=sb.path)
    return BuildResult(rc, out, err, to, sb.ran_since(), time.time() - t0)


# ------------------------------------------------------------------ description generator
def gen_desc(rnd, ncmds=None, tools=("shell", "shell", "shell", "shell", "shell", "phony", "mkdir", "symlink", "archive"), virtuals=True, multi_out=True, virtual_out_p=0.2, virtual_in_p=0.3):
    """Random acyclic bipartite graph of commands over source files, produced files and virtual nodes.
    Premises kept: one producer per node, acyclic, sources exist (created by the caller from desc.sources)."""
    d = Desc()
    n = ncmds or rnd.randint(2, 12)
    nsrc = rnd.randint(1, 5)
    d.sources = ["src/s%d.txt" % i for i in range(nsrc)]
    avail_files = list(d.sources)      # nodes usable as file inputs
    avail_virtual = []
    for i in range(n):
        tool = rnd.choice(tools)
        name = "C%d" % i
        c = Cmd(name, tool)
        k = rnd.randint(0, min(3, len(avail_files)))
        c.inputs = rnd.sample(avail_files, k)
        if virtuals and avail_virtual and rnd.random() < virtual_in_p:
            if rnd.random() < 0.4:
                c.inputs = [i for i in c.inputs if i in d.sources][:1]   # connected to its producers through the virtual node only
            c.inputs.append(rnd.choice(avail_virtual))
        if tool == "shell":
            if not c.inputs:
                c.inputs = [rnd.choice(d.sources)]
            nout = 1 if not multi_out or rnd.random() < 0.7 else 2
            c.outputs = ["out/%s_%d.o" % (name.lower(), j) for j in range(nout)]
            if rnd.random() < 0.25:
                c.outputs[0] = "out/deep/%s/%s.o" % (name.lower(), name.lower())
            if virtuals and rnd.random() < virtual_out_p:
                c.outputs.insert(rnd.randint(0, len(c.outputs)), "<v%d>" % i)   # a virtual output may be declared before, between or after the files
            c.salt = "s%d" % rnd.randint(0, 3)
            c.link_outs = rnd.random() < 0.15
            c.attrs["description"] = "RUN " + name
            avail_files += [o for o in c.outputs if not is_virtual(o)]
            avail_virtual += [o for o in c.outputs if is_virtual(o)]
        elif tool == "phony":
            c.outputs = ["<p%d>" % i]
            if not c.inputs:
                c.inputs = [rnd.choice(avail_files)]
            avail_virtual += c.outputs
        elif tool == "mkdir":
            c.inputs = [x for x in c.inputs if is_virtual(x)]
            c.outputs = ["dirs/d%d" % i]
            avail_files += c.outputs   # consumed as a plain node: only its existence matters to the helper
        elif tool == "archive":
            # members: plain files (sources or outputs of shell commands) with distinct base names; the archive itself is not
            # offered as an input (its bytes carry time stamps)
            virt = [x for x in c.inputs if is_virtual(x)]
            files = [x for x in avail_files if not x.startswith("dirs/")]
            rnd.shuffle(files)
            members, seen = [], set()
            for f in files:
                if os.path.basename(f) not in seen and len(members) < 3:
                    members.append(f); seen.add(os.path.basename(f))
            c.inputs = members[:rnd.randint(1, max(1, len(members)))] + virt
            c.outputs = ["out/lib%d.a" % i]
        elif tool == "symlink":
            c.inputs = [x for x in c.inputs if is_virtual(x)]
            c.outputs = ["links/l%d" % i]
            c.contents = "../" + rnd.choice(d.sources)
            # not offered as a file input: the tool's output value is documented to be the link's own lstat record
        d.cmds[name] = c
    # targets: "" = all terminal outputs; plus a couple of named targets sharing sub-graphs
    outs = [o for c in d.cmds.values() for o in c.outputs]
    allc = Cmd("Call", "phony", inputs=outs, outputs=["<all>"])
    d.cmds["Call"] = allc
    d.targets[""] = ["<all>"]
    d.default = ""
    names = list(d.cmds.values())
    for t in range(rnd.randint(1, 2)):
        c = rnd.choice(names[:-1])
        if c.outputs:
            d.targets["t%d" % t] = [rnd.choice(c.outputs)]
    return d


def populate_sources(sb, desc, rnd):
    for s in getattr(desc, "sources", []):
        sb.write(s, "source %s v%d\n" % (s, rnd.randint(0, 9)))


# ------------------------------------------------------------------ BuildSystemFrontend client (harness/bsdriver.cpp)
DRIVER_LIBS = ["llbuildBuildSystem", "llbuildCore", "llbuildBasic", "llvmSupport"]


def bsdriver_path(flavor="asan"):
    return vlib.build_harness("bsdriver", flavor, ["bsdriver.cpp"], libs=DRIVER_LIBS)


def drive(sb, binp, target=None, node=None, jobs=None, keep_going=False, cancel_on=None, twice=False, db="build.db", timeout=120):
    """Build through the BuildSystemFrontend client; returns a BuildResult with .events (delegate callbacks and fs_remove calls)."""
    ev = sb.p("events.jsonl")
    if os.path.exists(ev):
        os.unlink(ev)
    cmd = [binp, "--events", ev]
    if node is not None:
        cmd += ["--node", node]
    elif target:
        cmd += ["--target", target]
    if jobs:
        cmd += ["--jobs", str(jobs)]
    if keep_going:
        cmd.append("--keep-going")
    if cancel_on is not None:
        cmd += ["--cancel-on-event", str(cancel_on)]
    if twice:
        cmd.append("--twice")
    if db is None:
        cmd.append("--no-db")
    t0 = time.time()
    rc, out, err, to = vlib.run_child(cmd, timeout, env={"BSCMD_LOG": sb.p("ran.log")}, cwd=sb.path)
    r = BuildResult(rc, out, err, to, sb.ran_since(), time.time() - t0)
    r.events = []
    if os.path.exists(ev):
        for l in open(ev, errors="replace"):
            try:
                r.events.append(json.loads(l))
            except ValueError:
                pass
    return r
