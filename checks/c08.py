"""C08 - on-disk outputs after any incremental build equal a clean build's."""
import os, shutil, json
import vlib, bslib, bs_runner


def run(tier, replay, prop="C08"):
    chk = vlib.Check(prop, tier)
    vlib.build_flavor("asan")
    bslib.bscmd_path()
    sd = vlib.scratch_dir(prop.lower())
    try:
        th = tier == "thorough"
        DRV = bslib.bsdriver_path("asan")
        n = 320 if not th else 4000
        base = 0 if prop == "C08" else 500000
        jobs = [dict(seed=chk.seed, index=base + i, sd=sd, flavor="asan", driver=DRV, steps=14 if not th else 24) for i in range(n)]
        if th:
            vlib.build_flavor("tsan")
            jobs += [dict(seed=chk.seed, index=base + 100000 + i, sd=sd, flavor="tsan", steps=12) for i in range(300)]
        if replay:
            w = json.load(open(replay))["witness"]
            jobs = [dict(seed=w["seed"], index=w["index"], sd=sd, flavor="asan", driver=DRV, steps=40)]
        results = vlib.pmap(bs_runner.run_history, jobs)
        tot = dict(node_builds=0, builds=0, ok_builds=0, failed_builds=0, null_builds=0, commands_run=0, steps=0, files_checked=0, archives_checked=0, clean_oracle_runs=0, unexpected_failures=0)
        shapes, kinds = set(), {}
        for r in results:
            for k in tot:
                tot[k] += r.get(k, 0)
            for k, v in r["step_kinds"].items():
                kinds[k] = kinds.get(k, 0) + v
            if r["nontrivial"]:
                shapes.add(r["shape"])
            for p_, key, w in r["viol"]:
                if p_ == prop or key.startswith("crash") or key.startswith("hang"):
                    chk.violation(key, w)
            for m in r["inconclusive"]:
                chk.inconclusive.append(m)
            if r["sample"]:
                chk.sample(r["sample"])
        chk.add(tot["builds"] + tot["null_builds"], len(shapes))
        chk.cov.update(tot)
        chk.cov["edit_steps_by_kind"] = kinds
        chk.cov["histories"] = len(results)
        chk.cov["rule"] = ("history = generated description (shell/phony/mkdir/symlink/archive tools, virtual nodes, multiple outputs, named targets sharing sub-graphs) + steps from "
                           "{edit/touch source, delete/tamper output, change args, add/remove/rename command, rewire inputs, change the member list of an archive, move a node between a command's inputs and outputs, "
                           "turn a source into a produced node, build default or named target, serial or -j4}, each build a new `llbuild buildsystem build` process (ASan+UBSan; "
                           "TSan subset in thorough); after every successful build every output reachable from the target is compared byte for byte with contents PREDICTED from the "
                           "description and the current non-produced files (commands are one deterministic helper whose hash is recomputed in Python; archives are compared by member list and member contents), cross-checked against real clean "
                           "builds in pristine copies; then the same target is rebuilt and the run log must not grow; non-trivial = a build after an edit that ran some but not all commands")
        chk.assumptions = ["commands are deterministic functions of declared inputs by construction", "edits are made observable with explicit, strictly increasing mtimes",
                           "failing builds are not judged here (C10), only counted: unexpected_failures"]
    finally:
        shutil.rmtree(sd, ignore_errors=True)
    return chk.finish()
