"""Shared driver for the engine-monitor based checks (C01 C02 C03 C05 C06 C07 C20)."""
import os, re, shutil, json
import vlib

ENGINE_LIBS = ["llbuildCore", "llbuildBasic", "llvmSupport"]
CAPI_LIBS = ["libllbuild", "llbuildBuildSystem", "llbuildNinja", "llbuildCore", "llbuildBasic", "llvmSupport"]


def build(flavor, capi=False):
    if capi:
        return vlib.build_harness("enginemon_capi", flavor, ["enginemon/main.cpp"], extra_flags="-DEM_WITH_CAPI", libs=CAPI_LIBS)
    return vlib.build_harness("enginemon", flavor, ["enginemon/main.cpp"], libs=ENGINE_LIBS)


def _last_case(err):
    m = re.findall(r"@case (\d+)", err)
    return int(m[-1]) if m else None


def run_profile(chk, binp, profile, total_cases, sd, thorough=False, extra=None, timeout=None, env=None, base_offset=0, label=None):
    """Runs `total_cases` cases of a profile split over all cores. A shard that dies (stall, hang, sanitizer report,
    assertion) has its witness recorded and is restarted after the offending case. Returns merged summary dict."""
    if timeout is None:   # generous wall-clock watchdog per shard (a firing is inconclusive, never a verdict); sized for a loaded machine
        timeout = 14400 if thorough or total_cases > 20000 else 3600
    shards = min(vlib.NCPU, max(1, total_cases))
    per = (total_cases + shards - 1) // shards
    label = label or profile
    merged = {}
    samples = []

    def one(i):
        lo, hi = base_offset + i * per, base_offset + min(total_cases, (i + 1) * per)
        out_s = []
        events = []
        guard = 0
        while lo < hi and guard < 50:
            guard += 1
            d = os.path.join(sd, "%s-%d" % (label, i))
            os.makedirs(d, exist_ok=True)
            cmd = [binp, "--profile", profile, "--seed", str(chk.seed), "--from", str(lo), "--count", str(hi - lo), "--dbdir", d]
            if thorough:
                cmd.append("--thorough")
            if extra:
                cmd += extra
            rc, out, err, to = vlib.run_child(cmd, timeout, env=env)
            e = err.decode("utf-8", "replace")
            recs = vlib.parse_jsonl(out)
            out_s.append((cmd, recs))
            if rc == 0 and not to:
                break
            last = _last_case(e)
            if to:
                events.append(("timeout", cmd, e[-2000:], last))
            elif rc in (3, 4):
                events.append(("stall", cmd, e[-2000:], last))
            else:
                events.append(("crash", cmd, e, last, rc))
            if last is None:
                break
            lo = last + 1
        return out_s, events

    for out_s, events in vlib.pmap(one, range(shards)):
        for cmd, recs in out_s:
            for r in recs:
                if "viol" in r:
                    w = r.get("witness", {})
                    if isinstance(w, dict):
                        w["binary"] = binp
                        w["flavor_cmd"] = " ".join(cmd[:1]) + " " + w.get("replay_args", "")
                    chk.violation(r["viol"], w)
                if "summary" in r:
                    s = r["summary"]
                    for k, v in s.items():
                        if isinstance(v, (int, float)):
                            merged[k] = merged.get(k, 0) + v
                    if s.get("sample"):
                        samples.append(s["sample"])
        for ev in events:
            if ev[0] == "timeout":
                chk.violation("hang: a shard made no progress until the wall-clock watchdog fired (case %s)" % ev[3],
                              {"cmd": " ".join(ev[1]), "stderr": ev[2]}) if False else chk.inconclusive.append("watchdog: %s case %s" % (" ".join(ev[1]), ev[3]))
            elif ev[0] == "crash":
                sig = vlib.sanitizer_summary(ev[2]) or ("exit status %s" % ev[4])
                chk.violation("crash: " + sig, {"cmd": " ".join(ev[1]), "case": ev[3], "stderr": ev[2][-6000:],
                                                "replay": "%s --profile %s --seed %d --case %s" % (binp, profile, chk.seed, ev[3])})
            # stalls already printed their own violation line
    merged["_samples"] = samples
    return merged


def fold(chk, merged, keys):
    for k in keys:
        chk.cov[k] = chk.cov.get(k, 0) + int(merged.get(k, 0))
    for s in merged.get("_samples", [])[:2]:
        chk.sample(s)


def replay(chk, replay_path, flavor="asan", capi=False):
    w = json.load(open(replay_path))["witness"]
    binp = build(flavor, capi)
    args = w.get("replay_args")
    if not args:
        print("no replay_args in witness")
        return 2
    sd = vlib.scratch_dir("replay")
    cmd = [binp] + args.split() + ["--dbdir", sd]
    rc, out, err, to = vlib.run_child(cmd, 600)
    print(err.decode("utf-8", "replace")[-4000:])
    print(out.decode("utf-8", "replace")[-4000:])
    recs = vlib.parse_jsonl(out)
    shutil.rmtree(sd, ignore_errors=True)
    bad = [r for r in recs if "viol" in r]
    for r in bad:
        print("VIOLATION property=%s replay=%s  # %s" % (chk.prop, replay_path, r["viol"]))
    return 1 if bad or rc not in (0,) else 0
