"""History machinery for the build-system monitor: random edit steps over a sandbox + description, the C08 oracle
(on-disk outputs equal predicted clean-build contents), the C09 null-build monitor, shared by c08/c09/c10."""
import os, random, shutil, json
import vlib, bslib
from bslib import Cmd, is_virtual


def all_inputs_ok(desc):
    return bslib.toposort(desc) is not None


def produced_files(desc):
    return [o for c in desc.cmds.values() for o in c.outputs if not is_virtual(o) and c.tool == "shell"]


def refresh_all(desc):
    """The 'Call' phony depends on every output of every other command."""
    outs = [o for c in desc.cmds.values() if c.name != "Call" for o in c.outputs]
    desc.cmds["Call"].inputs = outs


def upstream_sources(desc, node, acc=None, seen=None):
    """Source files (no producer) that `node` transitively depends on."""
    acc = acc if acc is not None else set()
    seen = seen if seen is not None else set()
    if node in seen:
        return acc
    seen.add(node)
    p = desc.producer(node)
    if p is None:
        if not is_virtual(node) and not node.endswith("/"):
            acc.add(node)
        return acc
    for i in p.inputs:
        upstream_sources(desc, i, acc, seen)
    return acc


def downstream(desc, node, acc=None):
    """Nodes that transitively depend on `node`."""
    acc = acc if acc is not None else set()
    for c in desc.cmds.values():
        if node in c.inputs:
            for o in c.outputs:
                if o not in acc:
                    acc.add(o)
                    downstream(desc, o, acc)
    return acc


class Step:
    def __init__(self, kind, **kw):
        self.kind = kind
        self.kw = kw

    def __repr__(self):
        return "%s(%s)" % (self.kind, ", ".join("%s=%r" % kv for kv in sorted(self.kw.items())))


def gen_step(rnd, sb, desc, counter):
    """Returns a Step that is applicable now (and keeps the description inside the property's premises), or None."""
    follow = getattr(desc, "_followup", None)
    if follow:
        return follow.pop(0)
    shells = [c for c in desc.cmds.values() if c.tool == "shell"]
    prod = produced_files(desc)
    sources = [s for s in desc.sources if desc.producer(s) is None]
    x = rnd.random()
    archives = [c for c in desc.cmds.values() if c.tool == "archive"]
    if archives and rnd.random() < 0.08:
        # the member list of an archive changes: members dropped, added or reordered
        c = rnd.choice(archives)
        virt = [i for i in c.inputs if is_virtual(i)]
        cand = [i for i in c.inputs if not is_virtual(i)] + [f for f in sources + prod if f not in c.inputs and not f.startswith("dirs/")]
        rnd.shuffle(cand)
        members, seen = [], set()
        for f in cand:
            if os.path.basename(f) not in seen and len(members) < 4:
                members.append(f); seen.add(os.path.basename(f))
        members = members[:rnd.randint(1, len(members))]
        if members and members != [i for i in c.inputs if not is_virtual(i)]:
            return Step("rearchive", cmd=c.name, inputs=members + virt)
    if x < 0.22 and sources:
        return Step("edit_source", path=rnd.choice(sources), content="edited %d\n" % counter)
    if x < 0.27 and sources:
        return Step("touch_source", path=rnd.choice(sources))
    if x < 0.34 and prod:
        return Step("delete_output", path=rnd.choice(prod))
    if x < 0.41 and prod:
        return Step("tamper_output", path=rnd.choice(prod), content="tampered %d\n" % counter)
    if x < 0.49 and shells:
        return Step("change_salt", cmd=rnd.choice(shells).name, salt="n%d" % counter)
    if x < 0.55:
        name = "N%d" % counter
        files = [n for n in desc.sources + prod if True]
        ins = rnd.sample(files, min(len(files), rnd.randint(1, 3)))
        return Step("add_cmd", name=name, inputs=ins, outputs=["out/%s.o" % name.lower()])
    if x < 0.60 and len(shells) > 1:
        c = rnd.choice(shells)
        return Step("remove_cmd", cmd=c.name)
    if x < 0.67 and shells:
        c = rnd.choice(shells)
        banned = set(c.outputs) | downstream(desc, c.outputs[0]) if c.outputs else set()
        for o in c.outputs:
            banned |= downstream(desc, o)
        cands = [n for n in desc.sources + prod if n not in banned and n not in c.outputs]
        if cands:
            return Step("rewire", cmd=c.name, inputs=rnd.sample(cands, min(len(cands), rnd.randint(1, 3))))
    if x < 0.73 and shells:
        # move a source-file input of a command to its outputs (the file becomes a produced node) or back
        c = rnd.choice(shells)
        ins = [i for i in c.inputs if desc.producer(i) is None and not is_virtual(i) and len(c.inputs) > 1]
        if ins:
            n = rnd.choice(ins)
            # nothing the command still reads may depend on n
            others = [i for i in c.inputs if i != n]
            if not any(i == n or i in downstream(desc, n) for i in others):
                return Step("input_to_output", cmd=c.name, node=n)
        outs = [o for o in c.outputs if o in desc.sources and len([q for q in c.outputs if not is_virtual(q)]) > 1]
        if outs:
            return Step("output_to_input", cmd=c.name, node=rnd.choice(outs))
    if x < 0.77 and sources and shells:
        # a source file becomes the output of a brand-new command (and later may go back via remove_cmd)
        s = rnd.choice(sources)
        others = [q for q in sources if q != s and s not in downstream(desc, q)]
        if others:
            return Step("add_cmd", name="P%d" % counter, inputs=[rnd.choice(others)], outputs=[s])
    if x < 0.80 and shells:
        c = rnd.choice(shells)
        return Step("rename_cmd", cmd=c.name, new="R%d" % counter)
    if x < 0.83 and shells:
        # a virtual node that nothing produces yet is used as an ordering input (or as a target node); later it may gain a producer
        unproduced = sorted(set(i for c in desc.cmds.values() for i in c.inputs if is_virtual(i) and desc.producer(i) is None))
        if unproduced and rnd.random() < 0.6:
            v = rnd.choice(unproduced)
            # nothing the new producer reads may depend on a consumer of v
            cons_outs = set()
            for c in desc.cmds.values():
                if v in c.inputs:
                    for o in c.outputs:
                        cons_outs.add(o); cons_outs |= downstream(desc, o)
            srcs = [q for q in sources if q not in cons_outs]
            if srcs:
                return Step("produce_virtual", node=v, name="V%d" % counter, inputs=[rnd.choice(srcs)], outputs=["out/v%d.gen" % counter, v])
        c = rnd.choice(shells)
        node = "<u%d>" % counter
        first = Step("add_unproduced_virtual", cmd=c.name, node=node)
        if rnd.random() < 0.7:
            cons_outs = set(c.outputs)
            for o in c.outputs:
                cons_outs |= downstream(desc, o)
            srcs = [q for q in sources if q not in cons_outs]
            if srcs:
                desc._followup = [Step("build", target="", jobs=None),
                                  Step("produce_virtual", node=node, name="V%d" % counter, inputs=[rnd.choice(srcs)], outputs=["out/v%d.gen" % counter, node]),
                                  Step("build", target="", jobs=rnd.choice([None, 4]))]
        return first
    if x < 0.86:
        # edit the node list of an EXISTING target (add, replace or remove a node), or create/delete a named target
        outs = [o for c in desc.cmds.values() if c.name != "Call" for o in c.outputs]
        named = [t for t in desc.targets if t != ""]
        if outs:
            if named and rnd.random() < 0.75:
                t = rnd.choice(named)
                cur = list(desc.targets[t])
                how = rnd.choice(["add", "add", "replace", "remove"])
                if how == "add" or len(cur) == 0:
                    cur.append(rnd.choice(outs))
                elif how == "replace":
                    cur[rnd.randrange(len(cur))] = rnd.choice(outs)
                elif len(cur) > 1:
                    cur.pop(rnd.randrange(len(cur)))
                newnodes = sorted(set(cur), key=cur.index)
                added = [n for n in newnodes if n not in desc.targets[t]]
                if added and rnd.random() < 0.7:
                    # the interesting sequence: the target was built before, something upstream of the NEW node changes, the target is rebuilt
                    ups = upstream_sources(desc, added[0])
                    fu = [Step("build", target=t, jobs=None)] if rnd.random() < 0.5 else []
                    if ups:
                        fu.append(Step("edit_source", path=rnd.choice(sorted(ups)), content="edited for target %d\n" % counter))
                    fu.append(Step("edit_target", target=t, nodes=newnodes))
                    fu.append(Step("build", target=t, jobs=rnd.choice([None, 4])))
                    desc._followup = fu
                    return fu.pop(0)
                return Step("edit_target", target=t, nodes=newnodes)
            return Step("edit_target", target="t%d" % counter, nodes=[rnd.choice(outs)])
    if rnd.random() < 0.25 and prod:
        # build a single node through the frontend API instead of a target
        return Step("build", node=rnd.choice(prod), target=None, jobs=rnd.choice([None, 4]))
    names = list(desc.targets.keys())
    named = [t for t in names if t != ""]
    tgt = rnd.choice(named) if named and rnd.random() < 0.5 else rnd.choice(names)
    return Step("build", target=tgt, jobs=rnd.choice([None, None, 4]), twice=rnd.random() < 0.1)


def apply_step(step, sb, desc):
    """Mutates sandbox/description. Returns False when the step turned out not to be applicable."""
    k, kw = step.kind, step.kw
    if k == "edit_source":
        if sb.read(kw["path"]) == kw["content"].encode():
            return False
        sb.write(kw["path"], kw["content"], same_inode=(hash(kw["content"]) & 1) == 0)
    elif k == "touch_source":
        if not sb.exists(kw["path"]):
            return False
        sb.touch(kw["path"])
    elif k == "delete_output":
        if not sb.exists(kw["path"]):
            return False
        sb.remove(kw["path"])
    elif k == "tamper_output":
        if sb.read(kw["path"]) == "dir":
            return False
        sb.write(kw["path"], kw["content"])
    elif k == "change_salt":
        desc.cmds[kw["cmd"]].salt = kw["salt"]
    elif k == "add_cmd":
        if kw["name"] in desc.cmds or any(desc.producer(o) for o in kw["outputs"]):
            return False
        c = Cmd(kw["name"], "shell", inputs=kw["inputs"], outputs=kw["outputs"], salt="a")
        c.attrs["description"] = "RUN " + c.name
        # keep insertion order with Call last
        call = desc.cmds.pop("Call")
        desc.cmds[c.name] = c
        desc.cmds["Call"] = call
        if not all_inputs_ok(desc):
            del desc.cmds[c.name]
            return False
        refresh_all(desc)
    elif k == "remove_cmd":
        c = desc.cmds.get(kw["cmd"])
        if c is None:
            return False
        del desc.cmds[c.name]
        for t, nodes in list(desc.targets.items()):
            if any(n in c.outputs and desc.producer(n) is None and is_virtual(n) for n in nodes):
                del desc.targets[t]
        # virtual outputs that lost their producer must not stay as inputs (a virtual node without producer is an error in the format)
        for o in c.outputs:
            if is_virtual(o):
                for d2 in desc.cmds.values():
                    d2.inputs = [i for i in d2.inputs if i != o]
        for o in c.outputs:
            if not is_virtual(o) and o not in desc.sources:
                desc.sources.append(o)   # from now on a file no command produces
        refresh_all(desc)
    elif k == "rearchive":
        c = desc.cmds.get(kw["cmd"])
        if c is None or c.tool != "archive":
            return False
        old = list(c.inputs)
        c.inputs = [i for i in kw["inputs"] if is_virtual(i) or desc.producer(i) is not None or i in desc.sources]
        if not [i for i in c.inputs if not is_virtual(i)] or not all_inputs_ok(desc):
            c.inputs = old
            return False
    elif k == "rewire":
        c = desc.cmds.get(kw["cmd"])
        if c is None:
            return False
        old = list(c.inputs)
        c.inputs = [i for i in kw["inputs"] if desc.producer(i) is not None or i in desc.sources]
        if not c.inputs or not all_inputs_ok(desc):
            c.inputs = old
            return False
    elif k == "input_to_output":
        c = desc.cmds.get(kw["cmd"])
        if c is None or kw["node"] not in c.inputs or desc.producer(kw["node"]):
            return False
        c.inputs.remove(kw["node"])
        c.outputs.append(kw["node"])
        if not all_inputs_ok(desc):
            c.outputs.remove(kw["node"]); c.inputs.append(kw["node"])
            return False
        refresh_all(desc)
    elif k == "output_to_input":
        c = desc.cmds.get(kw["cmd"])
        if c is None or kw["node"] not in c.outputs:
            return False
        c.outputs.remove(kw["node"])
        c.inputs.append(kw["node"])
        if not all_inputs_ok(desc):
            c.inputs.remove(kw["node"]); c.outputs.append(kw["node"])
            return False
        refresh_all(desc)
    elif k == "add_unproduced_virtual":
        c = desc.cmds.get(kw["cmd"])
        if c is None:
            return False
        c.inputs.append(kw["node"])
    elif k == "produce_virtual":
        if kw["name"] in desc.cmds or desc.producer(kw["node"]) is not None or not any(kw["node"] in c.inputs for c in desc.cmds.values()):
            return False
        c = Cmd(kw["name"], "shell", inputs=kw["inputs"], outputs=kw["outputs"], salt="v")
        c.attrs["description"] = "RUN " + c.name
        call = desc.cmds.pop("Call")
        desc.cmds[c.name] = c
        desc.cmds["Call"] = call
        if not all_inputs_ok(desc):
            del desc.cmds[c.name]
            return False
        # NOT added to the inputs of 'Call': the new command is reachable only through the virtual node it now produces
    elif k == "edit_target":
        nodes = [n for n in kw["nodes"] if desc.producer(n) is not None or n in desc.sources]
        if not nodes or desc.targets.get(kw["target"]) == nodes:
            return False
        desc.targets[kw["target"]] = nodes
    elif k == "rename_cmd":
        c = desc.cmds.get(kw["cmd"])
        if c is None or kw["new"] in desc.cmds:
            return False
        items = list(desc.cmds.items())
        desc.cmds = {}
        for n, v in items:
            if n == c.name:
                v.name = kw["new"]
                v.attrs["description"] = "RUN " + v.name
                desc.cmds[v.name] = v
            else:
                desc.cmds[n] = v
    return True


def check_outputs(sb, desc, target_nodes, environ=None):
    """C08 oracle. Returns (list of mismatch descriptions, prediction)."""
    pr = bslib.predict(desc, target_nodes, sb.read, environ)
    bad = []
    for path, want in pr.files.items():
        got = sb.read(path)
        if got != want:
            bad.append("%s: on disk %r, clean build gives %r" % (path, (got[:40] if isinstance(got, bytes) else got), want[:40]))
    for path, kind in pr.kinds.items():
        full = sb.p(path)
        if kind == "dir" and not os.path.isdir(full):
            bad.append("%s: expected a directory" % path)
        if kind.startswith("symlink:") and (not os.path.islink(full) or os.readlink(full) != kind[8:]):
            bad.append("%s: expected a symlink to %s" % (path, kind[8:]))
        if kind == "archive":
            want = pr.archives[path]
            got = read_archive(full)
            if got != want:
                bad.append("%s: archive members on disk %r, clean build gives %r" % (path, [(n, (c or b"")[:24]) for n, c in (got or [])], [(n, (c or b"")[:24]) for n, c in want]))
    return bad, pr


def read_archive(full):
    """[(member, bytes)] of an ar archive in order, or None."""
    import subprocess
    if not os.path.isfile(full):
        return None
    r = subprocess.run(["ar", "t", full], stdout=subprocess.PIPE, stderr=subprocess.DEVNULL)
    if r.returncode != 0:
        return None
    out = []
    for n in r.stdout.decode("utf-8", "replace").splitlines():
        c = subprocess.run(["ar", "p", full, n], stdout=subprocess.PIPE, stderr=subprocess.DEVNULL)
        out.append((n, c.stdout))
    return out


def clean_build_oracle(sb, desc, target, flavor, tag):
    """Secondary oracle: a real clean build (no database, no earlier outputs) in a pristine copy. Returns dict path->bytes or None when it fails."""
    pristine = bslib.Sandbox(sb.path + ".clean-" + tag)
    try:
        for s in desc.sources:
            if desc.producer(s) is None:
                c = sb.read(s)
                if isinstance(c, bytes):
                    pristine.write(s, c)
        for c in desc.cmds.values():
            for name in (c.name + ".reads",):
                if sb.exists(name):
                    shutil.copyfile(sb.p(name), pristine.p(name))
            for rp in c.reads:
                cc = sb.read(rp)
                if isinstance(cc, bytes) and desc.producer(rp) is None and not os.path.isabs(rp):
                    pristine.write(rp, cc)
        pristine.write_desc(desc)
        r = bslib.build(pristine, flavor, target=target, db=None)
        if r.rc != 0:
            return None
        res = {}
        for p_ in produced_files(desc):
            v = pristine.read(p_)
            if isinstance(v, bytes):
                res[p_] = v
        return res
    finally:
        shutil.rmtree(pristine.path, ignore_errors=True)
