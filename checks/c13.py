"""C13 - file change detection is sound in every file-system mode (DESIGN.md section 4, C13)."""
import os, shutil
import vlib


def run(tier, replay):
    chk = vlib.Check("C13", tier)
    binp = vlib.build_harness("fileinfo_mon", "asan", ["fileinfo_mon.cpp"], libs=["llbuildBasic", "llvmSupport"])
    cases = 250 if tier == "quick" else 10000
    shards = vlib.NCPU
    sd = vlib.scratch_dir("c13")
    try:
        cmds = []
        for i in range(shards):
            d = os.path.join(sd, "s%d" % i)
            cmds.append([binp, "--seed", str(chk.seed * 1000 + i), "--cases", str(cases), "--dir", d])
        if replay:
            import json
            w = json.load(open(replay))["witness"]
            cmds = [w["cmd"].split()]
        sums = vlib.run_shards(chk, cmds, timeout=1800)
        # uninitialised-read monitor: a small subset under valgrind memcheck on the unsanitized flavor
        vg_cases = 40 if tier == "quick" else 400
        pbin = vlib.strip_debug(vlib.build_harness("fileinfo_mon", "plain", ["fileinfo_mon.cpp"], libs=["llbuildBasic", "llvmSupport"]))
        vcmd = ["valgrind", "--quiet", "--error-exitcode=97", "--track-origins=no", "--exit-on-first-error=no",
                pbin, "--seed", str(chk.seed), "--cases", str(vg_cases), "--dir", os.path.join(sd, "vg")]
        rc, out, err, to = vlib.run_child(vcmd, 1800)
        vg_reports = err.decode("utf-8", "replace").count("== Conditional jump") + err.decode("utf-8", "replace").count("== Use of uninitialised") + \
            err.decode("utf-8", "replace").count("== Invalid read") + err.decode("utf-8", "replace").count("== Syscall param")
        if to:
            chk.inconclusive.append("valgrind run timed out")
        elif rc == 97 or vg_reports:
            e = err.decode("utf-8", "replace")
            import re
            fr = re.findall(r"(?:at|by) 0x[0-9A-F]+: ([^\n]+)", e)
            top = [f for f in fr if "llbuild" in f or "MD5" in f or "FileInfo" in f][:2]
            chk.violation("memcheck: uninitialised or invalid read while observing files @ " + " < ".join(t.split(" (")[0] for t in top),
                          {"cmd": " ".join(vcmd), "stderr": e[:6000]})
        else:
            vrecs = vlib.parse_jsonl(out)
            if not any("summary" in r for r in vrecs):
                chk.inconclusive.append("valgrind run produced no summary: " + err.decode("utf-8", "replace")[-300:])
            for r in vrecs:
                if "viol" in r:
                    chk.violation(r["viol"], r.get("witness"))
        chk.add(vlib.sum_key(sums, "judged"), max(s.get("distinct_classes", 0) for s in sums) if sums else 0)
        chk.cov["rule"] = ("each case = (initial kind, content size, mtime) x one of 9 transitions, observed through getFileInfo and getLinkInfo in "
                           "default / device-agnostic / checksum-only mode; oracle from raw stat()/lstat() + byte comparison; a class is "
                           "(mode, call, transition, field that changed, expected verdict); non-trivial = judged (must-differ or must-equal)")
        chk.cov.update(cases=vlib.sum_key(sums, "cases"), must_differ=vlib.sum_key(sums, "must_differ"), must_equal=vlib.sum_key(sums, "must_equal"),
                       not_judged=vlib.sum_key(sums, "not_judged"), missing_sentinel_checks=vlib.sum_key(sums, "missing_checks"),
                       digest_checks=vlib.sum_key(sums, "digest_checks"), memcheck_cases=vg_cases, memcheck_reports=vg_reports,
                       by_transition=sums[0].get("by_transition") if sums else {})
        for s in sums[:2]:
            chk.sample(s.get("sample"))
        chk.assumptions = ["ext4 scratch directory under /verif/.work; explicit utimensat mtimes", "valgrind memcheck sees only the 'plain' flavor"]
    finally:
        shutil.rmtree(sd, ignore_errors=True)
    return chk.finish()
