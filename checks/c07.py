"""C07 - dependency cycles are always detected and reported accurately, never falsely."""
import shutil
import vlib, enginecommon as ec

KEYS = ["cases", "runs", "builds", "rules_executed", "cycle_builds", "interrupted_tasks", "hook_before_wait", "delivered_at_hook"]


def run(tier, replay):
    chk = vlib.Check("C07", tier)
    if replay:
        return ec.replay(chk, replay)
    binp = ec.build("asan")
    sd = vlib.scratch_dir("c07")
    try:
        th = tier == "thorough"
        m = ec.run_profile(chk, binp, "c07", 3200 if not th else 80000, sd, thorough=th)
        # enumeration of all digraphs on 3 keys over {absent, static, dynamic, discovered-at-completion} edges (4096) and on 4 keys over static edges (4096)
        total = 8192
        if th:
            me = ec.run_profile(chk, binp, "c07e", total, sd, label="enum")
            chk.cov["exhaustive"] = False
            chk.cov["enumerated_graphs_complete"] = True
        else:
            off = (chk.seed * 977) % total
            me = ec.run_profile(chk, binp, "c07e", 960, sd, label="enum", base_offset=off)
        ec.fold(chk, m, KEYS)
        chk.cov["enumerated_graphs"] = int(me.get("cases", 0))
        chk.cov["enumerated_cycle_builds"] = int(me.get("cycle_builds", 0))
        chk.cov["enumerated_builds"] = int(me.get("builds", 0))
        chk.add(int(m.get("builds", 0)) + int(me.get("builds", 0)), int(m.get("distinct_nontrivial", 0)) + int(me.get("distinct_nontrivial", 0)))
        if int(m.get("cycle_builds", 0)) + int(me.get("cycle_builds", 0)) < 10:
            chk.inconclusive.append("too few cycle reports observed")
        chk.cov["rule"] = ("ground truth for 'a cycle is required' = least fixpoint of the program in the current state (reference evaluator): such a build must fail with "
                           "exactly one cycleDetected, any other build must not stall; every reported list is validated edge by edge against what the observer saw "
                           "(first = requested key, last repeats, every pair is an unprovided request of a live task or a recorded dependency of a rule being scanned, "
                           "no key already up to date); random cyclic programs with histories that flip dynamic requests and leave recorded dependencies behind, "
                           "3 schedules each, cycle breaking opted in (ForceBuild) for a quarter of the cases; tasks may also report a computed key (any, also one that depends on them) as a "
                           "discovered dependency at completion, which is recorded and closes cycles that exist only in the scan of a later build (no task in flight); "
                           "plus enumerated small digraphs over {absent, static, dynamic, discovered} edges")
        chk.assumptions = ["shouldResolveCycle answers true only for ForceBuild, never SupplyPriorValue"]
    finally:
        shutil.rmtree(sd, ignore_errors=True)
    return chk.finish()
