"""Reference evaluator of the Ninja manifest language, written from the Ninja manual (1.11), for check C17.

Independent of llbuild and of the manifest generator: it parses the bytes of the manifest files.

Rules implemented (manual sections "Ninja file reference", "Lexical syntax", "Evaluation and scoping"):
  * statements: rule, build, default, pool, include, subninja, `name = value`; a keyword is a keyword only
    as a whole word (an identifier is the longest run of [a-zA-Z0-9_.-]);
  * comments are whole lines whose first non-blank byte is '#'; newlines are significant; indentation is spaces;
  * `$` escapes: `$$` `$ ` `$:` `$<newline>` (continuation, leading blanks of the next line are dropped; the
    newline may be CR LF), `${name}`, `$name` (name = [a-zA-Z0-9_-]+, no dot);
  * a build/default line is split into paths first, each path is expanded afterwards;
  * `name = value` is expanded when it is read (file-level and build-level alike, both in the file scope);
    variables of a rule block are expanded when the rule is used, lookup order: $in/$out/$in_newline, build-level,
    rule-level, file-level, then the scopes of the files that `subninja`d this one; `include` shares the scope;
  * rules live in scopes too: a file loaded by subninja sees the rules of its parents and may shadow them;
  * $in / $out / $in_newline are the explicit inputs / outputs, shell-quoted when they appear in commands;
  * every byte >= 0x80 is an ordinary character;
  * paths are canonicalised the way Ninja does (CanonicalizePath).

`Edge.get(name, quote, live)`: `quote` is the shell-quoting function applied to $in/$out paths (None: unquoted);
`live=False` evaluates file-level variables as they were when the build statement was read, `live=True` as they
are at the end of loading (what the ninja binary does).  The property excludes manifests where the two differ.
"""

RESERVED = (b"command", b"description", b"deps", b"depfile", b"generator", b"pool", b"restat", b"rspfile",
            b"rspfile_content")
IDENT = frozenset(b"abcdefghijklmnopqrstuvwxyzABCDEFGHIJKLMNOPQRSTUVWXYZ0123456789_.-")
SIMPLE = frozenset(b"abcdefghijklmnopqrstuvwxyzABCDEFGHIJKLMNOPQRSTUVWXYZ0123456789_-")
KEYWORDS = (b"build", b"rule", b"pool", b"default", b"include", b"subninja")
SP, NL, CR, DOLLAR = 0x20, 0x0a, 0x0d, 0x24


class RefError(Exception):
    pass


def canonicalize(path):
    """Port of Ninja's CanonicalizePath (POSIX flavour)."""
    if not path:
        return path
    absolute = path.startswith(b"/")
    out = []
    ncomp = 0
    for c in path.split(b"/"):
        if c == b"" or c == b".":
            continue
        if c == b"..":
            if ncomp > 0:
                out.pop()
                ncomp -= 1
            else:
                out.append(c)
            continue
        out.append(c)
        ncomp += 1
    res = (b"/" if absolute else b"") + b"/".join(out)
    return res if res else b"."


_SAFE = frozenset(b"abcdefghijklmnopqrstuvwxyzABCDEFGHIJKLMNOPQRSTUVWXYZ0123456789_+-./")


def ninja_shell_quote(s):
    """Ninja's GetShellEscapedString: untouched if only [A-Za-z0-9_+-./], else '...' with ' written '\\''."""
    if all(b in _SAFE for b in s):
        return s
    return b"'" + s.replace(b"'", b"'\\''") + b"'"


class Scope:
    def __init__(self, parent=None):
        self.vars = {}
        self.rules = {}
        self.parent = parent

    def lookup(self, name):
        s = self
        while s is not None:
            if name in s.vars:
                return s.vars[name]
            s = s.parent
        return b""

    def lookup_rule(self, name):
        s = self
        while s is not None:
            if name in s.rules:
                return s.rules[name]
            s = s.parent
        return None

    def snapshot(self):
        s = Scope(self.parent.snapshot() if self.parent is not None else None)
        s.vars = dict(self.vars)
        return s

    def depth(self):
        n, s = 0, self
        while s.parent is not None:
            n, s = n + 1, s.parent
        return n


class Rule:
    def __init__(self, name, scope):
        self.name = name
        self.bindings = {}    # name -> parts
        self.scope = scope


class Edge:
    def __init__(self):
        self.outputs = []       # canonical
        self.explicit = []
        self.implicit = []
        self.order_only = []
        self.raw = {}           # class -> paths as written (after expansion, before canonicalisation)
        self.rule = None
        self.bindings = {}
        self.scope_live = None
        self.scope_snap = None
        self.file = None
        self.line = 0
        self.path_reads_build_var = False   # a path mentions a name that the build block binds (manual/binary differ)
        self.rule_from_parent_scope = False

    @property
    def is_phony(self):
        return self.rule.name == b"phony" and not self.rule.bindings

    def noncanonical(self):
        return any(canonicalize(p) != p for k in self.raw for p in self.raw[k])

    def _lookup(self, name, quote, live, stack):
        if name == b"in" or name == b"in_newline":
            sep = b" " if name == b"in" else b"\n"
            return sep.join((quote(p) if quote else p) for p in self.explicit)
        if name == b"out":
            return b" ".join((quote(p) if quote else p) for p in self.outputs)
        if name in self.bindings:
            return self.bindings[name]
        parts = self.rule.bindings.get(name)
        if parts is not None:
            if name in stack:
                raise RefError("cycle in rule variables: " + "->".join(x.decode("latin-1") for x in stack + [name]))
            stack.append(name)
            r = expand(parts, lambda n: self._lookup(n, quote, live, stack))
            stack.pop()
            return r
        return (self.scope_live if live else self.scope_snap).lookup(name)

    def get(self, name, quote=None, live=False):
        return self._lookup(name, quote, live, [])

    def lazy_names(self):
        """Names that evaluating this edge's rule variables reads from the file scopes."""
        seen, out = set(), set()

        def walk(name):
            if name in (b"in", b"out", b"in_newline") or name in self.bindings:
                return
            parts = self.rule.bindings.get(name)
            if parts is None:
                out.add(name)
                return
            if name in seen:
                return
            seen.add(name)
            for k, v in parts:
                if k:
                    walk(v)
        for n in RESERVED:
            walk(n)
        return out


class Manifest:
    def __init__(self):
        self.edges = []
        self.pools = {b"console": 1}
        self.defaults = []
        self.nodes = {}        # canonical path -> first spelling
        self.files = []        # names of the files read, in order
        self.root = Scope()
        self.root.rules[b"phony"] = Rule(b"phony", self.root)

    def producer(self, path):
        for e in self.edges:
            if path in e.outputs:
                return e
        return None

    def consumers(self, path):
        return [e for e in self.edges if path in e.explicit or path in e.implicit or path in e.order_only]

    def leaves(self):
        outs = set(p for e in self.edges for p in e.outputs)
        res = []
        for e in self.edges:
            for p in e.explicit + e.implicit + e.order_only:
                if p not in outs and p not in res:
                    res.append(p)
        return res


def expand(parts, lookup):
    return b"".join(v if k == 0 else lookup(v) for k, v in parts)


class Parser:
    def __init__(self, data, fname, manifest, scope, reader, depth=0):
        self.d = data
        self.n = len(data)
        self.p = 0
        self.fname = fname
        self.m = manifest
        self.scope = scope
        self.reader = reader
        self.depth = depth

    # ---------------------------------------------------------------- lexical level
    def err(self, msg):
        line = self.d.count(b"\n", 0, self.p) + 1
        raise RefError("%s:%d: %s" % (self.fname.decode("latin-1"), line, msg))

    def lineno(self):
        return self.d.count(b"\n", 0, self.p) + 1

    def line_start(self):
        """At the beginning of a line: skip comment lines; classify the next line."""
        d, n = self.d, self.n
        while True:
            start = q = self.p
            while q < n and d[q] == SP:
                q += 1
            if q >= n:
                self.p = q
                return "eof"
            c = d[q]
            if c == 0x23:  # '#'
                nl = d.find(b"\n", q)
                if nl < 0:
                    self.err("comment without newline at end of file")
                self.p = nl + 1
                continue
            if c == NL:
                self.p = q + 1
                return "blank"
            if c == CR and q + 1 < n and d[q + 1] == NL:
                self.p = q + 2
                return "blank"
            if c == 0x09:
                self.err("tabs are not allowed")
            self.p = q
            return "indent" if q > start else "top"

    def skip_ws(self):
        d, n = self.d, self.n
        while self.p < n:
            c = d[self.p]
            if c == SP:
                self.p += 1
            elif c == DOLLAR and d.startswith(b"$\n", self.p):
                self.p += 2
            elif c == DOLLAR and d.startswith(b"$\r\n", self.p):
                self.p += 3
            else:
                break

    def read_ident(self):
        d, n = self.d, self.n
        q = self.p
        while q < n and d[q] in IDENT:
            q += 1
        if q == self.p:
            self.err("expected identifier")
        w = d[self.p:q]
        self.p = q
        self.skip_ws()
        return w

    def expect(self, tok):
        if not self.d.startswith(tok, self.p):
            self.err("expected %r" % tok)
        self.p += len(tok)
        self.skip_ws()

    def expect_newline(self):
        d, n = self.d, self.n
        while self.p < n and d[self.p] == SP:
            self.p += 1
        if d.startswith(b"\n", self.p):
            self.p += 1
        elif d.startswith(b"\r\n", self.p):
            self.p += 2
        else:
            self.err("expected newline")

    def read_eval(self, path):
        """Read one path (stops before blank, ':', '|', newline) or one value (up to and including the newline)."""
        d, n = self.d, self.n
        parts = []
        lit = bytearray()

        def flush():
            if lit:
                parts.append((0, bytes(lit)))
                del lit[:]
        while True:
            if self.p >= n:
                self.err("unexpected end of file")
            c = d[self.p]
            if c == DOLLAR:
                nx = d[self.p + 1] if self.p + 1 < n else -1
                if nx == DOLLAR or nx == SP or nx == 0x3a:
                    lit.append(nx)
                    self.p += 2
                elif nx == NL or (nx == CR and d.startswith(b"\r\n", self.p + 1)):
                    self.p += 2 if nx == NL else 3
                    while self.p < n and d[self.p] == SP:
                        self.p += 1
                elif nx == 0x7b:  # '{'
                    q = self.p + 2
                    while q < n and d[q] in IDENT:
                        q += 1
                    if q == self.p + 2 or q >= n or d[q] != 0x7d:
                        self.err("bad ${} reference")
                    flush()
                    parts.append((1, d[self.p + 2:q]))
                    self.p = q + 1
                elif nx in SIMPLE:
                    q = self.p + 1
                    while q < n and d[q] in SIMPLE:
                        q += 1
                    flush()
                    parts.append((1, d[self.p + 1:q]))
                    self.p = q
                else:
                    self.err("bad $-escape")
            elif c == NL:
                if not path:
                    self.p += 1
                break
            elif c == CR:
                if not d.startswith(b"\r\n", self.p):
                    self.err("carriage return without newline")
                if not path:
                    self.p += 2
                break
            elif c == 0:
                self.err("NUL byte")
            elif path and (c == SP or c == 0x3a or c == 0x7c):
                break
            else:
                lit.append(c)
                self.p += 1
        flush()
        if path:
            self.skip_ws()
        return parts

    def read_block(self):
        out = []
        while True:
            save = self.p
            if self.line_start() != "indent":
                self.p = save
                return out
            name = self.read_ident()
            self.expect(b"=")
            out.append((name, self.read_eval(False)))

    def read_paths(self):
        res = []
        while True:
            parts = self.read_eval(True)
            if not parts:
                return res
            res.append(parts)

    # ---------------------------------------------------------------- statements
    def parse(self):
        self.m.files.append(self.fname)
        while True:
            k = self.line_start()
            if k == "eof":
                return
            if k == "blank":
                continue
            if k == "indent":
                self.err("unexpected indent")
            if self.d[self.p] not in IDENT:
                self.err("unexpected character at start of statement")
            line = self.lineno()
            word = self.read_ident()
            if word == b"build":
                self.parse_build(line)
            elif word == b"rule":
                self.parse_rule()
            elif word == b"pool":
                self.parse_pool()
            elif word == b"default":
                self.parse_default()
            elif word == b"include" or word == b"subninja":
                self.parse_include(word == b"subninja")
            else:
                self.expect(b"=")
                val = self.read_eval(False)
                self.scope.vars[word] = expand(val, self.scope.lookup)

    def parse_rule(self):
        name = self.read_ident()
        self.expect_newline()
        if name in self.scope.rules:
            self.err("duplicate rule")
        r = Rule(name, self.scope)
        for k, parts in self.read_block():
            if k not in RESERVED:
                self.err("unexpected variable in rule")
            r.bindings[k] = parts
        if not r.bindings.get(b"command"):
            self.err("rule without command")
        if bool(r.bindings.get(b"rspfile")) != bool(r.bindings.get(b"rspfile_content")):
            self.err("rspfile and rspfile_content go together")
        self.scope.rules[name] = r

    def parse_pool(self):
        name = self.read_ident()
        self.expect_newline()
        if name in self.m.pools:
            self.err("duplicate pool")
        depth = None
        for k, parts in self.read_block():
            if k != b"depth":
                self.err("unexpected variable in pool")
            v = expand(parts, self.scope.lookup)
            try:
                depth = int(v.decode("ascii"))
            except (ValueError, UnicodeDecodeError):
                self.err("invalid pool depth")
        if depth is None or depth < 0:
            self.err("pool without depth")
        self.m.pools[name] = depth

    def parse_default(self):
        paths = self.read_paths()
        if not paths:
            self.err("expected target name")
        self.expect_newline()
        for parts in paths:
            p = canonicalize(expand(parts, self.scope.lookup))
            if not p:
                self.err("empty path")
            if p not in self.m.nodes:
                self.err("unknown target")
            self.m.defaults.append(p)

    def parse_include(self, new_scope):
        parts = self.read_eval(True)
        if not parts:
            self.err("expected path")
        self.expect_newline()
        name = expand(parts, self.scope.lookup)
        if self.depth > 16:
            self.err("include depth")
        data = self.reader(name)
        if data is None:
            self.err("cannot read %r" % name)
        sub = Parser(data, name, self.m, Scope(self.scope) if new_scope else self.scope, self.reader, self.depth + 1)
        sub.parse()

    def parse_build(self, line):
        e = Edge()
        e.file, e.line = self.fname, line
        outs = self.read_paths()
        if not outs:
            self.err("expected output path")
        if self.d.startswith(b"|", self.p):
            self.err("implicit outputs are outside the language subset")
        self.expect(b":")
        rule_name = self.read_ident()
        ins = self.read_paths()
        imp, oo = [], []
        if self.d.startswith(b"|@", self.p):
            self.err("validations are outside the language subset")
        if self.d.startswith(b"|", self.p) and not self.d.startswith(b"||", self.p):
            self.p += 1
            self.skip_ws()
            imp = self.read_paths()
        if self.d.startswith(b"||", self.p):
            self.p += 2
            self.skip_ws()
            oo = self.read_paths()
        self.expect_newline()
        block = self.read_block()

        rule = self.scope.lookup_rule(rule_name)
        if rule is None:
            self.err("unknown rule %r" % rule_name)
        e.rule = rule
        e.rule_from_parent_scope = rule.scope is not self.scope and rule.name != b"phony"
        # build-level bindings: expanded immediately, in the file scope
        for k, parts in block:
            e.bindings[k] = expand(parts, self.scope.lookup)
        bound = set(e.bindings)
        for cls, lst in (("outputs", outs), ("explicit", ins), ("implicit", imp), ("order_only", oo)):
            raw = []
            for parts in lst:
                if any(k == 1 and v in bound for k, v in parts):
                    e.path_reads_build_var = True
                p = expand(parts, self.scope.lookup)
                if not p:
                    self.err("empty path")
                raw.append(p)
            e.raw[cls] = raw
            canon = [canonicalize(p) for p in raw]
            setattr(e, cls, canon)
            for p, c in zip(raw, canon):
                self.m.nodes.setdefault(c, p)
        for o in e.outputs:
            if self.m.producer(o) is not None:
                self.err("multiple rules generate %r" % o)
        if len(set(e.outputs)) != len(e.outputs):
            self.err("output listed twice")
        e.scope_live = self.scope
        e.scope_snap = self.scope.snapshot()
        pool = e.get(b"pool")
        if pool and pool not in self.m.pools:
            self.err("unknown pool %r" % pool)
        self.m.edges.append(e)


def load(reader, main=b"build.ninja"):
    """reader(name: bytes) -> bytes or None.  Returns a Manifest; raises RefError for anything outside the language."""
    m = Manifest()
    data = reader(main)
    if data is None:
        raise RefError("cannot read main file")
    Parser(data, main, m, m.root, reader).parse()
    # acyclicity (Ninja refuses cycles when it builds; the generator never makes one)
    prod = {}
    for e in m.edges:
        for o in e.outputs:
            prod[o] = e
    state = {}

    def visit(e):
        st = state.get(id(e))
        if st == 1:
            raise RefError("dependency cycle")
        if st == 2:
            return
        state[id(e)] = 1
        for p in e.explicit + e.implicit + e.order_only:
            if p in prod:
                visit(prod[p])
        state[id(e)] = 2
    for e in m.edges:
        visit(e)
    return m
